// Sanitizer driver for src/srctools/_math_matrix.cpp (mat3_inverse), auxiliary engine of C04.
// Built by checks/c04.py with clang++ -fsanitize=address,undefined -fno-sanitize-recover=all.
// Generates rotation, scaled, near-singular and singular matrices from a seeded xorshift PRNG and
// checks: rotations -> success and inverse == transpose (1e-9); invertible -> inv*M == I (relative);
// exactly singular (zero row / duplicated row / zero matrix) -> returns false.  Prints counters.
#include <cmath>
#include <cstdio>
#include <cstdlib>
#include <cstdint>
#include "_math_matrix.h"

static uint64_t s;
static double rnd() { s ^= s << 13; s ^= s >> 7; s ^= s << 17; return (double)(s >> 11) / 9007199254740992.0; }

static void from_angle(double p, double y, double r, mat3_t* m) {
    const double d = M_PI / 180.0;
    double cp = cos(p * d), sp = sin(p * d), cy = cos(y * d), sy = sin(y * d), cr = cos(r * d), sr = sin(r * d);
    m->_aa = cp * cy; m->_ab = cp * sy; m->_ac = -sp;
    m->_ba = sp * sr * cy - cr * sy; m->_bb = sp * sr * sy + cr * cy; m->_bc = sr * cp;
    m->_ca = sp * cr * cy + sr * sy; m->_cb = sp * cr * sy - sr * cy; m->_cc = cr * cp;
}

static void mul(const mat3_t* a, const mat3_t* b, double out[9]) {
    const double* x = &a->_aa; const double* y = &b->_aa;
    for (int i = 0; i < 3; i++) for (int j = 0; j < 3; j++) {
        double t = 0; for (int k = 0; k < 3; k++) t += x[i * 3 + k] * y[k * 3 + j];
        out[i * 3 + j] = t;
    }
}

int main(int argc, char** argv) {
    long n = argc > 1 ? atol(argv[1]) : 100000;
    s = argc > 2 ? (uint64_t)atoll(argv[2]) * 2654435761ULL + 88172645463325252ULL : 88172645463325252ULL;
    long rot = 0, rot_bad = 0, inv = 0, inv_bad = 0, sing = 0, sing_bad = 0, near = 0, near_nonfinite = 0;
    for (long i = 0; i < n; i++) {
        mat3_t m, out;
        int kind = i % 4;
        if (kind == 0) {  // rotation, incl. multiples of 15 degrees and poles
            double p = (i % 8 == 0) ? 15.0 * (int)(rnd() * 24) : rnd() * 1440 - 720;
            double y = (i % 12 == 0) ? 15.0 * (int)(rnd() * 24) : rnd() * 1440 - 720;
            double r = (i % 16 == 0) ? 90.0 : rnd() * 1440 - 720;
            from_angle(p, y, r, &m);
            rot++;
            if (!mat3_inverse(&m, &out)) { rot_bad++; continue; }
            const double* a = &m._aa; const double* b = &out._aa;
            for (int r_ = 0; r_ < 3; r_++) for (int c = 0; c < 3; c++)
                if (fabs(b[r_ * 3 + c] - a[c * 3 + r_]) > 1e-9) { rot_bad++; r_ = 3; break; }
        } else if (kind == 1) {  // general well-conditioned: rotation * diag scale
            from_angle(rnd() * 360, rnd() * 360, rnd() * 360, &m);
            double* a = &m._aa;
            double sc[3] = {0.5 + rnd() * 4, -(0.5 + rnd() * 4), 0.5 + rnd() * 4};
            for (int r_ = 0; r_ < 3; r_++) for (int c = 0; c < 3; c++) a[r_ * 3 + c] *= sc[r_];
            inv++;
            if (!mat3_inverse(&m, &out)) { inv_bad++; continue; }
            double prod[9]; mul(&out, &m, prod);
            for (int k = 0; k < 9; k++) if (fabs(prod[k] - (k % 4 == 0 ? 1.0 : 0.0)) > 1e-9) { inv_bad++; break; }
        } else if (kind == 2) {  // exactly singular
            double* a = &m._aa;
            for (int k = 0; k < 9; k++) a[k] = rnd() * 2 - 1;
            int how = (int)(rnd() * 4);
            if (how == 0) for (int k = 0; k < 3; k++) a[3 + k] = 0.0;            // zero row
            else if (how == 1) for (int k = 0; k < 3; k++) a[6 + k] = a[k];      // duplicate row
            else if (how == 2) for (int k = 0; k < 9; k++) a[k] = 0.0;           // zero matrix
            else for (int k = 0; k < 3; k++) a[k * 3 + 1] = 0.0;                 // zero column
            sing++;
            if (mat3_inverse(&m, &out)) sing_bad++;
        } else {  // near singular: only memory/UB safety and finiteness of a claimed success are observed
            from_angle(rnd() * 360, rnd() * 360, rnd() * 360, &m);
            double* a = &m._aa;
            double eps = pow(10.0, -(rnd() * 14));
            for (int k = 0; k < 3; k++) a[6 + k] = a[k] * (1 + eps) + a[3 + k] * eps;
            near++;
            if (mat3_inverse(&m, &out)) {
                const double* b = &out._aa;
                for (int k = 0; k < 9; k++) if (!std::isfinite(b[k])) { near_nonfinite++; break; }
            }
        }
    }
    printf("rot=%ld rot_bad=%ld inv=%ld inv_bad=%ld sing=%ld sing_bad=%ld near=%ld near_nonfinite=%ld\n",
           rot, rot_bad, inv, inv_bad, sing, sing_bad, near, near_nonfinite);
    return (rot_bad || inv_bad || sing_bad) ? 3 : 0;
}
