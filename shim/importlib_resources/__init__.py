"""Shim: the pinned tree imports the `importlib_resources` backport, which /venv lacks.
Python 3.12's stdlib `importlib.resources` provides the same API."""
from importlib.resources import *  # noqa
from importlib.resources import files, as_file  # noqa
