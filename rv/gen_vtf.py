"""Harness-side helpers for C15: independent pixel-format model, case generator, hand-made VTF writer.

Nothing here imports srctools: the model is written from the documented semantics of the formats
("drop the LSBs when saving, replicate the MSBs when loading", grey = mean of RGB, bluescreen keying).
"""
from __future__ import annotations

import struct
from typing import Any, Dict, List, Optional, Tuple

# ------------------------------------------------------------------------------------------------
# Pixel model.  Every function maps RGBA8888 bytes -> RGBA8888 bytes "as they must come back".

IDENT = bytes(range(256))


def _expand_table(bits: int) -> bytes:
    """v -> keep the top `bits` bits, then replicate them downwards to fill the byte."""
    out = bytearray(256)
    for v in range(256):
        q = v >> (8 - bits)
        acc = 0
        filled = 0
        while filled < 8:
            shift = 8 - filled - bits
            acc |= (q << shift) if shift >= 0 else (q >> -shift)
            filled += bits
        out[v] = acc & 0xFF
    return bytes(out)


T1 = bytes(255 if v >= 128 else 0 for v in range(256))
T4 = _expand_table(4)
T5 = _expand_table(5)
T6 = _expand_table(6)
CONST0 = bytes(256)
CONST255 = b'\xff' * 256

# Per-channel formats: (R table, G table, B table, A table).
CHANNEL_MODEL: Dict[str, Tuple[bytes, bytes, bytes, bytes]] = {
    'RGBA8888': (IDENT, IDENT, IDENT, IDENT),
    'ABGR8888': (IDENT, IDENT, IDENT, IDENT),
    'ARGB8888': (IDENT, IDENT, IDENT, IDENT),
    'BGRA8888': (IDENT, IDENT, IDENT, IDENT),
    'UVWQ8888': (IDENT, IDENT, IDENT, IDENT),
    'UVLX8888': (IDENT, IDENT, IDENT, IDENT),
    'RGB888': (IDENT, IDENT, IDENT, CONST255),
    'BGR888': (IDENT, IDENT, IDENT, CONST255),
    'BGRX8888': (IDENT, IDENT, IDENT, CONST255),
    'A8': (CONST0, CONST0, CONST0, IDENT),
    'UV88': (IDENT, IDENT, CONST0, CONST255),
    'RGB565': (T5, T6, T5, CONST255),
    'BGR565': (T5, T6, T5, CONST255),
    'BGRX5551': (T5, T5, T5, CONST255),
    'BGRA5551': (T5, T5, T5, T1),
    'BGRA4444': (T4, T4, T4, T4),
}
GREY = ('I8', 'IA88')
BLUESCREEN = ('RGB888_BLUESCREEN', 'BGR888_BLUESCREEN')
# Formats that keep 8 bits for every channel they use (the "exact" clause of the property).
EXACT = ('RGBA8888', 'ABGR8888', 'ARGB8888', 'BGRA8888', 'UVWQ8888', 'UVLX8888', 'RGB888', 'BGR888', 'BGRX8888',
         'A8', 'UV88')
WRITABLE = tuple(CHANNEL_MODEL) + GREY + BLUESCREEN
FAMILY_565 = ('RGB565', 'BGR565')


def model(fmt: str, px: bytes) -> bytes:
    """Expected RGBA after storing `px` in `fmt` and loading it again (grey formats: floor of the mean)."""
    if fmt in CHANNEL_MODEL:
        out = bytearray(len(px))
        for c, tab in enumerate(CHANNEL_MODEL[fmt]):
            out[c::4] = px[c::4].translate(tab)
        return bytes(out)
    out = bytearray(len(px))
    if fmt in GREY:
        keep_alpha = fmt == 'IA88'
        for o in range(0, len(px), 4):
            i = (px[o] + px[o + 1] + px[o + 2]) // 3
            out[o] = out[o + 1] = out[o + 2] = i
            out[o + 3] = px[o + 3] if keep_alpha else 255
        return bytes(out)
    if fmt in BLUESCREEN:
        for o in range(0, len(px), 4):
            r, g, b, a = px[o:o + 4]
            if a < 128 or (r == 0 and g == 0 and b == 255):
                continue  # transparent: (0, 0, 0, 0)
            out[o:o + 4] = bytes((r, g, b, 255))
        return bytes(out)
    raise KeyError(fmt)


def matches_model(fmt: str, src: bytes, got: bytes) -> bool:
    """got == model(src), with the statement's latitude for grey formats (|I - mean| < 1)."""
    want = model(fmt, src)
    if want == got:
        return True
    if fmt not in GREY or len(got) != len(want):
        return False
    for o in range(0, len(src), 4):
        if got[o:o + 4] == want[o:o + 4]:
            continue
        i = got[o]
        if got[o + 1] != i or got[o + 2] != i or got[o + 3] != want[o + 3]:
            return False
        if abs(3 * i - (src[o] + src[o + 1] + src[o + 2])) >= 3:
            return False
    return True


def swap_rb(px: bytes) -> bytes:
    out = bytearray(px)
    out[0::4] = px[2::4]
    out[2::4] = px[0::4]
    return bytes(out)


def first_pixel_diff(want: bytes, got: bytes, width: int) -> Optional[dict]:
    if len(want) != len(got):
        return {'len_want': len(want), 'len_got': len(got)}
    for o in range(0, len(want), 4):
        if want[o:o + 4] != got[o:o + 4]:
            p = o // 4
            return {'x': p % max(width, 1), 'y': p // max(width, 1), 'want': list(want[o:o + 4]), 'got': list(got[o:o + 4]),
                    'differing_pixels': sum(1 for q in range(0, len(want), 4) if want[q:q + 4] != got[q:q + 4])}
    return None


def model_self_check() -> Optional[str]:
    """The model itself must be idempotent, else the harness is broken (-> inconclusive)."""
    ramp = bytearray()
    for v in range(256):
        ramp += bytes((v, (v * 7 + 3) & 255, (v * 13 + 101) & 255, (v * 29 + 17) & 255))
    ramp += bytes((0, 0, 255, 255, 0, 0, 255, 0, 0, 0, 254, 127, 0, 0, 255, 128))
    for fmt in WRITABLE:
        once = model(fmt, bytes(ramp))
        if model(fmt, once) != once:
            return f'model for {fmt} is not idempotent'
    return None


# ------------------------------------------------------------------------------------------------
# Mipmap law.

def mip_average_violation(parent: bytes, pw: int, ph: int, child: bytes, cw: int, ch: int, tol: int = 1) -> Optional[dict]:
    """child must be (pw/2|pw, ph/2|ph) and each channel the mean of the parent block, +-tol."""
    if len(child) != 4 * cw * ch or len(parent) != 4 * pw * ph:
        return {'why': 'buffer size', 'child_len': len(child), 'parent_len': len(parent)}
    fx = pw // cw if cw else 0
    fy = ph // ch if ch else 0
    if fx not in (1, 2) or fy not in (1, 2) or fx * cw != pw or fy * ch != ph:
        return {'why': 'dimensions', 'parent': [pw, ph], 'child': [cw, ch]}
    n = fx * fy
    for y in range(ch):
        rows = [parent[4 * pw * (fy * y + dy): 4 * pw * (fy * y + dy + 1)] for dy in range(fy)]
        crow = child[4 * cw * y: 4 * cw * (y + 1)]
        for c in range(4):
            planes = []
            for row in rows:
                for dx in range(fx):
                    planes.append(row[4 * dx + c::4 * fx])
            got = crow[c::4]
            for x, vals in enumerate(zip(*planes)):
                s = sum(vals)
                if abs(got[x] * n - s) > tol * n:
                    return {'why': 'not the average', 'x': x, 'y': y, 'channel': 'rgba'[c], 'parent_block': list(vals),
                            'got': got[x], 'mean': s / n}
    return None


def mip_pick_violation(parent: bytes, pw: int, ph: int, child: bytes, cw: int, ch: int, right: bool, lower: bool) -> Optional[dict]:
    """The four documented nearest filters: child pixel = the upper/lower left/right pixel of the parent's block
    (a dimension that is not halved has a block one pixel wide there)."""
    if len(child) != 4 * cw * ch or len(parent) != 4 * pw * ph:
        return {'why': 'buffer size', 'child_len': len(child), 'parent_len': len(parent)}
    fx = pw // cw if cw else 0
    fy = ph // ch if ch else 0
    if fx not in (1, 2) or fy not in (1, 2) or fx * cw != pw or fy * ch != ph:
        return {'why': 'dimensions', 'parent': [pw, ph], 'child': [cw, ch]}
    dx = 1 if (right and fx == 2) else 0
    dy = 1 if (lower and fy == 2) else 0
    for y in range(ch):
        for x in range(cw):
            po = 4 * (pw * (fy * y + dy) + fx * x + dx)
            co = 4 * (cw * y + x)
            if child[co:co + 4] != parent[po:po + 4]:
                return {'why': 'not the documented pixel of the block', 'x': x, 'y': y, 'got': list(child[co:co + 4]),
                        'want': list(parent[po:po + 4])}
    return None


def expected_dims(w: int, h: int, level: int) -> Tuple[int, int]:
    return max(w >> level, 1), max(h >> level, 1)


# ------------------------------------------------------------------------------------------------
# Case generator (JSON-able dicts; pixel data is regenerated from seeds).

def f32(x: float) -> float:
    return struct.unpack('<f', struct.pack('<f', x))[0]


def rand_f32(rng) -> float:
    r = rng.random()
    if r < 0.15:
        return f32(rng.choice((0.0, -0.0, 1.0, -1.0, 0.5, float('inf'), float('-inf'), 3.4028234663852886e+38, 1e-45)))
    if r < 0.5:
        return f32(rng.uniform(-4, 4))
    if r < 0.8:
        return f32(rng.random())
    # any finite bit pattern
    while True:
        bits = rng.getrandbits(32)
        if (bits >> 23) & 0xFF != 0xFF:
            return struct.unpack('<f', struct.pack('<I', bits))[0]


SIZES = (1, 2, 4, 8, 16, 32, 64)
SIZE_W = (3, 3, 3, 3, 2, 2, 1)
RESERVED_IDS = (b'\x01\0\0', b'\x30\0\0', b'\x10\0\0')
KNOWN_IDS = ('CRC', 'LOD_SETTINGS', 'EXTRA_FLAGS', 'KEYVALUES')
ENVMAP = 0x4000
EDGE_VALUES = (0, 1, 3, 4, 7, 8, 15, 16, 17, 31, 32, 63, 64, 127, 128, 129, 191, 192, 247, 248, 251, 252, 254, 255)


def gen_resources(rng) -> List[list]:
    out: List[list] = []
    used = set()
    for _ in range(rng.choice((0, 0, 1, 2, 3, 6))):
        if rng.random() < 0.5:
            name = rng.choice(KNOWN_IDS)
            ident: Any = {'known': name}
            key = name
        else:
            raw = bytes(rng.choice((rng.randrange(256), rng.randrange(0x41, 0x5B))) for _ in range(3))
            if raw in RESERVED_IDS or raw in (b'CRC', b'LOD', b'TSO', b'KVD'):
                continue
            ident = {'raw': raw.hex()}
            key = raw
        if key in used:
            continue
        used.add(key)
        flags = rng.choice((0, 0, 1, 4, 0x80, 0xFD, rng.randrange(256))) & ~0x02
        if rng.random() < 0.45:
            data: Any = rng.choice((0, 1, 0xFFFFFFFF, rng.getrandbits(32), rng.getrandbits(8)))
            flags |= 0x02  # the format's "data is inline" discriminator always agrees with the data type
        else:
            data = {'hex': rng.randbytes(rng.choice((0, 1, 3, 4, 7, 16, 100))).hex()}
        out.append([ident, flags, data])
    return out


def gen_sheet(rng) -> Optional[dict]:
    if rng.random() < 0.55:
        return None
    version = rng.choice((0, 1))
    seqs = []
    nums = rng.sample(range(64), rng.choice((1, 1, 2, 3, 8)))
    if rng.random() < 0.1:
        nums = list(range(64))
    for num in nums:
        frames = []
        for _ in range(rng.choice((0, 1, 1, 2, 5))):
            coords = [[rand_f32(rng) for _ in range(4)] for _ in range(4)]
            if version == 0:  # version 0 stores one coordinate set per frame: the format cannot carry four
                coords = [coords[0]] * 4
            frames.append([rand_f32(rng), coords])
        seqs.append({'num': num, 'clamp': rng.random() < 0.5, 'duration': rand_f32(rng), 'frames': frames})
    return {'version': version, 'seqs': seqs}


def gen_case(rng, fmt: Optional[str] = None, thumb: Optional[str] = None, max_size: int = 64) -> dict:
    sizes = [s for s in SIZES if s <= max_size]
    weights = SIZE_W[:len(sizes)]
    shape = rng.random()
    if shape < 0.18:
        w, h = 1, rng.choices(sizes, weights)[0]
    elif shape < 0.36:
        w, h = rng.choices(sizes, weights)[0], 1
    elif shape < 0.6:
        w = h = rng.choices(sizes, weights)[0]
    else:
        w, h = rng.choices(sizes, weights)[0], rng.choices(sizes, weights)[0]
    minor = rng.choice((2, 3, 4, 5))
    cube = rng.random() < 0.25
    depth = 1 if cube else rng.choice((1, 1, 2, 3))
    frames = rng.choice((1, 1, 2, 3))
    if cube and w * h >= 1024:
        frames = min(frames, 2)
    flags = 0
    for bit in range(32):
        if rng.random() < 0.2:
            flags |= 1 << bit
    flags = (flags | ENVMAP) if cube else (flags & ~ENVMAP)
    case = {
        'engine': 'roundtrip',
        'w': w, 'h': h, 'minor': minor, 'cube': cube, 'depth': depth, 'frames': frames, 'flags': flags,
        'fmt': fmt or rng.choice(WRITABLE),
        'thumb': thumb or rng.choice(WRITABLE + ('NONE', 'NONE')),
        'ref': [rand_f32(rng) for _ in range(3)], 'bump': rand_f32(rng),
        'first_frame': rng.choice((0, 0, 1, 65535, rng.randrange(65536))),
        'resources': gen_resources(rng) if minor >= 3 else [],
        'sheet': gen_sheet(rng) if minor >= 3 else None,
        'pix_seed': rng.getrandbits(48),
        'pix_mode': rng.choice(('random', 'random', 'edges', 'bluekey', 'fill', 'setitem')),
        'explicit_mips': rng.random() < 0.3,
        'thumb_inject': rng.random() < 0.6,
        'save_minor': None,
    }
    if rng.random() < 0.08:
        # a texture that holds resources / a particle sheet, written as 7.2 (which cannot carry them): by the object's own
        # version or by the version argument of save().  The image and the header fields must still round-trip.
        case['resources'] = case['resources'] or gen_resources(rng) or [[{'known': 'CRC'}, 2, 12345]]
        if rng.random() < 0.5:
            case['sheet'] = case['sheet'] or gen_sheet(rng)
        if rng.random() < 0.5:
            case['minor'] = 2
        else:
            case['minor'] = max(case['minor'], 3)
            case['save_minor'] = 2
        case['legacy_with_resources'] = True
        return case
    if rng.random() < 0.12:
        # explicit version argument of save(); resources/sheet/depth stay within what that version carries
        cand = [m for m in (2, 3, 4, 5) if m != minor]
        if case['resources'] or case['sheet']:
            cand = [m for m in cand if m >= 3]
        if cand:
            case['save_minor'] = rng.choice(cand)
    return case


def gen_pixels(rng, mode: str, w: int, h: int) -> bytes:
    n = w * h
    if mode in ('random', 'setitem'):
        return rng.randbytes(4 * n)
    if mode == 'edges':
        return bytes(rng.choice(EDGE_VALUES) for _ in range(4 * n))
    if mode == 'bluekey':
        out = bytearray()
        for _ in range(n):
            r = rng.random()
            if r < 0.3:
                out += bytes((0, 0, 255, rng.choice((0, 127, 128, 255))))
            elif r < 0.5:
                out += bytes((rng.choice((0, 1)), rng.choice((0, 1)), rng.choice((254, 255)), rng.choice((126, 127, 128, 129))))
            else:
                out += rng.randbytes(3) + bytes((rng.choice((0, 127, 128, 200, 255)),))
        return bytes(out)
    if mode == 'fill':
        if rng.random() < 0.5:
            # the colours a fill is usually made with: black / white / one channel, with every kind of alpha
            return bytes(rng.choice(((0, 0, 0, 0), (0, 0, 0, 128), (0, 0, 0, 255), (0, 0, 0, 1), (255, 255, 255, 0), (255, 255, 255, 255),
                                     (0, 0, 1, 0), (255, 0, 255, 255), (0, 255, 0, 254), (128, 128, 128, 128)))) * n
        return rng.randbytes(4) * n
    if mode == 'sweep':
        # every value 0..255 occurs in every channel (needs n >= 256); channels are decorrelated by permutations
        perms = []
        for _ in range(4):
            p = list(range(256))
            rng.shuffle(p)
            perms.append(p)
        out = bytearray()
        for i in range(n):
            out += bytes(p[i % 256] for p in perms)
        return bytes(out)
    raise ValueError(mode)


# ------------------------------------------------------------------------------------------------
# Hand-made VTF files (independent writer, RGBA8888/BGR888 main image, no thumbnail).

def handmade_vtf(w: int, h: int, minor: int, frames: int, depth: int, cube: bool, mips: int, fmt: str,
                 images: Dict[Tuple[int, int, int], bytes], flags: int) -> bytes:
    """images[(frame, slice_or_face_index, level)] = RGBA bytes.  Layout: smallest mip first; per mip frames, then faces/slices."""
    faces = (7 if minor < 5 else 6) if cube else depth
    fmt_ind = {'RGBA8888': 0, 'BGR888': 3}[fmt]
    body = bytearray()
    for level in reversed(range(mips)):
        for fr in range(frames):
            for sl in range(faces):
                px = images[fr, sl, level]
                if fmt == 'RGBA8888':
                    body += px
                else:
                    raw = bytearray(len(px) // 4 * 3)
                    raw[0::3] = px[2::4]
                    raw[1::3] = px[1::4]
                    raw[2::3] = px[0::4]
                    body += raw
    n_res = 2 if minor >= 3 else 0
    header_size = 80 + 8 * n_res
    head = bytearray()
    head += b'VTF\0' + struct.pack('<II', 7, minor)
    head += struct.pack('<IHHIHH4xfff4xfiBiBB', header_size, w, h, flags, frames, 0, 0.25, 0.5, 0.75, 1.0,
                        fmt_ind, mips, -1, 0, 0)
    head += struct.pack('<H', depth)
    if minor >= 3:
        head += struct.pack('<3xI8x', n_res)
        head += struct.pack('<3sBI', b'\x01\0\0', 0, header_size)
        head += struct.pack('<3sBI', b'\x30\0\0', 0, header_size)
    else:
        head += bytes(15)
    assert len(head) == header_size, (len(head), header_size)
    return bytes(head + body)


# ------------------------------------------------------------------------------------------------
# Independent reader of the file layout (header + resource table only).

BITS = {'RGBA8888': 32, 'ABGR8888': 32, 'ARGB8888': 32, 'BGRA8888': 32, 'UVWQ8888': 32, 'UVLX8888': 32, 'BGRX8888': 32,
        'RGB888': 24, 'BGR888': 24, 'RGB888_BLUESCREEN': 24, 'BGR888_BLUESCREEN': 24,
        'RGB565': 16, 'BGR565': 16, 'BGRX5551': 16, 'BGRA5551': 16, 'BGRA4444': 16, 'IA88': 16, 'UV88': 16,
        'I8': 8, 'A8': 8, 'NONE': 0}


def parse_layout(data: bytes) -> dict:
    """Header fields and image offsets, decoded without the library."""
    if data[:4] != b'VTF\0':
        raise ValueError('signature')
    major, minor = struct.unpack_from('<II', data, 4)
    (header_size, w, h, flags, frames, first, r0, r1, r2, bump, fmt, mips, low_fmt, low_w, low_h) = \
        struct.unpack_from('<IHHIHH4xfff4xfiBiBB', data, 12)
    depth = struct.unpack_from('<H', data, 63)[0]
    out = {'minor': minor, 'header_size': header_size, 'w': w, 'h': h, 'flags': flags, 'frames': frames, 'mips': mips,
           'fmt': fmt, 'low_fmt': low_fmt, 'low_w': low_w, 'low_h': low_h, 'depth': depth, 'resources': []}
    if minor >= 3:
        n = struct.unpack_from('<I', data, 68)[0]
        low_off = high_off = None
        for i in range(n):
            rid, rflags, val = struct.unpack_from('<3sBI', data, 80 + 8 * i)
            out['resources'].append([rid.hex(), rflags, val])
            if rid == b'\x01\0\0':
                low_off = val
            elif rid == b'\x30\0\0':
                high_off = val
        out['low_off'], out['high_off'] = low_off, high_off
        out['table_end'] = 80 + 8 * n
    else:
        out['low_off'] = header_size
        out['high_off'] = None  # needs the thumbnail size: filled in by the caller
        out['table_end'] = 80
    return out


def image_bytes(w: int, h: int, mips: int, frames: int, faces: int, bits: int) -> int:
    total = 0
    for lv in range(mips):
        lw, lh = expected_dims(w, h, lv)
        total += lw * lh * bits // 8 * frames * faces
    return total
