"""Generator of FGD definitions (built through the public API of srctools.fgd) and the harness-side
snapshot / expected-model / diff used by the C16 check.

Nothing here uses the library's own __eq__: entities are turned into plain JSON-able snapshots that
are compared structurally.  `model_text()` states, in one place, every *documented* decay of the text
format (I/O type decay, tags/resources/extension helpers only under custom_syntax, ...).
"""
from __future__ import annotations

import random
import string
from typing import Any, Dict, List, Optional, Sequence, Tuple

LETTERS = string.ascii_letters
IDENT_REST = string.ascii_letters + string.digits + '_'
# keyvalue names the entity-body grammar reserves ("input X(...)", "output X(...)")
RESERVED_KV_NAMES = {'input', 'output'}
WORDS = ('the', 'entity', 'name', 'of', 'target', 'Fire', 'when', 'a', 'player', 'touches', 'this', 'brush', 'Speed',
         'in', 'units', 'per', 'second', 'damage', 'scale', 'is', 'not', 'used', 'Start', 'Disabled', 'model', 'to',
         'use', 'for', 'sound', 'script', 'NPC', 'filter', 'x', 'I', 'It', '0', '1', '255', '3.5', '-1')
PUNCT = ".,:;+-=()[]{}#@/*!?%&|<>~^$_'"
CP1252 = 'éß©€üÆ'
ESC_CUSTOM = '"\\\n\t\r\v\b\f\a\''   # need escape_text; only round-trip under custom_syntax=True
ESC_PLAIN = '\n\t'                   # what the classic syntax can carry (\n escape, raw tab)
TAG_NAMES = ('HL2', 'EP1', 'EP2', 'P1', 'P2', 'CSGO', 'TF2', 'L4D', 'L4D2', 'ASW', 'MBASE', 'SINCE_P2', 'UNTIL_ASW',
             'GMOD', 'INFRA', 'MESA', 'KZ', 'ENGINE', 'SRCTOOLS', 'VSCRIPT')


# ------------------------------------------------------------------------------------------ text pieces
def ident(rng: random.Random, lo: int = 1, hi: int = 10) -> str:
    n = rng.randint(lo, hi)
    return rng.choice(LETTERS + '_') + ''.join(rng.choice(IDENT_REST) for _ in range(n - 1))


def uniq_ident(rng: random.Random, used: set, lo: int = 1, hi: int = 10, reserved: Sequence[str] = ()) -> str:
    while True:
        s = ident(rng, lo, hi)
        if s.casefold() in used or s.casefold() in reserved:
            continue
        used.add(s.casefold())
        return s


def pathlike(rng: random.Random) -> str:
    parts = [''.join(rng.choice(string.ascii_lowercase + string.digits + '_') for _ in range(rng.randint(1, 8)))
             for _ in range(rng.randint(1, 3))]
    return '/'.join(parts) + rng.choice(('', '.mdl', '.vmt', '.wav'))


def short_text(rng: random.Random, custom: bool, max_len: int = 40, hostile: float = 0.25,
               newlines: bool = True, escapes: bool = True) -> str:
    """Free text.  custom=False excludes what only the extended escapes can carry (quote, backslash, CR, ...)."""
    n = rng.choice((1, 2, 3, 5, 8, 13, max_len))
    out: List[str] = []
    while sum(map(len, out)) < n:
        r = rng.random()
        if r < hostile * 0.5 and escapes:
            c = rng.choice(ESC_CUSTOM if custom else ESC_PLAIN)
            if c == '\n' and not newlines:
                c = ' '
            out.append(c)
        elif r < hostile * 0.8:
            out.append(rng.choice(PUNCT))
        elif r < hostile:
            out.append(rng.choice(CP1252))
        elif r < 0.6:
            out.append(rng.choice(WORDS))
        else:
            out.append(' ')
    s = ''.join(out)[:max_len]
    return s


LONG_KINDS = ('words', 'nospace', 'nospace_esc', 'dense_esc', 'newlines', 'words_esc', 'edge')


def long_text(rng: random.Random, custom: bool, kind: Optional[str] = None, escapes: bool = True) -> str:
    """900-3000 characters, shaped to exercise every branch of the '+' splitter (LIMIT = 1000 escaped chars)."""
    kind = kind or rng.choice(LONG_KINDS)
    n = rng.randint(900, 3000)
    esc = (ESC_CUSTOM if custom else ESC_PLAIN) if escapes else ''
    if kind == 'words':
        out = []
        while sum(len(w) + 1 for w in out) < n:
            out.append(rng.choice(WORDS))
        return ' '.join(out)[:n]
    if kind == 'nospace' or not esc:
        return ''.join(rng.choice(IDENT_REST + '.,;-') for _ in range(n))
    if kind == 'nospace_esc':
        p = rng.choice((0.02, 0.1, 0.3))
        return ''.join(rng.choice(esc.replace('\n', '') or esc) if rng.random() < p else rng.choice(IDENT_REST)
                       for _ in range(n))
    if kind == 'dense_esc':
        # runs of characters that each escape to two, behind a short random prefix: the cut at 1000 then falls
        # inside an escape for about half of the prefixes
        pool = esc.replace('\n', '') if custom else '\t'
        c = rng.choice(pool)
        return ident(rng, 0, 5)[:rng.randint(0, 5)] + c * rng.randint(500, 1500) + ident(rng, 1, 20)
    if kind == 'newlines':
        out = []
        while sum(len(w) + 1 for w in out) < n:
            out.append(rng.choice(WORDS) if rng.random() < 0.9 else '\n')
        sep = rng.choice((' ', ''))
        return sep.join(out)[:n]
    if kind == 'words_esc':
        out = []
        while sum(len(w) + 1 for w in out) < n:
            out.append(rng.choice(WORDS) if rng.random() < 0.8 else rng.choice(esc))
        return ' '.join(out)[:n]
    # 'edge': lengths right around the limit, a newline early (inside the first 128) or right at the cut
    base = rng.choice((998, 999, 1000, 1001, 1002, 1999, 2000, 2001))
    body = ['a'] * base
    if rng.random() < 0.5:
        body[rng.randrange(0, 120)] = '\n'
    if rng.random() < 0.5 and esc:
        pos = rng.choice((997, 998, 999)) if base > 999 else base - 1
        body[pos] = rng.choice(esc)
    if rng.random() < 0.3:
        body[rng.randrange(len(body))] = ' '
    return ''.join(body)


def any_text(rng: random.Random, custom: bool, p_empty: float = 0.25, p_long: float = 0.04, **kw: Any) -> str:
    r = rng.random()
    if r < p_empty:
        return ''
    if r < p_empty + p_long:
        return long_text(rng, custom, escapes=kw.get('escapes', True))
    return short_text(rng, custom, **kw)


def gen_tags(rng: random.Random, nonempty: bool = False) -> frozenset:
    if not nonempty and rng.random() < 0.5:
        return frozenset()
    names = rng.sample(TAG_NAMES, rng.randint(1, 3))
    return frozenset(rng.choice(('', '', '!', '+', '-')) + n for n in names)


# ------------------------------------------------------------------------------------------ definitions
def gen_default(rng: random.Random, vt: Any, custom: bool, hostile_defaults: bool) -> str:
    from srctools.fgd import ValueTypes
    if vt is ValueTypes.BOOL:
        return rng.choice('01')
    r = rng.random()
    if r < 0.3:
        return ''
    if r < 0.5:
        return rng.choice(('0', '1', '-1', '42', '255', '-', '1-2', '007'))
    if r < 0.6:
        return rng.choice(('0.5', '-3.25', '0 0 0', '255 255 255 200', '1e3', '0 90 0'))
    if r < 0.7:
        return pathlike(rng)
    if hostile_defaults and custom and r < 0.8:
        # needs escaping: a path with backslashes, a quoted word, a line break
        return rng.choice(('models\\props\\tree.mdl', 'say "hi"', 'a\\b', 'line1\nline2', 'tab\there', '\\', '"',
                           short_text(rng, True, 12, hostile=0.6)))
    # plain text: nothing that would need an escape
    return short_text(rng, False, 24, escapes=False)


def gen_spawnflags(rng: random.Random, custom: bool) -> list:
    bits = rng.sample(range(0, 32), rng.randint(0, 6))
    out = []
    for b in bits:
        name = any_text(rng, custom, p_empty=0.08, p_long=0.02, newlines=False).replace('\n', ' ').lstrip()
        # the reader strips a leading "[N]" label: a name may not begin with its own label
        if name.startswith('['):
            name = 'f' + name
        out.append((1 << b, name, rng.random() < 0.5, gen_tags(rng) if rng.random() < 0.3 else frozenset()))
    return out


def gen_choices(rng: random.Random, custom: bool, hostile_defaults: bool) -> list:
    out = []
    for _ in range(rng.randint(0, 6)):
        r = rng.random()
        if r < 0.5:
            value = str(rng.choice((0, 1, 2, 3, -1, 10, 255)))
        elif r < 0.65:
            value = rng.choice(('0.5', '-2.5', '1.0'))
        elif r < 0.7:
            value = ''
        elif r < 0.73:
            # strings that float() accepts but that are not plain decimals: they must be written quoted
            value = rng.choice(('+0', ' 255 ', '1e3', '1_0', 'nan', '.5', '5.', 'inf', '-', '0x10'))
        elif hostile_defaults and custom and r < 0.77:
            value = rng.choice(('a\\b', 'q"q', 'models\\x.mdl'))
        else:
            value = rng.choice((ident(rng), pathlike(rng), short_text(rng, False, 12, escapes=False)))
        # choice names: no newline (export documents replacing it); quotes/backslashes only where the syntax has escapes
        name = any_text(rng, custom, p_empty=0.08, p_long=0.02, newlines=False, escapes=custom and hostile_defaults).replace('\n', ' ')
        out.append((value, name, gen_tags(rng) if rng.random() < 0.3 else frozenset()))
    return out


def custom_type(rng: random.Random) -> str:
    """A value type name the library does not know (kept verbatim as a str type)."""
    return 'cust_' + ident(rng, 1, 8)


def gen_kv(rng: random.Random, name: str, vt: Any, custom: bool, opts: Dict[str, Any]) -> Any:
    from srctools.fgd import KVDef, ValueTypes
    hostile = opts.get('hostile_defaults', True)
    if rng.random() < 0.03:
        return KVDef(name, custom_type(rng), any_text(rng, custom), gen_default(rng, ValueTypes.STRING, custom, hostile),
                     any_text(rng, custom), None, rng.random() < 0.15, rng.random() < 0.15)
    if vt is ValueTypes.SPAWNFLAGS:
        # "Spawnflags never use names": no display name / default / description in the text format
        return KVDef(name, vt, rng.choice((name, '')), '', '', gen_spawnflags(rng, custom) if rng.random() < 0.95 else None,
                     rng.random() < 0.1, rng.random() < 0.1)
    disp = any_text(rng, custom, p_empty=opts.get('p_empty_disp', 0.2), p_long=0.03)
    default = gen_default(rng, vt, custom, hostile)
    desc = any_text(rng, custom, p_empty=0.35, p_long=0.06)
    val_list = None
    if vt is ValueTypes.CHOICES:
        val_list = gen_choices(rng, custom, hostile) if rng.random() < 0.95 else None
    return KVDef(name, vt, disp, default, desc, val_list, rng.random() < 0.15, rng.random() < 0.15)


def rand_color(rng: random.Random) -> Tuple[float, float, float]:
    return (float(rng.randint(0, 255)), float(rng.randint(0, 255)), float(rng.randint(0, 255)))


def rand_vec(rng: random.Random) -> Any:
    from srctools.math import Vec
    return Vec(*(rng.choice((-64, -16, -8, 0, 8, 16, 32.5, 64, 128)) for _ in range(3)))


def kname(rng: random.Random) -> str:
    """A keyvalue-name argument of a helper: never parses as a float ('inf', 'nan', '1e5')."""
    return 'k' + ident(rng, 1, 8)


def gen_helper(rng: random.Random, ht: Any, kv_names: List[str]) -> Any:
    """One helper of the given HelperTypes member, in the canonical argument shape its parser produces."""
    from srctools import fgd as F
    H = F.HelperTypes
    cls = F.HELPER_IMPL[ht]
    if ht in (H.CUBE, H.BBOX):
        return cls(rand_vec(rng), rand_vec(rng))
    if ht is H.TINT:
        return cls(*rand_color(rng))
    if ht is H.SPHERE:
        col = rand_color(rng) if rng.random() < 0.6 else (255.0, 255.0, 255.0)
        return cls(*col, rng.choice(('radius', kname(rng))))
    if ht is H.LINE:
        if rng.random() < 0.5:
            return cls(*rand_color(rng), kname(rng), kname(rng))
        return cls(*rand_color(rng), kname(rng), kname(rng), kname(rng), kname(rng))
    if ht is H.CYLINDER:
        shape = rng.choice((3, 4, 6, 7))
        a = [kname(rng) for _ in range(6)]
        col = rand_color(rng)
        if shape == 3:
            return cls(*col, a[0], a[1])
        if shape == 4:
            return cls(*col, a[0], a[1], None, None, a[2], None)
        if shape == 6:
            return cls(*col, a[0], a[1], a[3], a[4], a[2], None)
        return cls(*col, a[0], a[1], a[3], a[4], a[2], a[5])
    if ht is H.FRUSTUM:
        def num_or_key(vals):
            return rng.choice(vals) if rng.random() < 0.5 else kname(rng)
        color = rand_color(rng) if rng.random() < 0.5 else kname(rng)
        return cls(num_or_key((45.0, 90.0, 22.5)), num_or_key((1.0, 4.0)), num_or_key((512.0, 1024.0)), color,
                   rng.choice((-1.0, 1.0, 0.5)) if rng.random() < 0.7 else kname(rng))
    if ht in (H.ORIGIN, H.VECLINE, H.BRUSH_SIDES):
        return cls(rng.choice((cls._DEFAULT, kname(rng))))
    if ht in (H.BOUNDING_BOX_HELPER, H.ORIENTED_BBOX):
        return cls(kname(rng), kname(rng))
    if ht in (H.SPRITE, H.ENT_SPRITE):
        return cls(rng.choice((None, pathlike(rng), '')))
    if ht in (H.MODEL, H.MODEL_PROP, H.MODEL_NEG_PITCH):
        return cls(rng.choice((None, pathlike(rng))))
    if ht is H.ENT_LIGHT_CONE:
        r = rng.random()
        if r < 0.25:
            return cls('_inner_cone', '_cone', '_light', 1.0)
        if r < 0.5:
            return cls(kname(rng), '_cone', '_light', 1.0)
        if r < 0.75:
            return cls(kname(rng), kname(rng), kname(rng), 1.0)
        return cls(kname(rng), kname(rng), kname(rng), rng.choice((-1.0, 0.5, 2.0)))
    if ht is H.ENT_LIGHT_CONE_BLACK_MESA:
        return cls(kname(rng), kname(rng), kname(rng))
    if ht is H.ENT_ROPE:
        return cls(rng.choice((None, kname(rng))))
    if ht is H.EXT_APPLIES_TO:
        return cls([rng.choice(('', '!', '+', '-')) + t for t in rng.sample(TAG_NAMES, rng.randint(0, 3))])
    if ht is H.EXT_ORDERBY:
        return cls(rng.sample(kv_names, rng.randint(0, len(kv_names))))
    return cls()  # argument-less helpers


def helper_type_pool() -> list:
    from srctools import fgd as F
    H = F.HelperTypes
    # base() is represented by EntityDef.bases; autovis() is "only used in parsing" (it becomes @AutoVisgroup data,
    # never a helper object), so neither is generated as a helper.
    return [h for h in H if h not in (H.INHERIT, H.EXT_AUTO_VISGROUP)]


def gen_helpers(rng: random.Random, kv_names: List[str], cover: Optional[Any] = None) -> list:
    from srctools import fgd as F
    pool = helper_type_pool()
    known = {h.value for h in F.HelperTypes} | {'aliasof'}
    out = []
    n = rng.choice((0, 0, 1, 1, 2, 3, 5))
    kinds = [rng.choice(pool) for _ in range(n)]
    if cover is not None:
        kinds.append(cover)
    rng.shuffle(kinds)
    seen_order = False
    for ht in kinds:
        if ht is F.HelperTypes.EXT_ORDERBY:
            if seen_order:
                continue
            seen_order = True
        out.append(gen_helper(rng, ht, kv_names))
        if rng.random() < 0.1:
            nm = ident(rng, 3, 9).lower()
            if nm not in known:
                out.append(F.UnknownHelper(nm, [kname(rng) for _ in range(rng.randint(0, 3))]))
    return out


def gen_resources(rng: random.Random, text_ok: bool) -> Any:
    from srctools.fgd import Resource, RESTYPE_TO_NAME
    from srctools.const import FileType
    r = rng.random()
    if r < 0.4:
        return ()
    if r < 0.5:
        return []
    # @resources has a keyword only for these types (SOUNDSCRIPT and PARTICLE_FILE have no FGD spelling)
    types = sorted(RESTYPE_TO_NAME, key=lambda t: t.name) if text_ok else sorted(set(FileType), key=lambda t: t.name)
    out = []
    for _ in range(rng.randint(1, 5)):
        fname = rng.choice((pathlike(rng), ident(rng) + '.' + ident(rng), short_text(rng, True, 16, newlines=False)))
        out.append(Resource(fname, rng.choice(types), gen_tags(rng) if rng.random() < 0.3 else frozenset()))
    return out


def gen_io(rng: random.Random, name: str, custom: bool, vt: Any) -> Any:
    from srctools.fgd import IODef
    if rng.random() < 0.03:
        vt = custom_type(rng)
    return IODef(name, vt, any_text(rng, custom, p_empty=0.4, p_long=0.03))


def gen_text_fgd(rng: random.Random, custom: bool, index: int, opts: Optional[Dict[str, Any]] = None) -> Any:
    """An FGD for the text round trip.  `index` rotates the value/helper/entity type that is force-covered."""
    from srctools import fgd as F
    opts = opts or {}
    vts = list(F.ValueTypes)
    hts = helper_type_pool()
    ets = list(F.EntityTypes)
    fgd = F.FGD()
    used_cls: set = set()
    ents: list = []
    n_ents = rng.choice((1, 1, 2, 3, 4, 6))
    for ei in range(n_ents):
        cname = uniq_ident(rng, used_cls, 2, 14)
        etype = ets[(index + ei) % len(ets)] if rng.random() < 0.5 else rng.choice(ets)
        ent = F.EntityDef(etype, cname)
        ent.desc = any_text(rng, custom, p_empty=0.4, p_long=0.08)
        # bases: only earlier entities (no loops), no duplicates
        if ents and rng.random() < 0.5:
            ent.bases = rng.sample(ents, rng.randint(1, min(3, len(ents))))
            if len(ent.bases) == 1 and rng.random() < 0.3:
                ent.is_alias = True
        used_kv: set = set()
        n_kv = rng.choice((0, 1, 2, 3, 5, 8))
        names = []
        for ki in range(n_kv):
            name = uniq_ident(rng, used_kv, 1, 12, RESERVED_KV_NAMES)
            names.append(name)
            vt = vts[(index * 7 + ei * 3 + ki) % len(vts)] if rng.random() < 0.6 else rng.choice(vts)
            variants: Dict[frozenset, Any] = {}
            # tagged duplicates of one key only exist in the extended syntax (classic export would write
            # indistinguishable copies, which cannot re-parse to the same thing)
            n_var = rng.choice((1, 1, 1, 2, 3)) if custom else 1
            for vi in range(n_var):
                tags = gen_tags(rng, nonempty=(n_var > 1 and vi > 0))
                if tags in variants:
                    continue
                vtt = vt if vi == 0 or rng.random() < 0.7 else rng.choice(vts)
                variants[tags] = gen_kv(rng, name, vtt, custom, opts)
            ent.keyvalues[name.casefold()] = variants
        order = [n.casefold() for n in names]
        r = rng.random()
        if r < 0.6:
            ent.kv_order = list(order)
        elif r < 0.85:
            rng.shuffle(order)
            ent.kv_order = order[:rng.randint(0, len(order))]
        # else: empty kv_order -> dict order
        for attr, n_io in (('inputs', rng.choice((0, 1, 2, 4))), ('outputs', rng.choice((0, 1, 2, 4)))):
            used_io: set = set()
            for ii in range(n_io):
                name = uniq_ident(rng, used_io, 1, 14)
                vt = vts[(index + ei + ii) % len(vts)] if rng.random() < 0.5 else rng.choice(vts)
                variants = {}
                for vi in range(rng.choice((1, 1, 1, 2)) if custom else 1):
                    tags = gen_tags(rng, nonempty=vi > 0)
                    if tags in variants:
                        continue
                    variants[tags] = gen_io(rng, name, custom, vt)
                getattr(ent, attr)[name.casefold()] = variants
        if rng.random() < 0.7:
            cover = hts[(index + ei) % len(hts)] if rng.random() < 0.6 else None
            ent.helpers = gen_helpers(rng, [n.casefold() for n in names], cover)
        ent.resources = gen_resources(rng, text_ok=True)
        fgd.entities[cname.casefold()] = ent
        ents.append(ent)
    # FGD-level sections that FGD.export() writes in front of the entities (part of the text whose second export must
    # reproduce the first).  RULE: their strings are written without escaping, so plain words/paths only; the visgroup
    # tree is complete (every parent is 'Auto' or another group) because export() itself adds missing parents.
    if rng.random() < 0.5:
        from pathlib import PurePosixPath
        if rng.random() < 0.6:
            fgd.map_size_min, fgd.map_size_max = rng.choice(((-16384, 16384), (-32768, 32768), (-1, 1), (0, 131072), (-4096, 65536)))
        for _ in range(rng.choice((0, 1, 3))):
            fgd.mat_exclusions.add(PurePosixPath(pathlike(rng)))
        if custom:
            for _ in range(rng.choice((0, 0, 1, 2))):
                tags = gen_tags(rng, nonempty=True)
                for _ in range(rng.choice((1, 2))):
                    fgd.tagged_mat_exclusions[tags].add(PurePosixPath(pathlike(rng)))
        groups: list = []
        used_vis: set = set()
        for _ in range(rng.choice((0, 1, 2, 4))):
            name = rng.choice(('Lights', 'World Details', 'NPCs', 'Tool Brushes', 'fx', 'Logic')) + rng.choice(('', ' 2', '_b'))
            if name.casefold() in used_vis or name.casefold() == 'auto':
                continue
            used_vis.add(name.casefold())
            parent = rng.choice(groups).name if groups and rng.random() < 0.5 else 'Auto'
            vis = F.AutoVisgroup(name, parent)
            for e in rng.sample(ents, rng.randint(0, len(ents))):
                vis.ents.add(e.classname)
            fgd.auto_visgroups[name.casefold()] = vis
            groups.append(vis)
    return fgd


def fgd_level(fgd: Any) -> dict:
    """Snapshot of the FGD-level sections (plain data)."""
    return {
        'map_size': [fgd.map_size_min, fgd.map_size_max],
        'mat_exclusions': sorted(str(p) for p in fgd.mat_exclusions),
        'tagged_mat_exclusions': sorted([sorted(tags), sorted(str(p) for p in paths)] for tags, paths in fgd.tagged_mat_exclusions.items() if paths),
        'auto_visgroups': sorted([key, vis.name, vis.parent or 'Auto', sorted(vis.ents)] for key, vis in fgd.auto_visgroups.items()),
    }


def gen_binary_fgd(rng: random.Random, index: int) -> Any:
    """An FGD in *engine format* (what serialise() documents): `_CBaseEntity_` present, every other entity based
    on it (aliases: on their target), no other base classes, nothing tagged except resources, no CHOICES
    keyvalues, >= 512 distinct strings overall, <= 255 members per entity."""
    from srctools import fgd as F
    vts = [v for v in F.ValueTypes if v is not F.ValueTypes.CHOICES]
    ets = [e for e in F.EntityTypes if e is not F.EntityTypes.BASE]
    fgd = F.FGD()
    used_cls = {'_cbaseentity_'}

    def fill(ent: Any, n_kv: int, n_in: int, n_out: int) -> None:
        used: set = set()
        for ki in range(n_kv):
            name = uniq_ident(rng, used, 2, 14)
            vt = vts[(index + ki) % len(vts)] if rng.random() < 0.5 else rng.choice(vts)
            if vt is F.ValueTypes.SPAWNFLAGS:
                flags = [(1 << b, short_text(rng, True, 30).replace('\x1f', ''), rng.random() < 0.5, frozenset())
                         for b in rng.sample(range(0, 32), rng.randint(0, 8))]
                kv = F.KVDef(name, vt, rng.choice((name, '', short_text(rng, True, 20))), '', '', flags,
                             rng.random() < 0.2, False)
            else:
                kv = F.KVDef(name, vt, any_text(rng, True, p_empty=0.15, p_long=0.01),
                             gen_default(rng, vt, True, True) if vt is not F.ValueTypes.BOOL else rng.choice(('0', '1', '')),
                             '', None, rng.random() < 0.2, False)
            ent.keyvalues[name.casefold()] = {frozenset(): kv}
        for attr, cnt in (('inputs', n_in), ('outputs', n_out)):
            used = set()
            for ii in range(cnt):
                name = uniq_ident(rng, used, 2, 16)
                getattr(ent, attr)[name.casefold()] = {frozenset(): F.IODef(name, rng.choice(list(F.ValueTypes)), '')}

    cbase = F.EntityDef(F.EntityTypes.BASE, '_CBaseEntity_')
    fill(cbase, rng.randint(5, 40), rng.randint(3, 20), rng.randint(3, 20))
    cbase.resources = gen_resources(rng, text_ok=False)
    fgd.entities['_cbaseentity_'] = cbase
    plain = []
    for ei in range(rng.randint(60, 110)):
        cname = uniq_ident(rng, used_cls, 3, 16)
        ent = F.EntityDef(ets[(index + ei) % len(ets)], cname)
        if plain and rng.random() < 0.08:
            ent.bases = [rng.choice(plain)]
            ent.is_alias = True
        else:
            ent.bases = [cbase]
            plain.append(ent)
        fill(ent, rng.choice((0, 1, 3, 6, 12, 20)), rng.choice((0, 1, 3, 8)), rng.choice((0, 1, 3, 8)))
        ent.resources = gen_resources(rng, text_ok=False)
        fgd.entities[cname.casefold()] = ent
    return fgd


# ------------------------------------------------------------------------------------------ snapshots
def _vt(t: Any) -> str:
    return t.name if not isinstance(t, str) else 'custom:' + t


def _plain(v: Any) -> Any:
    """Helper attribute -> JSON-able canonical value (floats stay floats so 1 vs 1.0 does not matter)."""
    from srctools.math import Vec
    if isinstance(v, Vec):
        return ['Vec', float(v.x), float(v.y), float(v.z)]
    if isinstance(v, bool) or v is None or isinstance(v, str):
        return v
    if isinstance(v, (int, float)):
        return float(v)
    if isinstance(v, (list, tuple)):
        return [_plain(x) for x in v]
    return repr(v)


def snap_helper(h: Any) -> list:
    return [type(h).__name__, h.TYPE.name if h.TYPE is not None else None,
            {k: _plain(v) for k, v in sorted(vars(h).items())}]


def snap_kv(kv: Any) -> dict:
    vl = kv.val_list
    if vl is not None:
        vl = [[_plain(x) if not isinstance(x, frozenset) else sorted(x) for x in item] for item in vl]
    elif _vt(kv._type) in ('CHOICES', 'SPAWNFLAGS'):
        vl = []   # 'if None, an empty list' (choices_list/flags_list); KVDef.copy() turns [] into None
    return {'name': kv.name, 'type': _vt(kv._type), 'disp_name': kv.disp_name, 'default': kv.default,
            'desc': kv.desc, 'val_list': vl, 'readonly': bool(kv.readonly), 'reportable': bool(kv.reportable)}


def snap_io(io: Any) -> dict:
    return {'name': io.name, 'type': _vt(io._type), 'desc': io.desc}


def effective_kv_order(ent: Any) -> List[str]:
    """Keyvalue names in the order the definition presents them: orderby() helper if present, else kv_order,
    unlisted names last in dictionary order."""
    listed: List[str] = []
    for h in ent.helpers:
        if type(h).__name__ == 'HelperExtOrderBy':
            listed += [a.casefold() for a in h.order]
    if not listed:
        listed = list(ent.kv_order)
    pos = {name: i for i, name in enumerate(listed)}
    names = list(ent.keyvalues)
    return sorted(names, key=lambda n: pos.get(n, 1 << 64))


def snap_ent(ent: Any) -> dict:
    return {
        'classname': ent.classname,
        'type': ent.type.name,
        'is_alias': bool(ent.is_alias),
        'bases': [b if isinstance(b, str) else b.classname for b in ent.bases],
        'bases_resolved': all(not isinstance(b, str) for b in ent.bases),
        'helpers': [snap_helper(h) for h in ent.helpers],
        'desc': ent.desc,
        'kv': [[name, [[sorted(tags), snap_kv(kv)] for tags, kv in ent.keyvalues[name].items()]]
               for name in effective_kv_order(ent)],
        'inputs': [[name, [[sorted(tags), snap_io(io)] for tags, io in m.items()]] for name, m in ent.inputs.items()],
        'outputs': [[name, [[sorted(tags), snap_io(io)] for tags, io in m.items()]] for name, m in ent.outputs.items()],
        'resources': None if isinstance(ent.resources, tuple) and not ent.resources else
        [[r.filename, r.type.name, sorted(r.tags)] for r in ent.resources],
    }


def snap_fgd(fgd: Any) -> Dict[str, dict]:
    return {key: snap_ent(ent) for key, ent in fgd.entities.items()}


EXT_HELPERS = ('HelperExtAppliesTo', 'HelperExtOrderBy', 'HelperExtAutoVisgroups')


def model_text(snap: dict, custom: bool) -> dict:
    """What the text format documents it will give back for this definition.

    * I/O types decay to the types valid for I/O (VALUE_TO_IO_DECAY; BOOL is spelled 'bool').
    * BOOL keyvalues always get a default ('0' when empty).
    * SPAWNFLAGS keyvalues carry no display name/default/description: the reader sets display name = key name.
    * CHOICES/SPAWNFLAGS without a list read back as an empty list; newlines in their names become spaces.
    * custom_syntax=False drops tags, @resources, extension helpers and the alias marker (all are extensions).
    """
    from srctools.fgd import VALUE_TO_IO_DECAY, ValueTypes
    out = dict(snap)
    out['bases_resolved'] = True
    if not custom:
        out['helpers'] = [h for h in snap['helpers'] if h[0] not in EXT_HELPERS]
        out['resources'] = None
        out['is_alias'] = False
    kvs = []
    for name, variants in snap['kv']:
        new_vars = []
        for tags, kv in variants:
            kv = dict(kv)
            if kv['type'] == 'BOOL' and not kv['default']:
                kv['default'] = '0'
            if kv['type'] == 'SPAWNFLAGS':
                kv['disp_name'] = kv['name']
                kv['default'] = kv['desc'] = ''
            if kv['type'] in ('SPAWNFLAGS', 'CHOICES'):
                vl = [list(item) for item in (kv['val_list'] or [])]
                for item in vl:
                    item[1] = item[1].replace('\n', ' ')
                    if not custom:
                        item[-1] = []
                kv['val_list'] = vl
            new_vars.append([tags if custom else [], kv])
        kvs.append([name, new_vars])
    out['kv'] = kvs
    for attr in ('inputs', 'outputs'):
        ios = []
        for name, variants in snap[attr]:
            new_vars = []
            for tags, io in variants:
                io = dict(io)
                if not io['type'].startswith('custom:'):
                    io['type'] = VALUE_TO_IO_DECAY[ValueTypes[io['type']]].name
                new_vars.append([tags if custom else [], io])
            ios.append([name, new_vars])
        out[attr] = ios
    return out


def model_binary(snap: dict) -> dict:
    """What the binary database documents it stores: no descriptions, no helpers, no key order list (dictionary
    order is kept), no `reportable`; spawnflags keep no default value."""
    out = dict(snap)
    out['helpers'] = []
    out['desc'] = ''
    out['bases_resolved'] = True
    if not snap['resources']:
        out['resources'] = None   # "if empty, store a tuple that can be shared": explicit-empty is not stored
    kvs = []
    for name, variants in snap['kv']:
        new_vars = []
        for tags, kv in variants:
            kv = dict(kv)
            kv['desc'] = ''
            kv['reportable'] = False
            if kv['type'] == 'SPAWNFLAGS':
                kv['default'] = ''
                kv['val_list'] = kv['val_list'] or []
            new_vars.append([tags, kv])
        kvs.append([name, new_vars])
    out['kv'] = kvs
    for attr in ('inputs', 'outputs'):
        out[attr] = [[name, [[tags, dict(io, desc='')] for tags, io in variants]] for name, variants in snap[attr]]
    return out


def first_diff(a: Any, b: Any, path: str = '', skip: Any = None) -> Optional[Tuple[str, Any, Any]]:
    """First structural difference (path, expected, got), or None.

    `skip(path, expected, got)` may declare a differing leaf as not carried by the format (returns True)."""
    if type(a) is not type(b) and not (isinstance(a, (int, float)) and isinstance(b, (int, float))
                                       and not isinstance(a, bool) and not isinstance(b, bool)):
        return (path, a, b)
    if isinstance(a, dict):
        for k in a:
            if k not in b:
                return (f'{path}.{k}', a[k], '<missing>')
            d = first_diff(a[k], b[k], f'{path}.{k}', skip)
            if d:
                return d
        for k in b:
            if k not in a:
                return (f'{path}.{k}', '<missing>', b[k])
        return None
    if isinstance(a, list):
        for i, (x, y) in enumerate(zip(a, b)):
            label = f'{path}[{i}]'
            if isinstance(x, list) and x and isinstance(x[0], str) and len(x) == 2 and isinstance(x[1], list):
                label = f'{path}[{x[0]}]'
            d = first_diff(x, y, label, skip)
            if d:
                return d
        if len(a) != len(b):
            return (f'{path}.len', len(a), len(b))
        return None
    if a == b:
        return None
    if skip is not None and skip(path, a, b):
        return None
    return (path, a, b)


CLASSIC_UNCARRIED = '"\\\r'


def classic_skip(counter: Optional[Dict[str, int]] = None) -> Any:
    """custom_syntax=False: the classic escaping only knows \\n and turns a quote into two apostrophes, so a string
    holding a quote, a backslash or a CR is documented not to survive (only such leaves are excused)."""
    def skip(path: str, want: Any, got: Any) -> bool:
        if isinstance(want, str) and isinstance(got, str) and any(c in want for c in CLASSIC_UNCARRIED):
            if counter is not None:
                counter['n'] = counter.get('n', 0) + 1
            return True
        return False
    return skip


def is_nontrivial(snap: dict) -> bool:
    for _, variants in snap['kv']:
        for _, kv in variants:
            if kv['default'] or kv['desc'] or kv['val_list']:
                return True
    return False
