"""Seeded generator of VMF maps built through the public API only, and a field-by-field describer/differ.

Used by C06 (round trip), C08 (IDs), C09 (copies) and C17 (instance files).
Generator restrictions (each is something the VMF text format cannot carry; see DESIGN.md 4.1):
  * KV keys (entity keys, output names, fixup variable names) contain no CR/LF; an entity key called "id" never has a
    value made of digits (the reader takes that for the entity's ID) and keys never look like replaceNN; fixup variable names have no whitespace and no leading '$'.
  * output fields never contain ESC (0x1b); with comma separators only `params` may contain commas.
  * instance names contain no ';'; output/input names only start with "instance:" when inst_out/inst_in is set.
  * logical_pos keeps its "[x y]" shape; cordon_enabled only with a cordon; active_cam only with a camera.
  * Strata viewports are None or exactly four; a 2D viewport's u/v are never 0-or-+-65536 markers of another axis
    beyond plain 0 (the single position vector cannot say which axis a second +-65536 belongs to).
  * multiblend data is generated either for no vertex at all or with at least one non-zero multi_blend value
    (export documents omitting the blocks when every blend is zero).
"""
from __future__ import annotations

import math
from typing import Any, Dict, List, Optional, Tuple

from .util import rand_text

IDENT = 'abcdefghijklmnopqrstuvwxyzABCDEFXYZ_0123456789'


def ident(rng, lo=1, hi=8) -> str:
    return ''.join(rng.choice(IDENT[:32] if i == 0 else IDENT) for i in range(rng.randint(lo, hi)))


def hostile(rng, max_len=10, newlines=True, p=0.35) -> str:
    """A string field: mostly plain, sometimes with quotes/backslashes/newlines/structure characters."""
    if rng.random() > p:
        return ident(rng, 0, max_len)
    return rand_text(rng, max_len, allow_newlines=newlines, hostile=0.7).replace('\x1b', '?')


def coord(rng) -> float:
    r = rng.random()
    if r < 0.35:
        return float(rng.randrange(-4096, 4097, 16))
    if r < 0.7:
        return rng.uniform(-4096, 4096)
    if r < 0.8:
        return rng.choice((0.0, 1e-7, -1e-7, 5e-7, 0.0000004, 123456.789012, -0.5, 0.1, 1 / 3, 16384.0, 2.5e-5))
    if r < 0.85:
        return rng.choice((-1e-9, -4e-7, -1e-12))  # exposes the '-0' text form (known finding C05/C06)
    return round(rng.uniform(-512, 512), rng.randint(0, 7))


def gfloat(rng) -> float:
    """A value for fields written with :g (six significant digits)."""
    return rng.choice((0.0, 1.0, 0.5, 90.0, -45.0, 0.125, 1e-5, 123456.0, 1234567.0, 0.333333333, 2.5, 1e7,
                       rng.uniform(-360, 360), rng.uniform(0, 10), float(rng.randrange(0, 100))))


def vec(rng):
    from srctools.math import Vec
    return Vec(coord(rng), coord(rng), coord(rng))


def color(rng):
    from srctools.math import Vec
    return Vec(rng.randrange(256), rng.randrange(256), rng.randrange(256))


def gen_output(rng, comma: Optional[bool] = None):
    from srctools.vmf import Output
    comma_sep = rng.random() < 0.4 if comma is None else comma

    def field(allow_comma: bool, newlines: bool = False) -> str:
        s = hostile(rng, 10, newlines=newlines, p=0.3).replace('\x1b', '')
        if comma_sep and not allow_comma:
            s = s.replace(',', '.')
        return s

    out_name = field(False).replace('\r', '').replace('\n', '') or 'OnTrigger'
    inp = field(False) or 'Trigger'
    inst_out = inst_in = None
    if out_name.casefold().startswith('instance:'):
        out_name = 'x' + out_name
    if inp.casefold().startswith('instance:'):
        inp = 'x' + inp
    if rng.random() < 0.15:
        inst_out = (field(False).replace(';', '').replace('\r', '').replace('\n', '')) or 'rl'
    if rng.random() < 0.15:
        inst_in = field(False).replace(';', '') or 'br'
    return Output(
        out_name, field(False), inp, field(True, newlines=True),
        delay=gfloat(rng) if rng.random() < 0.5 else 0.0,
        times=rng.choice((-1, -1, 1, 3)), inst_out=inst_out, inst_in=inst_in, comma_sep=comma_sep,
    )


def gen_side(rng, vmf, features: Dict[str, int], mat: Optional[str] = None, disp_ok: bool = True):
    from srctools.vmf import Side, UVAxis, DispFlag, TriangleTag, Vec4
    from srctools.math import Vec
    from array import array
    power = 0
    if disp_ok and rng.random() < 0.2:
        power = rng.choice((1, 1, 2, 2, 3, 4))
    pts = [vec(rng), vec(rng), vec(rng)]
    if rng.random() < 0.1:
        pts = [tuple(p) for p in pts]    # "a list of 3 Vecs or 3-tuples"
    side = Side(
        vmf, pts,
        lightmap=rng.choice((16, 1, 4, 128)), smoothing=rng.choice((0, 1, 5, 2 ** 20)),
        mat=mat if mat is not None else rng.choice(('tools/toolsnodraw', 'brick/brickwall001a', hostile(rng, 12, newlines=False, p=0.6))),
        rotation=gfloat(rng),
        uaxis=UVAxis(coord(rng) / 4096, coord(rng) / 4096, rng.uniform(-1, 1), coord(rng), rng.choice((0.25, 1.0, 0.125, rng.uniform(0.01, 4)))),
        vaxis=UVAxis(rng.uniform(-1, 1), rng.uniform(-1, 1), rng.uniform(-1, 1), rng.uniform(-1024, 1024), rng.choice((0.25, rng.uniform(0.01, 4)))),
        disp_power=power,  # type: ignore
    )
    if rng.random() < 0.15:
        side.strata_points = [vec(rng) for _ in range(rng.choice((0, 1, 3, 4, 6, 12)))]   # none, one, and more than ten (two-digit keys)
        features['strata_points'] = features.get('strata_points', 0) + 1
    if power:
        features['displacement'] = features.get('displacement', 0) + 1
        side.disp_pos = vec(rng)
        side.disp_elevation = rng.choice((0.0, 1.0, rng.uniform(-64, 64)))
        # named members and every other combination of the four bits (collision subsets with and without SUBDIV)
        side.disp_flags = rng.choice(list(DispFlag.__members__.values())) if rng.random() < 0.5 else DispFlag(rng.randrange(16))
        if rng.random() < 0.6:
            side.disp_allowed_vert = array('i', [rng.choice((-1, 0, 1, 2 ** 31 - 1, -2 ** 31, rng.randrange(-99999, 99999))) for _ in range(10)])
        size = side.disp_size
        multiblend = rng.random() < 0.4
        if multiblend:
            features['multiblend'] = features.get('multiblend', 0) + 1
        for y in range(size):
            for x in range(size):
                v = side[x, y]
                if rng.random() < 0.7:
                    v.normal = Vec(rng.uniform(-1, 1), rng.uniform(-1, 1), rng.uniform(-1, 1))
                    v.distance = rng.choice((0.0, rng.uniform(-128, 128), 1e-5, 12345.678901234))
                    v.offset = vec(rng)
                    v.offset_norm = Vec(rng.uniform(-1, 1), rng.uniform(-1, 1), 1.0)
                    v.alpha = rng.choice((0.0, 255.0, rng.uniform(0, 255)))
                    v.triangle_a = rng.choice((TriangleTag.STEEP, TriangleTag.WALKABLE, TriangleTag.BUILDABLE))
                    v.triangle_b = rng.choice((TriangleTag.STEEP, TriangleTag.WALKABLE, TriangleTag.BUILDABLE))
                if multiblend:
                    v.multi_blend = Vec4(gfloat(rng), rng.random(), rng.random(), 1.0 if (x, y) == (0, 0) else rng.random())
                    v.multi_alpha = Vec4(rng.random(), gfloat(rng), 0.0, 1.0)
                    if rng.random() < 0.8:
                        v.multi_colors = [Vec(rng.random(), rng.random(), rng.random()) for _ in range(4)]
    return side


def gen_solid(rng, vmf, features, disp_ok=True):
    from srctools.vmf import Solid
    from srctools.math import Vec
    if rng.random() < 0.5:
        a = Vec(rng.randrange(-1024, 1024), rng.randrange(-1024, 1024), rng.randrange(-1024, 1024))
        b = a + Vec(rng.randrange(1, 512), rng.randrange(1, 512), rng.randrange(1, 512))
        solid = vmf.make_prism(a, b, mat=rng.choice(('tools/toolsnodraw', 'dev/dev_measuregeneric01')),
                               set_points=rng.random() < 0.3).solid
        if disp_ok and rng.random() < 0.3:
            # turn one face into a displacement through the public constructor
            solid.sides[0] = gen_side(rng, vmf, features, disp_ok=True)
    else:
        solid = Solid(vmf, sides=[gen_side(rng, vmf, features, disp_ok=disp_ok) for _ in range(rng.randint(1, 6))])
    if rng.random() < 0.3:
        solid.editor_color = color(rng)
    solid.hidden = rng.random() < 0.15
    if solid.hidden:
        features['hidden_solid'] = features.get('hidden_solid', 0) + 1
    solid.vis_shown = rng.random() < 0.8
    solid.vis_auto_shown = rng.random() < 0.8
    solid.is_cordon = rng.random() < 0.1
    return solid


def gen_entity(rng, vmf, features, vis_ids: List[int], group_ids: List[int], brush: bool = False,
               names: Optional[List[str]] = None):
    from srctools.vmf import Entity, FixupValue
    keys: Dict[str, Any] = {}
    for _ in range(rng.randint(0, 6)):
        # (the second row: keys that are spelled like the BLOCKS of an entity - "solid" "6" is what every prop_static carries)
        k = rng.choice(('origin', 'angles', 'model', 'message', 'spawnflags', 'file', 'replace_mode', 'ReplaceWith', 'replace', ident(rng), hostile(rng, 8, newlines=False, p=0.5),
                        'solid', 'editor', 'connections', 'hidden', 'group', 'side', 'world', 'entity', 'Solid', 'id', 'ID'))
        k = k.replace('\r', '').replace('\n', '') or 'k'
        if k.casefold() == 'id' and not any(o.casefold() == 'id' for o in keys):
            # a keyvalue that happens to be called "id": only a value made of digits is taken for the entity's ID by the
            # reader, every other value is an ordinary keyvalue of the entity
            keys[k] = rng.choice(('-5', '+7', ' 12', '3 ', '1_000', '-0', 'abc', '', '12a', '0x10', '1.0', '\u00b2', '\u00bd', '1e3'))
            features['key_named_id'] = features.get('key_named_id', 0) + 1
            continue
        if k.casefold() == 'id' or (k.casefold().startswith('replace') and k[-2:].isdigit()) or k.casefold() in ('classname', 'targetname', 'nodeid'):
            k = 'key_' + k
        keys[k] = rng.choice((hostile(rng, 14), str(coord(rng)), vec(rng), rng.random() < 0.5, rng.randrange(100), coord(rng)))
    cls = rng.choice(('info_target', 'func_brush' if brush else 'logic_relay', 'func_instance', 'prop_static', 'Mixed_Case', hostile(rng, 8, newlines=False, p=0.4) or 'x'))
    keys['classname'] = cls
    if rng.random() < 0.6:
        keys['targetname'] = (rng.choice(names) if names and rng.random() < 0.5 else hostile(rng, 8, p=0.3))
    if rng.random() < 0.1:
        keys['nodeid'] = str(rng.randrange(1, 30))
    fix = []
    used = set()
    # the exporter writes replaceNN with at least two digits: 100 and more fixups (or explicit three-digit indexes) need three
    many = rng.random() < 0.03
    for _ in range(rng.randint(98, 112) if many else rng.choice((0, 0, 0, 1, 3, 6))):
        var = (ident(rng) if rng.random() < 0.8 else hostile(rng, 6, newlines=False, p=1.0).replace(' ', '_').replace('\t', '_').lstrip('$').replace('\x0b', '_').replace('\x0c', '_')) or 'v'
        var = ''.join(c for c in var if not c.isspace()).lstrip('$') or 'v'
        if var.casefold() in used:
            continue
        used.add(var.casefold())
        fix.append(FixupValue(var, hostile(rng, 10), len(fix) + 1 if many else rng.choice((len(fix) + 1, len(fix) + 1, 1, 7, 100, 250))))
    if fix:
        features['fixup'] = features.get('fixup', 0) + 1
    if any(f.id >= 100 for f in fix):
        features['fixup_index_3_digits'] = features.get('fixup_index_3_digits', 0) + 1
    outs = [gen_output(rng) for _ in range(rng.choice((0, 0, 1, 2, 4)))]
    if outs:
        features['output'] = features.get('output', 0) + 1
    solids = [gen_solid(rng, vmf, features) for _ in range(rng.randint(1, 3))] if brush else []
    if solids:
        features['brush'] = features.get('brush', 0) + 1
    ent = Entity(
        vmf, keys=keys, fixup=fix, outputs=outs, solids=solids, hidden=rng.random() < 0.2,
        groups=rng.sample(group_ids, rng.randint(0, min(3, len(group_ids)))) if group_ids else (),
        vis_ids=rng.sample(vis_ids, rng.randint(0, min(3, len(vis_ids)))) if vis_ids else (),
        vis_shown=rng.random() < 0.8, vis_auto_shown=rng.random() < 0.8,
        logical_pos=f'[{rng.randrange(0, 5000)} {rng.randrange(0, 5000)}]' if rng.random() < 0.5 else None,
        editor_color=(rng.randrange(256), rng.randrange(256), rng.randrange(256)),
        comments=hostile(rng, 20, p=0.5) if rng.random() < 0.3 else '',
    )
    if ent.hidden:
        features['hidden_ent'] = features.get('hidden_ent', 0) + 1
    return ent


def gen_map(rng, size: str = 'normal', strata: bool = True) -> Tuple[Any, Dict[str, int]]:
    """Build a VMF; returns (vmf, feature histogram)."""
    from srctools.vmf import (VMF, VisGroup, EntityGroup, Camera, Cordon, Strata2DViewport, Strata3DViewport,
                              StrataInstanceVisibility)
    from srctools.math import Vec, Angle
    features: Dict[str, int] = {}
    vmf = VMF(
        map_version=rng.randrange(0, 500), hammer_version=rng.choice((400, 308)), hammer_build=rng.randrange(1000, 9999),
        is_prefab=rng.random() < 0.2, show_grid=rng.random() < 0.5, show_3d_grid=rng.random() < 0.5,
        snap_grid=rng.random() < 0.5, show_logic_grid=rng.random() < 0.5, grid_spacing=rng.choice((1, 16, 64, 512)),
        quickhide_count=rng.choice((0, 0, 3)),
        strata_inst_visibility=rng.choice((None, *StrataInstanceVisibility)) if strata else None,
    )
    # visgroups (nested)
    vis_ids: List[int] = []

    def mk_vis(depth: int):
        # desired IDs that collide in a small hash table (3, 11, 19 ...) make set iteration order history-dependent
        vg = VisGroup(vmf, hostile(rng, 10, p=0.4), rng.choice((-1, -1, 3, 11, 19, 27, 8, 16)), color=color(rng))
        vis_ids.append(vg.id)
        if depth < 2:
            for _ in range(rng.choice((0, 0, 1, 2))):
                vg.child_groups.append(mk_vis(depth + 1))
        return vg
    for _ in range(rng.choice((0, 1, 2))):
        vmf.vis_tree.append(mk_vis(0))
        features['visgroup'] = features.get('visgroup', 0) + 1
    group_ids: List[int] = []
    for _ in range(rng.choice((0, 0, 1, 3))):
        grp = EntityGroup(vmf, rng.choice((-1, -1, 5, 13, 21, 8, 16)), shown=rng.random() < 0.7, auto_shown=rng.random() < 0.7, color=color(rng))
        vmf.groups[grp.id] = grp
        group_ids.append(grp.id)
        features['group'] = features.get('group', 0) + 1
    for _ in range(rng.choice((0, 0, 1, 3))):
        Camera(vmf, vec(rng), vec(rng))
        features['camera'] = features.get('camera', 0) + 1
    if vmf.cameras and rng.random() < 0.7:
        vmf.active_cam = rng.randrange(1, len(vmf.cameras) + 1)
    for _ in range(rng.choice((0, 0, 1, 2))):
        Cordon(vmf, vec(rng), vec(rng), is_active=rng.random() < 0.5, name=hostile(rng, 10, p=0.5))
        features['cordon'] = features.get('cordon', 0) + 1
    if vmf.cordons:
        vmf.cordon_enabled = rng.random() < 0.5
    if strata and rng.random() < 0.35:
        views: List[Any] = []
        for i in range(4):
            if rng.random() < 0.3:
                views.append(Strata3DViewport(vec(rng), Angle(coord(rng), coord(rng), rng.choice((0.0, 0.0, 45.0, coord(rng))))))
            else:
                views.append(Strata2DViewport(rng.choice(('x', 'y', 'z')), rng.choice((0.0, 128.0, coord(rng))),
                                              rng.choice((0.0, -64.0, coord(rng))), rng.choice((1.0, 0.25, 4.0, rng.uniform(0.01, 16)))))
        vmf.strata_viewports = views
        features['strata_viewports'] = features.get('strata_viewports', 0) + 1
    # worldspawn keys + world brushes
    for _ in range(rng.randint(0, 3)):
        vmf.spawn[rng.choice(('skyname', 'detailmaterial', 'maxpropscreenwidth', ident(rng)))] = hostile(rng, 12)
    # worldspawn is an entity like any other: comments, editor colour and outputs apply to it too
    if rng.random() < 0.4:
        vmf.spawn.comments = hostile(rng, 16) or 'world note'
    if rng.random() < 0.3:
        from srctools.math import Vec as _Vec
        vmf.spawn.editor_color = _Vec(rng.randrange(256), rng.randrange(256), rng.randrange(256))
    if rng.random() < 0.25:
        for _ in range(rng.randint(1, 2)):
            vmf.spawn.add_out(gen_output(rng, None))
    if rng.random() < 0.15:
        vmf.spawn['targetname'] = hostile(rng, 8, p=0.3) or 'world'
    if rng.random() < 0.08:
        vmf.spawn.hidden = True   # a flag every entity has; the world block is written at the top level regardless
        features['hidden_worldspawn'] = 1
    if rng.random() < 0.1:
        vmf.spawn.fixup['worldvar'] = hostile(rng, 8)
    n_brush = {'small': rng.randint(0, 2), 'normal': rng.randint(0, 4), 'big': rng.randint(2, 10)}[size]
    for _ in range(n_brush):
        s = gen_solid(rng, vmf, features)
        if group_ids and rng.random() < 0.3:
            s.group_id = rng.choice(group_ids)
        if vis_ids and rng.random() < 0.3:
            s.visgroup_ids = set(rng.sample(vis_ids, rng.randint(1, min(3, len(vis_ids)))))
        vmf.add_brush(s)
        features['brush'] = features.get('brush', 0) + 1
    names = [hostile(rng, 8, p=0.2) or 'n' for _ in range(3)]
    n_ent = {'small': rng.randint(0, 3), 'normal': rng.randint(0, 6), 'big': rng.randint(3, 14)}[size]
    for _ in range(n_ent):
        ent = gen_entity(rng, vmf, features, vis_ids, group_ids, brush=rng.random() < 0.3, names=names)
        vmf.add_ent(ent)
    return vmf, features


# ---------------------------------------------------------------------------------------------------
# Describer: every observable field of a map as a nested structure of typed leaves.
#   ('s', str)   exact string         ('i', int/bool/None) exact
#   ('c', float) coordinate: |a-b| <= 5e-7 + 1e-12*|a|      ('g', float) six significant digits
#   ('a', float) angle component, circular 5e-7 (+3.6e-10 float slack)            ('x', float) exact float (written with repr)            ('id', kind, int) an ID (bijection per kind)
def V(v) -> list:
    return [('c', v.x), ('c', v.y), ('c', v.z)]


def describe_side(s) -> dict:
    d: Dict[str, Any] = {
        'id': ('id', 'face', s.id), 'planes': [V(p) for p in s.planes], 'mat': ('s', s.mat),
        'lightmap': ('i', s.lightmap), 'smooth': ('i', s.smooth), 'rotation': ('g', s.ham_rot),
        'uaxis': [('c', s.uaxis.x), ('c', s.uaxis.y), ('c', s.uaxis.z), ('c', s.uaxis.offset), ('c', s.uaxis.scale)],
        'vaxis': [('c', s.vaxis.x), ('c', s.vaxis.y), ('c', s.vaxis.z), ('c', s.vaxis.offset), ('c', s.vaxis.scale)],
        'strata_points': None if s.strata_points is None else [V(p) for p in s.strata_points],
        'disp_power': ('i', s.disp_power),
    }
    if s.disp_power:
        d['disp_pos'] = V(s.disp_pos)
        d['disp_elevation'] = ('x', s.disp_elevation)
        d['disp_flags'] = ('i', s.disp_flags.value)
        d['disp_allowed_vert'] = [('i', x) for x in s.disp_allowed_vert]
        size = s.disp_size
        verts = []
        for y in range(size):
            for x in range(size):
                v = s[x, y]
                vd = {'normal': V(v.normal), 'distance': ('x', float(v.distance)), 'offset': V(v.offset),
                      'offset_norm': V(v.offset_norm), 'alpha': ('x', float(v.alpha))}
                if x < size - 1 and y < size - 1:  # tags exist per quad only
                    vd['tri'] = [('i', v.triangle_a.value), ('i', v.triangle_b.value)]
                vd['multi_blend'] = [('g', t) for t in (v.multi_blend.x, v.multi_blend.y, v.multi_blend.z, v.multi_blend.w)]
                vd['multi_alpha'] = [('g', t) for t in (v.multi_alpha.x, v.multi_alpha.y, v.multi_alpha.z, v.multi_alpha.w)]
                vd['multi_colors'] = None if v.multi_colors is None else [V(c) for c in v.multi_colors]
                verts.append(vd)
        d['verts'] = verts
    return d


def describe_solid(s, in_world: bool) -> dict:
    return {
        'id': ('id', 'solid', s.id), 'sides': [describe_side(x) for x in s.sides],
        'visgroup_ids': sorted(('id', 'vis', v) for v in s.visgroup_ids),
        'hidden': ('i', s.hidden), 'group_id': None if s.group_id is None else ('id', 'group', s.group_id),
        'vis_shown': ('i', s.vis_shown), 'vis_auto_shown': ('i', s.vis_auto_shown), 'is_cordon': ('i', s.is_cordon),
        'editor_color': V(s.editor_color),
    }


def describe_output(o) -> dict:
    return {'output': ('s', o.output), 'inst_out': None if o.inst_out is None else ('s', o.inst_out), 'target': ('s', o.target),
            'input': ('s', o.input), 'inst_in': None if o.inst_in is None else ('s', o.inst_in), 'params': ('s', o.params),
            'delay': ('g', o.delay), 'times': ('i', o.times), 'comma_sep': ('i', o.comma_sep)}


def describe_entity(e, is_world: bool = False) -> dict:
    d = {
        'id': ('id', 'ent', e.id),
        # worldspawn's "mapversion" is the file form of VMF.map_ver (export adds and removes it), not a keyvalue of its own
        'keys': {k.casefold(): [('s', k), ('s', e[k])] for k in e if not (is_world and k.casefold() == 'mapversion')},
        'fixup': sorted(([('s', fv.var), ('s', fv.value), ('i', fv.id)] for fv in e.fixup.copy_values()), key=lambda t: t[2][1]) if e._fixup is not None else [],
        'outputs': [describe_output(o) for o in e.outputs],
        'solids': [describe_solid(s, is_world) for s in e.solids],
        'editor_color': V(e.editor_color),
        'comments': ('s', e.comments),
    }
    if not is_world:
        d.update({'hidden': ('i', e.hidden), 'groups': sorted(('id', 'group', g) for g in e.groups),
                  'visgroup_ids': sorted(('id', 'vis', v) for v in e.visgroup_ids), 'vis_shown': ('i', e.vis_shown),
                  'vis_auto_shown': ('i', e.vis_auto_shown), 'logical_pos': ('s', e.logical_pos)})
    return d


def describe_vis(v) -> dict:
    return {'name': ('s', v.name), 'id': ('id', 'vis', v.id), 'color': V(v.color), 'children': [describe_vis(c) for c in v.child_groups]}


def describe_map(vmf, minimal: bool = False) -> dict:
    from srctools.vmf import Strata2DViewport
    d: Dict[str, Any] = {
        'format_ver': ('i', vmf.format_ver), 'hammer_ver': ('i', vmf.hammer_ver), 'hammer_build': ('i', vmf.hammer_build),
        'is_prefab': ('i', vmf.is_prefab), 'map_ver': ('i', vmf.map_ver), 'quickhide_count': ('i', vmf.quickhide_count),
        'vis_tree': [describe_vis(v) for v in vmf.vis_tree],
        'groups': sorted(({'id': ('id', 'group', g.id), 'shown': ('i', g.shown), 'auto_shown': ('i', g.auto_shown), 'color': V(g.color)}
                          for g in vmf.groups.values()), key=lambda g: g['id'][2]),
        'spawn': describe_entity(vmf.spawn, True),
        'entities': [describe_entity(e) for e in vmf.entities],
    }
    if not minimal:
        d.update({
            'show_grid': ('i', vmf.show_grid), 'show_3d_grid': ('i', vmf.show_3d_grid), 'snap_grid': ('i', vmf.snap_grid),
            'show_logic_grid': ('i', vmf.show_logic_grid), 'grid_spacing': ('i', vmf.grid_spacing),
            'active_cam': ('i', vmf.active_cam), 'cordon_enabled': ('i', vmf.cordon_enabled),
            'strata_instance_vis': ('i', None if vmf.strata_instance_vis is None else vmf.strata_instance_vis.value),
            'cameras': [{'pos': V(c.pos), 'target': V(c.target)} for c in vmf.cameras],
            'cordons': [{'name': ('s', c.name), 'active': ('i', c.active), 'min': V(c.bounds_min), 'max': V(c.bounds_max)} for c in vmf.cordons],
            'strata_viewports': None if vmf.strata_viewports is None else [
                {'axis': ('s', v.axis), 'u': ('c', v.u), 'v': ('c', v.v), 'zoom': ('c', v.zoom)} if isinstance(v, Strata2DViewport)
                else {'pos': V(v.position), 'angle': [('a', v.angle.pitch), ('a', v.angle.yaw), ('a', v.angle.roll)]}
                for v in vmf.strata_viewports],
        })
    return d


def _leaf_equal(a, b, idmaps: Dict[str, Dict[int, int]]) -> bool:
    kind = a[0]
    if kind != b[0]:
        return False
    if kind in ('s', 'i'):
        return a[1] == b[1] and type(a[1]) is type(b[1]) or (kind == 'i' and a[1] == b[1])
    if kind == 'x':
        return a[1] == b[1]
    if kind == 'c':
        d = abs(a[1] - b[1])
        return d <= 5e-7 + 1e-12 * abs(a[1])
    if kind == 'a':  # angle component: circular distance
        d = abs(a[1] - b[1]) % 360.0
        # 5e-7 is exactly what six decimals can be off by; the subtraction of two doubles near 360 adds up to ~1e-13
        return min(d, 360.0 - d) <= 5e-7 + 1e-12 * 360.0
    if kind == 'g':
        if a[1] == b[1]:
            return True
        scale = max(abs(a[1]), abs(b[1]))
        return abs(a[1] - b[1]) <= scale * 5.000001e-6  # six significant digits: half a unit of the sixth digit, relative
    if kind == 'id':
        if a[1] != b[1]:
            return False
        m = idmaps.setdefault(a[1], {})
        r = idmaps.setdefault(a[1] + '/rev', {})
        if a[2] in m:
            return m[a[2]] == b[2]
        if b[2] in r:
            return False
        m[a[2]] = b[2]
        r[b[2]] = a[2]
        return True
    return False


def diff(a, b, idmaps: Optional[Dict[str, Dict[int, int]]] = None, path: str = '') -> Optional[dict]:
    """First difference between two descriptions, or None."""
    if idmaps is None:
        idmaps = {}
    if isinstance(a, tuple) and a and isinstance(a[0], str) and a[0] in ('s', 'i', 'c', 'g', 'x', 'a', 'id') and not isinstance(b, (dict, list)):
        if not isinstance(b, tuple) or not _leaf_equal(a, b, idmaps):
            return {'path': path, 'want': a, 'got': b}
        return None
    if a is None or b is None:
        if a is not b:
            return {'path': path, 'want': a if a is None else '<present>', 'got': b if b is None else '<present>'}
        return None
    if isinstance(a, dict):
        if not isinstance(b, dict):
            return {'path': path, 'want': '<dict>', 'got': type(b).__name__}
        for k in a:
            if k not in b:
                return {'path': f'{path}/{k}', 'want': '<present>', 'got': '<missing>'}
            d = diff(a[k], b[k], idmaps, f'{path}/{k}')
            if d:
                return d
        for k in b:
            if k not in a:
                return {'path': f'{path}/{k}', 'want': '<missing>', 'got': '<present>'}
        return None
    if isinstance(a, list):
        if not isinstance(b, list):
            return {'path': path, 'want': '<list>', 'got': type(b).__name__}
        if len(a) != len(b):
            return {'path': path + '/len', 'want': len(a), 'got': len(b)}
        for i, (x, y) in enumerate(zip(a, b)):
            d = diff(x, y, idmaps, f'{path}/{i}')
            if d:
                return d
        return None
    if a != b:
        return {'path': path, 'want': a, 'got': b}
    return None
