"""Verdict bookkeeping: counters, distinct-case hashing, known findings, evidence, replay files.

Three-valued verdicts:
  held         -> exit 0
  violated     -> exit 1 and a line `VIOLATION property=<id> replay=<path>`
  inconclusive -> exit 2 and a line `INCONCLUSIVE property=<id> <why>`
"""
from __future__ import annotations

import hashlib
import json
import os
import sys
import time
import traceback
from typing import Any, Callable, Dict, List, Optional

from . import bootstrap

MAX_SAMPLES = 6
MAX_VIOLATION_FILES = 5


class Inconclusive(Exception):
    """Raised by a check when the deciding monitor could not run."""


def _short(obj: Any, limit: int = 1500) -> Any:
    """Make a witness JSON-safe and bounded."""
    try:
        text = json.dumps(obj, ensure_ascii=True, default=repr)
    except Exception:
        text = json.dumps(repr(obj))
    if len(text) > limit:
        return {'truncated_repr': text[:limit]}
    return json.loads(text)


def canon_hash(obj: Any) -> str:
    try:
        data = json.dumps(obj, sort_keys=True, ensure_ascii=True, default=repr)
    except Exception:
        data = repr(obj)
    return hashlib.blake2b(data.encode('utf8', 'surrogatepass'), digest_size=8).hexdigest()


def load_known() -> Dict[str, Dict[str, dict]]:
    path = os.path.join(bootstrap.VERIF, 'known_findings.json')
    out: Dict[str, Dict[str, dict]] = {}
    try:
        with open(path, encoding='utf8') as f:
            data = json.load(f)
    except FileNotFoundError:
        return out
    for ent in data.get('findings', []):
        out.setdefault(ent['property'], {})[ent['key']] = ent
    return out


class Run:
    """One execution of one property's check (or one shard of it)."""

    def __init__(self, prop: str, level: str, rule: str, assumptions: Optional[List[str]] = None) -> None:
        self.prop = prop
        self.level = level
        self.rule = rule
        self.assumptions = list(assumptions or [])
        self.tier = bootstrap.TIER if bootstrap.TIER in ('quick', 'thorough') else 'quick'
        self.seed = bootstrap.SEED
        self.t0 = time.time()
        self.evaluations = 0
        self.distinct: set = set()
        self.distinct_bulk = 0  # cases distinct by construction (exhaustive enumerations)
        self.counters: Dict[str, int] = {}
        self.samples: List[Any] = []
        self.sample_tags: set = set()
        self.violations: List[dict] = []
        self.violation_keys: Dict[str, int] = {}
        self.known_hits: Dict[str, int] = {}
        self.known_msgs: Dict[str, str] = {}
        self.extra: Dict[str, Any] = {}
        self.exhaustive: Optional[bool] = None
        self.inconclusive: List[str] = []
        self.required_counters: List[str] = []
        self._known = load_known().get(prop, {})
        self.replay_mode = False

    # ---------------------------------------------------------------- counting
    def count(self, name: str, n: int = 1) -> None:
        self.counters[name] = self.counters.get(name, 0) + n

    def case(self, key: Any, nontrivial: bool, sample: Any = None, tag: str = '') -> None:
        """Register one explored case.  `key` is its canonical content (hashed for distinctness)."""
        self.evaluations += 1
        if nontrivial:
            self.distinct.add(key if isinstance(key, str) and len(key) == 16 else canon_hash(key))
        if sample is not None and len(self.samples) < MAX_SAMPLES * 3:
            if tag not in self.sample_tags or len(self.samples) < MAX_SAMPLES:
                self.sample_tags.add(tag)
                s = _short(sample, 600)
                self.samples.append({'engine': tag, 'case': s} if tag else s)

    def case_bulk(self, evaluations: int, distinct_nontrivial: int) -> None:
        """Register cases of an exhaustive enumeration (distinct by construction, not hashed)."""
        self.evaluations += evaluations
        self.distinct_bulk += distinct_nontrivial

    def sample(self, sample: Any, tag: str = '') -> None:
        if len(self.samples) < MAX_SAMPLES * 3 and (tag not in self.sample_tags or len(self.samples) < MAX_SAMPLES):
            self.sample_tags.add(tag)
            s = _short(sample, 600)
            self.samples.append({'engine': tag, 'case': s} if tag else s)

    def require(self, *names: str) -> None:
        """Counters that must be non-zero at the end, else the run is inconclusive."""
        self.required_counters.extend(names)

    # ---------------------------------------------------------------- verdicts
    def violation(self, what: str, witness: Any = None, key: Optional[str] = None,
                  engine: str = '', case: Any = None) -> None:
        """Record a refuting observation.  `key` is the mechanism decided by the check's classifier."""
        ent = self._known.get(key) if key else None
        if ent is not None and ent.get('status') == 'known':
            if key not in self.known_hits:
                self.known_msgs[key] = ent.get('what', what)
            self.known_hits[key] = self.known_hits.get(key, 0) + 1
            return
        k = key or 'unclassified'
        self.violation_keys[k] = self.violation_keys.get(k, 0) + 1
        if len(self.violations) < 50:
            self.violations.append({
                'property': self.prop, 'mechanism': k, 'what': what, 'engine': engine,
                'seed': self.seed, 'tier': self.tier, 'hashseed': os.environ.get('PYTHONHASHSEED', ''),
                'case': _short(case, 4000),
                'witness': _short(witness, 6000),
            })

    def is_known(self, key: Optional[str]) -> bool:
        ent = self._known.get(key) if key else None
        return ent is not None and ent.get('status') == 'known'

    def guard(self, fn: Callable[[], Any], what: str, engine: str = '', case: Any = None,
              key: Optional[str] = None, allowed: tuple = ()) -> Any:
        """Run fn; an unexpected exception is a violation (with traceback as witness)."""
        try:
            return fn()
        except allowed:
            raise
        except Inconclusive:
            raise
        except Exception as exc:
            self.violation(f'{what}: raised {type(exc).__name__}: {exc}',
                           witness=traceback.format_exc()[-2500:], key=key, engine=engine, case=case)
            return None

    def note_inconclusive(self, why: str) -> None:
        self.inconclusive.append(why)

    # ---------------------------------------------------------------- sharding
    def dump_partial(self, path: str) -> None:
        data = {
            'evaluations': self.evaluations, 'distinct': sorted(self.distinct),
            'distinct_bulk': self.distinct_bulk,
            'counters': self.counters, 'samples': self.samples, 'violations': self.violations,
            'violation_keys': self.violation_keys, 'known_hits': self.known_hits,
            'known_msgs': self.known_msgs, 'extra': self.extra, 'inconclusive': self.inconclusive,
            'exhaustive': self.exhaustive, 'required': self.required_counters,
        }
        with open(path, 'w', encoding='utf8') as f:
            json.dump(data, f)

    def merge_partial(self, path: str) -> None:
        with open(path, encoding='utf8') as f:
            data = json.load(f)
        self.evaluations += data['evaluations']
        self.distinct.update(data['distinct'])
        self.distinct_bulk += data.get('distinct_bulk', 0)
        for k, v in data['counters'].items():
            self.counters[k] = self.counters.get(k, 0) + v
        for s in data['samples']:
            if len(self.samples) < MAX_SAMPLES * 3:
                self.samples.append(s)
        self.violations.extend(data['violations'])
        for k, v in data['violation_keys'].items():
            self.violation_keys[k] = self.violation_keys.get(k, 0) + v
        for k, v in data['known_hits'].items():
            self.known_hits[k] = self.known_hits.get(k, 0) + v
        self.known_msgs.update(data['known_msgs'])
        for k, v in data['extra'].items():
            if isinstance(v, (int, float)) and isinstance(self.extra.get(k), (int, float)):
                self.extra[k] += v
            elif isinstance(v, list) and isinstance(self.extra.get(k), list):
                for item in v:
                    if item not in self.extra[k]:
                        self.extra[k].append(item)
            elif isinstance(v, dict) and isinstance(self.extra.get(k), dict):
                for kk, vv in v.items():
                    if isinstance(vv, (int, float)) and isinstance(self.extra[k].get(kk), (int, float)):
                        self.extra[k][kk] += vv
                    else:
                        self.extra[k].setdefault(kk, vv)
            else:
                self.extra.setdefault(k, v)
        self.inconclusive.extend(data['inconclusive'])
        if data.get('exhaustive') is not None:
            self.exhaustive = data['exhaustive'] if self.exhaustive is None else (self.exhaustive and data['exhaustive'])
        for r in data.get('required', []):
            if r not in self.required_counters:
                self.required_counters.append(r)

    # ---------------------------------------------------------------- finish
    def finish(self) -> int:
        """Write evidence, print protocol lines, return the exit code."""
        for name in self.required_counters:
            if self.counters.get(name, 0) <= 0:
                self.inconclusive.append(f'monitor counter {name!r} is zero: the deciding code was never reached')
        wall = time.time() - self.t0
        coverage: Dict[str, Any] = {
            'evaluations': self.evaluations,
            'distinct_nontrivial': len(self.distinct) + self.distinct_bulk,
            'rule': self.rule,
            'samples': self.samples[:MAX_SAMPLES * 3],
            'monitor_counters': dict(sorted(self.counters.items())),
            'known_findings_hit': dict(sorted(self.known_hits.items())),
            'violation_mechanisms': dict(sorted(self.violation_keys.items())),
            'inconclusive_reasons': self.inconclusive,
        }
        if self.exhaustive is not None:
            coverage['exhaustive'] = bool(self.exhaustive)
        coverage.update(self.extra)
        evidence = {
            'property_id': self.prop, 'tier': self.tier, 'seed': self.seed, 'level': self.level,
            'coverage': coverage, 'assumptions': self.assumptions, 'wall_s': round(wall, 3),
            'violations': sum(self.violation_keys.values()),
        }
        if not self.replay_mode:
            # runs against a scratch copy (self-validation: VERIF_REPO set) must not overwrite the real evidence
            evdir = os.path.join(bootstrap.VERIF, 'evidence' if bootstrap.REPO == '/repo' else 'evidence-scratch')
            os.makedirs(evdir, exist_ok=True)
            tmp = os.path.join(evdir, f'.{self.prop}.json.tmp{os.getpid()}')
            with open(tmp, 'w', encoding='utf8') as f:
                json.dump(evidence, f, indent=1, ensure_ascii=True, default=repr)
                f.write('\n')
            os.replace(tmp, os.path.join(evdir, f'{self.prop}.json'))

        for key, n in sorted(self.known_hits.items()):
            print(f'KNOWN-FINDING: property={self.prop} {key}: {self.known_msgs.get(key, "")} (observed {n}x)')
        code = 0
        if self.violation_keys:
            code = 1
            rdir = os.path.join(bootstrap.VERIF, 'replays')
            os.makedirs(rdir, exist_ok=True)
            seen = set()
            for v in self.violations:
                # one replay file per distinct mechanism, a handful at most
                if v['mechanism'] in seen or len(seen) >= MAX_VIOLATION_FILES:
                    continue
                seen.add(v['mechanism'])
                h = canon_hash([v['mechanism'], v['engine'], v['case'], v['what']])
                path = os.path.join(rdir, f'{self.prop}-{h}.json')
                with open(path, 'w', encoding='utf8') as f:
                    json.dump(v, f, indent=1, ensure_ascii=True, default=repr)
                print(f'  [{v["mechanism"]}] {v["engine"]}: {v["what"][:400]}')
                print(f'VIOLATION property={self.prop} replay={path}')
        elif self.inconclusive:
            code = 2
            for why in self.inconclusive[:5]:
                print(f'INCONCLUSIVE property={self.prop} {why}')
        summary = (f'{self.prop} {self.tier} seed={self.seed}: evaluations={self.evaluations} '
                   f'distinct_nontrivial={len(self.distinct) + self.distinct_bulk} violations={sum(self.violation_keys.values())} '
                   f'known={sum(self.known_hits.values())} wall={wall:.1f}s -> '
                   + {0: 'HELD (on what was observed)', 1: 'VIOLATED', 2: 'INCONCLUSIVE'}[code])
        print(summary)
        sys.stdout.flush()
        return code
