"""File-operation failpoint layer for C12.

Interposes on the exact callables the atomic writer reaches the filesystem through (io.open / builtins.open ->
a proxy file object whose write/flush/close are boundaries; os.replace, os.rename, os.unlink, os.remove, os.mkdir),
numbers every boundary of operations touching the watched directory, and at boundary k either raises an OSError
(fault) or calls os._exit(137) (crash: no finally blocks, no buffered-data flush - the semantics of SIGKILL).
Optionally a boundary is a *gate*: the calling thread blocks there until released (deterministic interleavings).
"""
from __future__ import annotations

import builtins
import errno as _errno
import io
import os
import threading
from typing import Any, Callable, Dict, List, Optional, Tuple

_real_open = io.open
_real = {name: getattr(os, name) for name in ('replace', 'rename', 'unlink', 'remove', 'mkdir')}


class Layer:
    def __init__(self, watch_dir: str) -> None:
        self.watch = os.path.realpath(watch_dir)
        self.log: List[Tuple[int, str, str]] = []
        self.log_threads: List[str] = []  # thread name per log entry (two-writer monitor)
        self.counter = 0
        self.lock = threading.Lock()
        # action: None | ('fault', k, errno) | ('crash', k)
        self.action: Optional[tuple] = None
        self.fired = False
        self.installed = False
        self.gates: Dict[Tuple[str, int], Tuple[threading.Event, threading.Event]] = {}
        self.per_thread_counter: Dict[str, int] = {}

    # ------------------------------------------------------------------ plumbing
    def _watched(self, path: Any) -> bool:
        try:
            p = os.path.realpath(os.fspath(path))
        except TypeError:
            return False
        return p == self.watch or p.startswith(self.watch + os.sep)

    def boundary(self, kind: str, path: Any) -> None:
        """One numbered operation boundary (before the operation is performed)."""
        name = os.path.basename(os.fspath(path)) if not isinstance(path, str) or path else str(path)
        tname = threading.current_thread().name
        with self.lock:
            k = self.counter
            self.counter += 1
            self.log.append((k, kind, name))
            self.log_threads.append(tname)
            tk = self.per_thread_counter.get(tname, 0)
            self.per_thread_counter[tname] = tk + 1
            act = self.action
            gate = self.gates.get((tname, tk))
        if gate is not None:
            reached, release = gate
            reached.set()
            release.wait(30)
        if act is not None and act[1] == k and not self.fired:
            self.fired = True
            if act[0] == 'crash':
                os._exit(137)
            if isinstance(act[2], str):
                # not an I/O error but an asynchronous exception arriving while the operation is about to run (Ctrl-C)
                raise {'KeyboardInterrupt': KeyboardInterrupt, 'MemoryError': MemoryError}[act[2]]('injected')
            raise OSError(act[2], os.strerror(act[2]) + ' (injected)', name)

    def after(self, kind: str, path: Any) -> None:
        """Boundary after an operation completed (only crashes are meaningful here)."""
        self.boundary(kind + '/done', path)

    def install(self) -> None:
        layer = self

        def open_(file, mode='r', *a, **kw):
            if isinstance(file, int) or not layer._watched(file):
                return _real_open(file, mode, *a, **kw)
            layer.boundary('open ' + mode, file)
            real = _real_open(file, mode, *a, **kw)
            layer.after('open ' + mode, file)
            if any(c in mode for c in 'wxa+'):
                return FileProxy(layer, real, os.fspath(file))
            return real

        def wrap(name):
            real = _real[name]

            def fn(*a, **kw):
                if a and layer._watched(a[0]):
                    label = name + (' -> ' + os.path.basename(os.fspath(a[1])) if name in ('replace', 'rename') and len(a) > 1 else '')
                    layer.boundary(label, a[0])
                    res = real(*a, **kw)
                    layer.after(label, a[0])
                    return res
                return real(*a, **kw)
            return fn
        io.open = open_
        builtins.open = open_
        for name in _real:
            setattr(os, name, wrap(name))
        self.installed = True

    def uninstall(self) -> None:
        io.open = _real_open
        builtins.open = _real_open
        for name, fn in _real.items():
            setattr(os, name, fn)
        self.installed = False


class FileProxy:
    """Wraps the real file object; write/flush/close are boundaries.  Everything else passes through."""

    def __init__(self, layer: Layer, real: Any, path: str) -> None:
        object.__setattr__(self, '_layer', layer)
        object.__setattr__(self, '_real', real)
        object.__setattr__(self, '_path', path)

    def write(self, data):
        self._layer.boundary(f'write[{len(data)}]', self._path)
        n = self._real.write(data)
        self._layer.after('write', self._path)
        return n

    def flush(self):
        self._layer.boundary('flush', self._path)
        res = self._real.flush()
        self._layer.after('flush', self._path)
        return res

    def close(self):
        if self._real.closed:
            return
        try:
            self._layer.boundary('close', self._path)
        except OSError:
            # A close that reports an error has still released the descriptor.
            try:
                self._real.close()
            except OSError:
                pass
            raise
        self._real.close()
        self._layer.after('close', self._path)

    def __enter__(self):
        return self

    def __exit__(self, *exc):
        self.close()

    def __getattr__(self, name):
        return getattr(self._real, name)

    def __iter__(self):
        return iter(self._real)
