"""./check <ID> [--tier quick|thorough] [--replay file] [--shard i/n] [--jobs n]"""
from __future__ import annotations

import argparse
import importlib
import io
import json
import os
import shutil
import signal
import subprocess
import sys
import tempfile
import time
import traceback

from . import bootstrap


def main() -> int:
    ap = argparse.ArgumentParser()
    ap.add_argument('prop')
    ap.add_argument('--tier', choices=['quick', 'thorough'], default=None)
    ap.add_argument('--replay', default=None)
    ap.add_argument('--shard', default=None, help='i/n (internal)')
    ap.add_argument('--partial', default=None, help='file to dump shard state to (internal)')
    ap.add_argument('--jobs', type=int, default=None)
    args = ap.parse_args()

    prop = args.prop.upper()
    if args.tier:
        bootstrap.TIER = args.tier
    elif bootstrap.TIER not in ('quick', 'thorough'):
        bootstrap.TIER = 'quick'
    os.environ['VERIF_TIER'] = bootstrap.TIER
    sys.path.insert(0, bootstrap.VERIF)
    bootstrap.boot()

    from .monitor import Run, Inconclusive
    try:
        mod = importlib.import_module(f'checks.{prop.lower()}')
    except ModuleNotFoundError as exc:
        print(f'INCONCLUSIVE property={prop} no check module: {exc}')
        return 2

    run = Run(prop, mod.LEVEL, mod.RULE, getattr(mod, 'ASSUMPTIONS', []))

    if args.replay:
        run.replay_mode = True
        with open(args.replay, encoding='utf8') as f:
            data = json.load(f)
        want_hs = str(data.get('hashseed', '') or '')
        if want_hs.isdigit() and os.environ.get('PYTHONHASHSEED') != want_hs:
            # the recorded run used another hash seed (set iteration order): start again under that one
            os.environ['PYTHONHASHSEED'] = want_hs
            os.execv(sys.executable, [sys.executable, '-m', 'rv.cli'] + sys.argv[1:])
        run.seed = bootstrap.SEED = int(data.get('seed', 0))
        run.tier = bootstrap.TIER = data.get('tier', 'quick')
        os.environ['VERIF_SEED'] = str(run.seed)
        os.environ['VERIF_TIER'] = run.tier
        if data.get('engine') == 'uncaught':
            # the library raised outside any case handler: there is no single case to re-run, so repeat the whole
            # run with the recorded seed and tier
            run.replay_mode = False
            args.replay = None
        else:
            try:
                mod.replay(run, data)
            except Inconclusive as exc:
                run.note_inconclusive(str(exc))
            except Exception as exc:
                _uncaught(run, exc)
            return run.finish()

    jobs = args.jobs or getattr(mod, 'JOBS', {}).get(bootstrap.TIER, 1)
    jobs = max(1, min(jobs, os.cpu_count() or 1))
    budget = getattr(mod, 'WATCHDOG_S', {}).get(bootstrap.TIER, 900 if bootstrap.TIER == 'quick' else 7200)

    if args.shard is None and jobs > 1:
        return _run_sharded(run, prop, jobs, budget)

    shard = (0, 1)
    if args.shard:
        i, n = args.shard.split('/')
        shard = (int(i), int(n))

    def on_alarm(signum, frame):  # wall-clock watchdog: only ever inconclusive
        raise Inconclusive(f'watchdog fired after {budget}s')

    signal.signal(signal.SIGALRM, on_alarm)
    signal.alarm(int(budget))
    try:
        mod.main(run, shard)
    except Inconclusive as exc:
        run.note_inconclusive(str(exc))
    except Exception as exc:
        _uncaught(run, exc)
    finally:
        signal.alarm(0)
    if args.partial:
        run.dump_partial(args.partial)
        return 0
    return run.finish()


def _uncaught(run, exc: BaseException) -> None:
    """An exception no check caught.  Raised INSIDE the library under test (innermost frame under <repo>/src) it is the
    library's behaviour on an input the workload produced - on the unchanged tree no check lets one escape - so it is a
    violation with the traceback as witness.  Raised in harness code (a renamed private attribute, a result of another
    shape than the harness can walk, a bug of the harness) it decides nothing: inconclusive."""
    tb = exc.__traceback__
    last = None
    while tb is not None:
        last = tb.tb_frame.f_code.co_filename
        tb = tb.tb_next
    src = os.path.join(os.path.realpath(bootstrap.REPO), 'src') + os.sep
    text = traceback.format_exc()[-1500:]
    if last is not None and os.path.realpath(last).startswith(src):
        run.violation(f'the library raised {type(exc).__name__}: {exc} (not caught by any case handler; exploration of this shard stopped here)',
                      witness={'traceback': text}, key=f'library-raises:{type(exc).__name__}', engine='uncaught')
    else:
        run.note_inconclusive('harness error: ' + text)


def _run_sharded(run, prop: str, jobs: int, budget: int) -> int:
    work = tempfile.mkdtemp(prefix=f'rv-{prop}-', dir=os.environ.get('VERIF_WORK') or None)
    procs = []
    try:
        for i in range(jobs):
            part = os.path.join(work, f'part{i}.json')
            cmd = [sys.executable, '-m', 'rv.cli', prop, '--tier', bootstrap.TIER,
                   '--shard', f'{i}/{jobs}', '--partial', part]
            log = open(os.path.join(work, f'log{i}.txt'), 'w')
            procs.append((i, part, log, subprocess.Popen(cmd, cwd=bootstrap.VERIF, stdout=log, stderr=subprocess.STDOUT)))
        deadline = time.time() + budget + 60
        for i, part, log, p in procs:
            try:
                p.wait(timeout=max(1, deadline - time.time()))
            except subprocess.TimeoutExpired:
                p.kill()
                p.wait()
                run.note_inconclusive(f'shard {i} killed by the watchdog')
            log.close()
            if os.path.exists(part):
                run.merge_partial(part)
            else:
                with open(log.name) as f:
                    tail = f.read()[-800:]
                run.note_inconclusive(f'shard {i} produced no result (exit {p.returncode}): {tail}')
        run.extra['shards'] = jobs
        return run.finish()
    finally:
        for _, _, log, p in procs:
            if p.poll() is None:
                p.kill()
        shutil.rmtree(work, ignore_errors=True)


if __name__ == '__main__':
    sys.exit(main())
