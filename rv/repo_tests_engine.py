"""Engine shared by C05/C07/C08: the repository's own tests as a workload, with runtime contracts attached."""
from __future__ import annotations

import json
import os
import subprocess
import sys
import tempfile
from typing import List

from . import bootstrap


def run_repo_tests_with_contracts(run, prop: str, test_files: List[str]) -> None:
    """Runs pytest in a subprocess (the tests import the tree under REPO/src) and folds the contract observations for
    `prop` into the run.  Unavailable icontract / pytest => counted, never a verdict."""
    deps = os.path.join(bootstrap.VERIF, '.deps')
    if not os.path.isdir(os.path.join(deps, 'icontract')):
        run.extra['repo_tests_with_contracts'] = 'icontract not installed (setup.sh not run?): engine skipped'
        return
    tests = [os.path.join(bootstrap.REPO, 'tests', t) for t in test_files if os.path.exists(os.path.join(bootstrap.REPO, 'tests', t))]
    if not tests:
        run.extra['repo_tests_with_contracts'] = 'no test files found: engine skipped'
        return
    fd, report = tempfile.mkstemp(prefix='rv-contracts-', suffix='.json')
    os.close(fd)
    env = dict(os.environ, RV_CONTRACT_REPORT=report, PYTHONHASHSEED='0',
               PYTHONPATH=os.pathsep.join([bootstrap.VERIF, os.path.join(bootstrap.REPO, 'src'), os.path.join(bootstrap.VERIF, 'shim'), deps]))
    try:
        cp = subprocess.run([sys.executable, '-m', 'pytest', '-q', '-p', 'no:cacheprovider', '-p', 'rv.pytest_contracts', '--no-header',
                             '-W', 'ignore', *tests], cwd=os.path.join(bootstrap.REPO), env=env, capture_output=True, text=True, timeout=900)
        try:
            with open(report) as f:
                data = json.load(f)
        except Exception:
            run.extra['repo_tests_with_contracts'] = 'no report written: ' + (cp.stdout[-300:] + cp.stderr[-300:])
            return
    except subprocess.TimeoutExpired:
        run.extra['repo_tests_with_contracts'] = 'timed out: engine inconclusive'
        return
    finally:
        try:
            os.unlink(report)
        except OSError:
            pass
    evals = data.get('evaluations', {})
    run.extra['repo_tests_with_contracts'] = {'installed': data.get('installed', []), 'contract_evaluations': evals,
                                               'pytest_tail': cp.stdout.strip().splitlines()[-1:] }
    run.count('contract_evaluations_in_repo_tests', sum(evals.values()))
    seen = set()
    for v in data.get('violations', []):
        if v['property'] != prop:
            continue
        k = (v['key'], v['test'])
        if k in seen:
            continue
        seen.add(k)
        run.violation(f'contract fired while the repository test {v["test"]} ran: {v["what"]}', case={'repo_test': v['test']},
                      engine='repo-tests+contracts', key='contract:' + v['key'])
    run.case(['repo-tests', sorted(test_files)], True, sample={'repo_tests': test_files, 'contract_evaluations': evals}, tag='repo-tests+contracts')
