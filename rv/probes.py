"""sys.monitoring based probes: anchor reach counters and the Angle return-value monitor."""
from __future__ import annotations

import sys
import types
from typing import Any, Callable, Dict, Iterable, List, Optional

mon = sys.monitoring
TOOL_REACH = 3
TOOL_RET = 4
REACH_CAP = 2000  # after this many hits the location is DISABLEd (evidence then says ">=cap")


def _resolve(root: Any, dotted: str) -> Optional[types.CodeType]:
    obj = root
    for part in dotted.split('.'):
        obj = getattr(obj, part, None)
        if obj is None:
            return None
    for attr in ('__func__', 'fget', '__wrapped__'):
        inner = getattr(obj, attr, None)
        if inner is not None:
            obj = inner
    return getattr(obj, '__code__', None)


class ReachProbe:
    """Counts entries (PY_START) into the anchor functions named by the property.

    Anchors are resolved by qualified name at start-up; one that no longer resolves is reported as
    missing, which the check turns into INCONCLUSIVE rather than silently counting nothing.
    """

    def __init__(self, anchors: Dict[str, Any]) -> None:
        # anchors: label -> (module_or_class, 'dotted.name')
        self.counts: Dict[str, int] = {}
        self.missing: List[str] = []
        self._by_code: Dict[types.CodeType, str] = {}
        for label, (root, dotted) in anchors.items():
            code = _resolve(root, dotted)
            if code is None:
                self.missing.append(label)
            else:
                self._by_code[code] = label
                self.counts[label] = 0
        self._on = False

    def start(self) -> None:
        if self._on or not self._by_code:
            return
        try:
            mon.use_tool_id(TOOL_REACH, 'rv-reach')
        except ValueError:
            pass
        mon.register_callback(TOOL_REACH, mon.events.PY_START, self._cb)
        for code in self._by_code:
            mon.set_local_events(TOOL_REACH, code, mon.events.PY_START)
        self._on = True

    def _cb(self, code: types.CodeType, offset: int) -> Any:
        label = self._by_code.get(code)
        if label is None:
            return mon.DISABLE
        n = self.counts[label] + 1
        self.counts[label] = n
        if n >= REACH_CAP:
            return mon.DISABLE
        return None

    def stop(self) -> None:
        if not self._on:
            return
        for code in self._by_code:
            mon.set_local_events(TOOL_REACH, code, 0)
        mon.register_callback(TOOL_REACH, mon.events.PY_START, None)
        try:
            mon.free_tool_id(TOOL_REACH)
        except ValueError:
            pass
        self._on = False

    def report(self, run: Any) -> None:
        """Copy counts into the run; zero-reach or missing anchors make the run inconclusive."""
        self.stop()
        run.extra.setdefault('anchor_reach', {})
        for label, n in self.counts.items():
            run.extra['anchor_reach'][label] = run.extra['anchor_reach'].get(label, 0) + n
        for label in self.missing:
            run.note_inconclusive(f'anchor {label!r} no longer resolves by name; reach cannot be shown')

    def check_reached(self, run: Any, labels: Optional[Iterable[str]] = None) -> None:
        reach = run.extra.get('anchor_reach', {})
        for label in (labels if labels is not None else list(reach)):
            if reach.get(label, 0) <= 0:
                run.note_inconclusive(f'anchor {label!r} was never entered by the workload')


class ReturnProbe:
    """PY_RETURN on every code object of a module: calls `on_value(retval, code)` for instances of `types_`."""

    def __init__(self, module: types.ModuleType, types_: tuple, on_value: Callable[[Any, types.CodeType], None]) -> None:
        self.module = module
        self.types_ = types_
        self.on_value = on_value
        self.codes: List[types.CodeType] = []
        self.seen = 0
        self._collect()
        self._on = False

    def _collect(self) -> None:
        seen = set()

        def add(code: types.CodeType) -> None:
            if code in seen or code.co_filename != self.module.__file__:
                return
            seen.add(code)
            self.codes.append(code)
            for const in code.co_consts:
                if isinstance(const, types.CodeType):
                    add(const)

        def walk(obj: Any, depth: int = 0) -> None:
            if isinstance(obj, (staticmethod, classmethod)):
                obj = obj.__func__
            if isinstance(obj, property):
                for f in (obj.fget, obj.fset, obj.fdel):
                    if f is not None:
                        walk(f, depth)
                return
            code = getattr(obj, '__code__', None)
            if isinstance(code, types.CodeType):
                add(code)
            elif isinstance(obj, type) and depth < 3:
                for v in list(vars(obj).values()):
                    walk(v, depth + 1)

        for v in list(vars(self.module).values()):
            walk(v)

    def start(self) -> None:
        if self._on:
            return
        try:
            mon.use_tool_id(TOOL_RET, 'rv-return')
        except ValueError:
            pass
        mon.register_callback(TOOL_RET, mon.events.PY_RETURN, self._cb)
        for code in self.codes:
            mon.set_local_events(TOOL_RET, code, mon.events.PY_RETURN)
        self._on = True

    def _cb(self, code: types.CodeType, offset: int, retval: Any) -> Any:
        if isinstance(retval, self.types_):
            self.seen += 1
            self.on_value(retval, code)
        return None

    def stop(self) -> None:
        if not self._on:
            return
        for code in self.codes:
            mon.set_local_events(TOOL_RET, code, 0)
        mon.register_callback(TOOL_RET, mon.events.PY_RETURN, None)
        try:
            mon.free_tool_id(TOOL_RET)
        except ValueError:
            pass
        self._on = False
