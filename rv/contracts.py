"""Runtime contracts on the real classes, used while the REPOSITORY'S OWN TESTS run as the workload.

The invariants are the same oracles the history checks use (C07 index agreement, C08 ID uniqueness, C05 angle
range), attached to the library's classes from outside.  A contract that fires while the repository's tests run
is either too strict or a defect those tests do not assert; each observation is recorded (never raised, so that
the tests themselves keep running) and reported by the pytest plugin rv/pytest_contracts.py.

Two mechanisms:
 * icontract.invariant on classes whose public methods do not call each other while the object is mid-update
   (IDMan, EntityFixup): checked by icontract at the exit of every public method.
 * depth-tracking wrappers on Entity and VMF: their mutators call other public methods half-way through
   (clear() -> __setitem__ -> ...), so icontract's check at the exit of EVERY public method would see transient
   states.  The wrapper runs the map scan only when the OUTERMOST public call on any entity/map returns
   (a quiescent point).
"""
from __future__ import annotations

import functools
from typing import Any, Dict, List

STATE: Dict[str, Any] = {'evaluations': {}, 'violations': [], 'current_test': '', 'depth': 0, 'in_scan': False}


def _count(name: str) -> None:
    STATE['evaluations'][name] = STATE['evaluations'].get(name, 0) + 1


def _record(prop: str, key: str, what: str) -> None:
    if len(STATE['violations']) < 200:
        STATE['violations'].append({'property': prop, 'key': key, 'what': what, 'test': STATE['current_test']})


# ---------------------------------------------------------------------------------------------- map scan (C07, C08)
def _scan_map(vmf: Any, origin: str) -> None:
    if STATE['in_scan']:
        return
    STATE['in_scan'] = True
    try:
        _scan_map_inner(vmf, origin)
    except Exception:
        pass  # a half-constructed object; never let the monitor disturb the test
    finally:
        STATE['in_scan'] = False


def _scan_map_inner(vmf: Any, origin: str) -> None:
    ents = list(vmf.entities)
    spawn = vmf.spawn
    if len(ents) > 400:
        return
    _count('map_scans')
    want_cls: Dict[str, set] = {}
    for e in ents + [spawn]:
        want_cls.setdefault(e['classname'].casefold(), set()).add(id(e))
    for k in set(want_cls) | {k for k, v in list(vmf.by_class.items()) if v}:
        got = {id(e) for e in vmf.by_class.get(k, ())}
        if got != want_cls.get(k, set()):
            _record('C07', 'by-class-desync', f'by_class[{k!r}] disagrees with a scan of the entities after {origin}')
            break
    want_tgt: Dict[Any, set] = {}
    for e in ents:
        want_tgt.setdefault(e['targetname'].casefold() or None, set()).add(id(e))
    for k in set(want_tgt) | {k for k, v in list(vmf.by_target.items()) if any(x is not spawn for x in v)}:
        got = {id(e) for e in vmf.by_target.get(k, ()) if e is not spawn}
        if got != want_tgt.get(k, set()):
            _record('C07', 'by-target-desync', f'by_target[{k!r}] disagrees with a scan of the entities after {origin}')
            break
    if type(vmf.ent_id).__name__ != 'NullIDMan':  # maps opened with preserve_ids are exempt by definition
        ids = [e.id for e in ents] + [spawn.id]
        if len(set(ids)) != len(ids) or any(i <= 0 for i in ids):
            _record('C08', 'duplicate-id:entity', f'live entities share an ID or have a non-positive one after {origin}: {sorted(ids)[:12]}')
        sids = [s.id for s in vmf.brushes] + [s.id for e in ents for s in e.solids]
        if len(set(sids)) != len(sids):
            _record('C08', 'duplicate-id:solid', f'live brushes share an ID after {origin}')


def _wrap_outermost(cls: type, names: List[str], get_map) -> int:
    """Wrap public methods so that the scan runs when the outermost wrapped call (on any object) returns."""
    n = 0
    for name in names:
        fn = cls.__dict__.get(name)
        if fn is None or not callable(fn) or isinstance(fn, (staticmethod, classmethod, property)):
            continue

        def make(fn=fn, name=name):
            @functools.wraps(fn)
            def wrapper(self, *a, **kw):
                STATE['depth'] += 1
                try:
                    return fn(self, *a, **kw)
                finally:
                    STATE['depth'] -= 1
                    if STATE['depth'] == 0 and not STATE['in_scan']:
                        vmf = get_map(self)
                        if vmf is not None and getattr(vmf, 'spawn', None) is not None and hasattr(vmf, 'by_class'):
                            _scan_map(vmf, f'{cls.__name__}.{name} ({STATE["current_test"]})')
            return wrapper
        setattr(cls, name, make())
        n += 1
    return n


# ---------------------------------------------------------------------------------------------- icontract conditions
def idman_invariant(self) -> bool:
    _count('idman_invariant')
    try:
        used = self._used
        if type(self).__name__ != 'NullIDMan' and any((not isinstance(i, int)) or i <= 0 for i in used):
            _record('C08', 'nonpositive-id-registered', f'IDMan holds a non-positive ID: {sorted(used)[:8]}')
        if self.search_pos < 1 and type(self).__name__ != 'NullIDMan':
            _record('C08', 'idman-search-pos', f'IDMan.search_pos dropped to {self.search_pos}: the next automatic ID would be non-positive')
    except AttributeError:
        pass
    return True


def fixup_invariant(self) -> bool:
    _count('fixup_invariant')
    try:
        ids = [fv.id for fv in self._fixup.values()]
    except AttributeError:
        return True
    if len(set(ids)) != len(ids):
        _record('C08', 'fixup-index', f'EntityFixup holds duplicate replaceNN indexes {sorted(ids)}')
    return True


class ContractBroken(Exception):
    pass


def install() -> List[str]:
    done: List[str] = []
    import srctools.vmf as vm
    import srctools.math as sm
    ent_methods = ['__setitem__', '__delitem__', 'pop', 'clear', 'clear_keys', 'update', 'setdefault', 'make_unique', 'remove', 'copy', '__init__']
    n = _wrap_outermost(vm.Entity, ent_methods, lambda self: getattr(self, 'map', None))
    done.append(f'outermost-exit map scan on {n} Entity methods')
    vmf_methods = ['add_ent', 'add_ents', 'remove_ent', 'create_ent', 'add_brush', 'add_brushes', 'remove_brush', 'export']
    n = _wrap_outermost(vm.VMF, vmf_methods, lambda self: self)
    done.append(f'outermost-exit map scan on {n} VMF methods')
    # VMF.parse is a staticmethod: scan its result
    real_parse = vm.VMF.parse

    def parse(*a, **kw):
        STATE['depth'] += 1
        try:
            res = real_parse(*a, **kw)
        finally:
            STATE['depth'] -= 1
        if STATE['depth'] == 0:
            _scan_map(res, f'VMF.parse ({STATE["current_test"]})')
        return res
    vm.VMF.parse = staticmethod(parse)
    done.append('map scan on the result of VMF.parse')
    try:
        import icontract
        icontract.invariant(idman_invariant, error=lambda self: ContractBroken('idman'))(vm.IDMan)
        icontract.invariant(fixup_invariant, error=lambda self: ContractBroken('fixup'))(vm.EntityFixup)
        done.append('icontract.invariant on srctools.vmf.IDMan and srctools.vmf.EntityFixup')
    except ImportError:
        done.append('icontract unavailable: IDMan/EntityFixup invariants not attached')
    except Exception as exc:  # pragma: no cover
        done.append(f'icontract could not decorate: {exc!r}')

    from .probes import ReturnProbe

    def on_angle(a, code) -> None:
        try:
            p, y, r = a._pitch, a._yaw, a._roll
        except AttributeError:
            return
        _count('angles_returned')
        if not (0.0 <= p < 360.0 and 0.0 <= y < 360.0 and 0.0 <= r < 360.0):
            _record('C05', 'angle-out-of-range', f'{code.co_qualname} returned an angle outside [0, 360): {(p, y, r)}')
    probe = ReturnProbe(sm, (sm.AngleBase,), on_angle)
    probe.start()
    STATE['_probe'] = probe
    done.append(f'PY_RETURN range probe on {len(probe.codes)} code objects of srctools.math')
    return done
