"""BSP synthesiser shared by C10 and C11.

An abstract world W (plain dicts / lists / ints / float32-exact floats / bytes) is turned into lump bytes and into a whole
BSP file by encoders written here from the documented on-disk layouts (VDC "Source BSP File Format", bspfile.h of the
2013 SDK, the Chaos/Strata v25 reference).  Nothing in this module imports srctools.bsp: the struct tables below are
hard-coded copies, so what the library *reads* from a synthesised file can be checked against W as well.

  gen_world(rng, layout, **opts) -> W          build_file(W) -> bytes
  expected(W) -> canonical content             dump_bsp(bsp) -> canonical content of a parsed srctools BSP object
  raw_lumps(W) / raw_game_lumps(W)             first_diff(a, b) -> first differing path

Layouts: v19 (leaf version 0 with ambient cube), v20, v21, v21_l4d2 (header fields in the order version/offset/length),
infra (v22, 16-byte primitives), chaos (v25, widened indices, float bounds), vitamin (v43, magic FART: 40-byte faces
with a flags byte and no original/HDR faces or primitives, 44-byte leafs with unsigned bounds and a separate flags byte,
12-byte brush sides, 24-byte texdata).  The INFRA and Chaos tables cannot be verified here against an independent source
(no network): they restate the reference the library itself cites.  The VitaminSource table has no reference at all here:
it restates LUMP_LAYOUT_VITAMIN and the is_vitamin branches of the library, so an error made symmetrically in its reader
and writer is invisible; reader/writer disagreements and view-ownership errors are not.
"""
from __future__ import annotations

import io
import lzma
import math
import struct
import zipfile
from typing import Any, Dict, List, Optional, Tuple

# ------------------------------------------------------------------------------------------------ lump numbers
L_ENTITIES, L_PLANES, L_TEXDATA, L_VERTEXES, L_VISIBILITY, L_NODES, L_TEXINFO, L_FACES = range(8)
L_LIGHTING, L_OCCLUSION, L_LEAFS, L_FACEIDS, L_EDGES, L_SURFEDGES, L_MODELS, L_WORLDLIGHTS = range(8, 16)
L_LEAFFACES, L_LEAFBRUSHES, L_BRUSHES, L_BRUSHSIDES, L_AREAS, L_AREAPORTALS = range(16, 22)
L_DISPINFO, L_ORIGINALFACES, L_PHYSDISP, L_PHYSCOLLIDE = 26, 27, 28, 29
L_GAME_LUMP, L_LEAFWATERDATA, L_PRIMITIVES, L_PRIMVERTS, L_PRIMINDICES, L_PAKFILE = 35, 36, 37, 38, 39, 40
L_CUBEMAPS, L_TEXDATA_STRING_DATA, L_TEXDATA_STRING_TABLE, L_OVERLAYS, L_LEAFMINDISTTOWATER = 42, 43, 44, 45, 46
L_FACES_HDR, L_MAP_FLAGS, L_OVERLAY_FADES, L_OVERLAY_SYSTEM_LEVELS = 58, 59, 60, 61
LUMP_COUNT = 64
# lumps that no structured view reads or writes: filled with random bytes
OPAQUE_LUMPS = [8, 9, 15, 20, 21, 22, 23, 24, 25, 26, 28, 30, 31, 32, 33, 34, 41, 47, 48, 49, 50, 51, 52, 53, 54, 55, 56,
                57, 59, 62, 63]

VIEWS = ['pakfile', 'ents', 'textures', 'texinfo', 'cubemaps', 'overlays', 'bmodels', 'brushes', 'visleafs',
         'water_leaf_info', 'nodes', 'visibility', 'vertexes', 'surfedges', 'planes', 'faces', 'orig_faces', 'hdr_faces',
         'primitives', 'props', 'detail_props']
# canonical order in which dump_bsp touches the views (orig_faces < faces < hdr_faces matters: see expected())
TOUCH_ORDER = ['textures', 'texinfo', 'planes', 'vertexes', 'surfedges', 'primitives', 'orig_faces', 'faces', 'hdr_faces',
               'brushes', 'visleafs', 'water_leaf_info', 'nodes', 'visibility', 'ents', 'bmodels', 'cubemaps', 'overlays',
               'props', 'detail_props', 'pakfile']

# ------------------------------------------------------------------------------------------------ struct tables
_STD = dict(
    magic=b'VBSP', header='std',
    face='<HBBihhhh4sifiiiiiHHI', faceid='<H', edge='<HH', prim='<HHHHH', primindex='<H',
    node='<iii6hHHh2x', leaf='<ihh6hHHHHh2x', leaf_ambient=False, leaf_area_shift=7, leafface='<H', leafbrush='<H',
    waterdata='<ffH2x', brushside='<HhhH', sprp_leaf='<H', float_bounds=False, kind='std', texdata='<3f5i',
)
LAYOUTS: Dict[str, Dict[str, Any]] = {
    'v19': dict(_STD, version=19, leaf='<ihh6hHHHHh24s2x', leaf_ambient=True),
    'v20': dict(_STD, version=20),
    'v21': dict(_STD, version=21),
    'v21_l4d2': dict(_STD, version=21, header='l4d2'),
    'infra': dict(_STD, version=22, prim='<IIIHH'),
    'vitamin': dict(_STD, version=43, magic=b'FART', kind='vitamin', face='<5i4iB3x', leaf='<ihh6I4HhBx',
                    brushside='<IIhBB', node='<iii6iHHh2x', texdata='<3f3i'),
    'chaos': dict(
        _STD, version=25,
        face='<IBBxxiiiii4sifiiiiiIII', faceid='<I', edge='<II', prim='<IIIII', primindex='<I',
        node='<iii6fIIhxx', leaf='<iii6fIIIIi', leaf_area_shift=17, leafface='<I', leafbrush='<I',
        waterdata='<ffI', brushside='<IiiHxx', sprp_leaf='<I', float_bounds=True,
    ),
}
# static prop versions: name -> (header version, struct size, field groups after the common 56-byte head)
SPRP_VERSIONS: Dict[str, Tuple[int, int]] = {
    'V4': (4, 56), 'V5': (5, 60), 'V6': (6, 64), 'V7': (7, 68), 'V8': (8, 68), 'V9': (9, 72), 'V10': (10, 76), 'V11': (11, 80),
    'V_LIGHTMAP_v7': (7, 72), 'V_LIGHTMAP_v10': (10, 72), 'V_LIGHTMAP_MESA': (11, 80), 'V_CHAOS_V12': (12, 80),
    'V_CHAOS_V13': (13, 88),
}


def sprp_versions_for(layout: str) -> List[str]:
    """Static prop versions that are unambiguous on a layout (the library documents: (11, 80) is Mesa on v20)."""
    if layout == 'chaos':
        return ['V_CHAOS_V12', 'V_CHAOS_V13']
    out = ['V4', 'V5', 'V6', 'V7', 'V8', 'V9', 'V10', 'V_LIGHTMAP_v7', 'V_LIGHTMAP_v10']
    out.append('V_LIGHTMAP_MESA' if layout == 'v20' else 'V11')
    return out


# ------------------------------------------------------------------------------------------------ numbers
def signed_zeros(v: Any) -> list:
    """Position components with the sign of a zero made visible to == (a negative zero becomes the string '-0.0')."""
    return ['-0.0' if (c == 0 and math.copysign(1.0, c) < 0) else c for c in v]


def f32(x: float) -> float:
    v = struct.unpack('<f', struct.pack('<f', x))[0]
    return v + 0.0 if v != 0 else 0.0


def rfloat(rng, big: bool = True) -> float:
    r = rng.random()
    if r < 0.3:
        return float(rng.randint(-64, 64))
    if r < 0.6:
        return rng.randint(-4096, 4096) / 16.0
    if r < 0.92 or not big:
        return f32(rng.uniform(-1000, 1000))
    return f32(rng.choice([1e-6, -3.5e5, 16384.0, 0.1, -0.3333, 1e10, 99999.0, -99999.0]))


def rvec(rng) -> List[float]:
    return [rfloat(rng), rfloat(rng), rfloat(rng)]


def rangle(rng) -> List[float]:
    """Angles already in [0, 360) so that the library's normalisation is the identity."""
    def one() -> float:
        r = rng.random()
        if r < 0.4:
            return float(rng.choice([0, 90, 180, 270, 45, 359]))
        v = f32(rng.uniform(0, 359.9))
        return v if 0 <= v < 360 else 0.0
    return [one(), one(), one()]


def rbytes(rng, n: int) -> bytes:
    return bytes(rng.randrange(256) for _ in range(n))


NAME_CHARS = 'abcdefghijklmnopqrstuvwxyzABCDEFGHIJKLMNOPQRSTUVWXYZ0123456789_-/.'


def rname(rng, lo: int = 1, hi: int = 20, chars: str = NAME_CHARS) -> str:
    return ''.join(rng.choice(chars) for _ in range(rng.randint(lo, hi)))


# ------------------------------------------------------------------------------------------------ LZMA (Source header)
def lzma_source(data: bytes, lc: int = 3, lp: int = 0, pb: int = 2, dict_size: int = 1 << 24) -> bytes:
    """lzma_header_t {id 'LZMA', actualSize, lzmaSize, properties[5]} followed by a raw LZMA1 stream."""
    filt = {'id': lzma.FILTER_LZMA1, 'dict_size': dict_size, 'lc': lc, 'lp': lp, 'pb': pb}
    comp = lzma.compress(data, lzma.FORMAT_RAW, filters=[filt])
    props = (pb * 5 + lp) * 9 + lc
    return b'LZMA' + struct.pack('<II', len(data), len(comp)) + bytes([props]) + struct.pack('<I', dict_size) + comp


def unlzma_source(data: bytes) -> bytes:
    assert data[:4] == b'LZMA'
    actual, _comp = struct.unpack_from('<II', data, 4)
    props = data[12]
    dict_size = struct.unpack_from('<I', data, 13)[0]
    lc = props % 9
    rest = props // 9
    lp, pb = rest % 5, rest // 5
    filt = {'id': lzma.FILTER_LZMA1, 'dict_size': max(dict_size, 4096), 'lc': lc, 'lp': lp, 'pb': pb}
    return lzma.LZMADecompressor(lzma.FORMAT_RAW, None, filters=[filt]).decompress(data[17:])[:actual]


# ------------------------------------------------------------------------------------------------ run-length visibility
def rle_encode(row: bytes, rng=None) -> bytes:
    """Quake-style visibility RLE: non-zero bytes literal, a zero byte is followed by a repeat count (1..255).

    With an rng, zero runs are sometimes split into several shorter runs (a legal, non-canonical encoding)."""
    out = bytearray()
    i = 0
    n = len(row)
    while i < n:
        if row[i]:
            out.append(row[i])
            i += 1
            continue
        j = i
        while j < n and row[j] == 0:
            j += 1
        run = j - i
        while run > 0:
            k = min(run, 255)
            if rng is not None and k > 1 and rng.random() < 0.2:
                k = rng.randint(1, k)
            out += bytes((0, k))
            run -= k
        i = j
    return bytes(out)


def rle_decode(data: bytes, start: int, nbytes: int) -> bytes:
    out = bytearray()
    i = start
    while len(out) < nbytes and i < len(data):
        if data[i]:
            out.append(data[i])
            i += 1
        else:
            out += bytes(data[i + 1])
            i += 2
    return bytes(out[:nbytes])


# ------------------------------------------------------------------------------------------------ lump encoders
def _s(b: str) -> bytes:
    return b.encode('ascii', 'surrogateescape')


def ent_escape(text: str) -> str:
    """The escapes the entity-lump reader documents (backslash sequences); newlines stay raw."""
    return text.replace('\\', '\\\\').replace('"', '\\"').replace('\t', '\\t')


def enc_entities(W: dict) -> bytes:
    out = []
    for ent in W['ents']:
        out.append('{\n')
        for k, v in ent['keys']:
            out.append(f'"{ent_escape(k)}" "{ent_escape(v)}"\n')
        for o in ent['outs']:
            sep = ',' if o['comma'] else '\x1b'
            name = o['out'] if o['inst_out'] is None else f'instance:{o["inst_out"]};{o["out"]}'
            inp = o['inp'] if o['inst_in'] is None else f'instance:{o["inst_in"]};{o["inp"]}'
            out.append(f'"{ent_escape(name)}" "{ent_escape(o["target"])}{sep}{ent_escape(inp)}{sep}'
                       f'{ent_escape(o["params"])}{sep}{o["delay"]:g}{sep}{o["times"]}"\n')
        out.append('}\n')
    return _s(''.join(out)) + b'\x00'


def enc_face(L: dict, f: dict) -> bytes:
    if L['kind'] == 'vitamin':
        return struct.pack(L['face'], f['plane'], f['texinfo'], f['dispinfo'], f['first_edge'], f['num_edges'], *f['lm_mins'],
                           *f['lm_size'], f['vflags'])
    nprims = f['num_prims'] | (0 if f['dyn'] else 0x8000)
    return struct.pack(
        L['face'], f['plane'], f['side'], f['on_node'], f['first_edge'], f['num_edges'], f['texinfo'], f['dispinfo'],
        f['fog'], f['styles'], f['lightofs'], f['area'], f['lm_mins'][0], f['lm_mins'][1], f['lm_size'][0], f['lm_size'][1],
        f['orig'], nprims, f['first_prim'], f['smooth'])


def enc_leaf(L: dict, lf: dict) -> bytes:
    if L['kind'] == 'vitamin':
        return struct.pack(L['leaf'], lf['contents'], lf['cluster'], lf['area'], *lf['mins'], *lf['maxs'], lf['first_face'],
                           lf['num_faces'], lf['first_brush'], lf['num_brushes'], lf['water_id'], lf['flags'])
    packed = (lf['area'] << L['leaf_area_shift']) | lf['flags']
    args = [lf['contents'], lf['cluster'], packed, *lf['mins'], *lf['maxs'], lf['first_face'], lf['num_faces'],
            lf['first_brush'], lf['num_brushes'], lf['water_id']]
    if L['leaf_ambient']:
        args.append(lf['ambient'])
    return struct.pack(L['leaf'], *args)


def enc_visibility(W: dict) -> bytes:
    vis = W['visibility']
    if vis is None:
        return b''
    n = vis['clusters']
    head = 4 + 8 * n
    body = bytearray()
    offs = []
    # identical encoded rows may share their bytes (real VVIS output does that too)
    for pvs, pas in zip(vis['pvs_enc'], vis['pas_enc']):
        po = head + len(body)
        body += pvs
        ao = head + len(body)
        body += pas
        offs.append((po, ao))
    out = struct.pack('<i', n) + b''.join(struct.pack('<ii', a, b) for a, b in offs) + bytes(body)
    return out


def enc_physcollide(W: dict) -> bytes:
    out = bytearray()
    for ph in W['phys']:
        kv = _s(ph['kv_text']) + b'\x00' * ph['kv_nuls']
        size = sum(4 + len(s) for s in ph['solids'])
        out += struct.pack('<iiii', ph['model'], size, len(kv), len(ph['solids']))
        for s in ph['solids']:
            out += struct.pack('<i', len(s)) + s
        out += kv
    out += struct.pack('<iiii', -1, -1, 0, 0)
    return bytes(out)


def enc_pak(W: dict) -> bytes:
    buf = io.BytesIO()
    with zipfile.ZipFile(buf, 'w', zipfile.ZIP_STORED) as zf:
        for name, data in W['pak']:
            info = zipfile.ZipInfo(name, (2004, 11, 16, 12, 0, 0))
            zf.writestr(info, data)
    return buf.getvalue()


def enc_sprp(W: dict) -> bytes:
    sp = W['sprp']
    L = LAYOUTS[W['layout']]
    ver = sp['version']
    out = bytearray(struct.pack('<i', len(sp['models'])))
    for m in sp['models']:
        out += struct.pack('<128s', _s(m))
    out += struct.pack('<i', len(sp['leaves']))
    for lf in sp['leaves']:
        out += struct.pack(L['sprp_leaf'], lf)
    out += struct.pack('<i', len(sp['props']))
    lightmap = ver.startswith('V_LIGHTMAP')
    num = 7 if lightmap else SPRP_VERSIONS[ver][0]
    for p in sp['props']:
        start = len(out)
        out += struct.pack('<3f3fHHHBBiff3f', *p['origin'], *p['angles'], p['model'], p['first_leaf'], p['leaf_count'],
                           p['solidity'], p['flags_byte'], p['skin'], p['min_fade'], p['max_fade'], *p['lighting'])
        if num >= 5:
            out += struct.pack('<f', p['fade_scale'])
        if num in (6, 7):
            out += struct.pack('<HH', p['min_dx'], p['max_dx'])
        if num >= 8:
            out += struct.pack('<BBBB', p['min_cpu'], p['max_cpu'], p['min_gpu'], p['max_gpu'])
        if lightmap:
            out += struct.pack('<IHH', p['flags_int'], p['lm_x'], p['lm_y'])
        if num >= 7 and ver not in ('V_LIGHTMAP_v7', 'V_LIGHTMAP_v10'):
            out += struct.pack('<BBBB', *p['tint'], p['renderfx'])
        if num >= 9 and not lightmap:
            out += struct.pack('<B3x', 1 if p['xbox'] else 0)
        if num >= 10 or ver == 'V_LIGHTMAP_MESA':
            out += struct.pack('<I', p['flags_ex'])
        if ver == 'V_CHAOS_V13':
            out += struct.pack('<fff', *p['scale3'])
        elif num >= 11:
            out += struct.pack('<f', p['scale3'][0])
        assert len(out) - start == SPRP_VERSIONS[ver][1], (ver, len(out) - start)
    return bytes(out)


def enc_dprp(W: dict) -> bytes:
    dp = W['dprp']
    out = bytearray(struct.pack('<i', len(dp['models'])))
    for m in dp['models']:
        out += struct.pack('<128s', _s(m))
    out += struct.pack('<i', len(dp['sprites']))
    for spr in dp['sprites']:
        out += struct.pack('<8f', *spr)
    out += struct.pack('<i', len(dp['props']))
    for p in dp['props']:
        # DetailObjectLump_t, 52 bytes
        out += struct.pack('<3f3fHH4BIBBBBB3xB3xf', *p['origin'], *p['angles'], p['index'], p['leaf'], *p['lighting'],
                           p['styles'], p['style_count'], p['sway'], p['shape_angle'], p['shape_size'], p['orient'],
                           p['type'], p['scale'])
    return bytes(out)


def raw_lumps(W: dict) -> Dict[int, bytes]:
    """Uncompressed bytes of every non-empty lump except GAME_LUMP."""
    L = LAYOUTS[W['layout']]
    lumps: Dict[int, bytes] = dict(W['opaque'])
    lumps[L_ENTITIES] = b'' if W.get('no_ent_lump') else enc_entities(W)
    lumps[L_PLANES] = b''.join(struct.pack('<4fi', *p['normal'], p['dist'], p['type']) for p in W['planes'])
    lumps[L_VERTEXES] = b''.join(struct.pack('<3f', *v) for v in W['vertexes'])
    lumps[L_EDGES] = b''.join(struct.pack(L['edge'], a, b) for a, b in W['edges'])
    lumps[L_SURFEDGES] = b''.join(struct.pack('<i', s) for s in W['surfedges'])
    data = bytearray()
    table = []
    for name in W['texstrings']:
        enc = _s(name) + b'\x00'
        table.append(len(data))
        data += enc
    lumps[L_TEXDATA_STRING_DATA] = bytes(data)
    lumps[L_TEXDATA_STRING_TABLE] = b''.join(struct.pack('<i', t) for t in table)
    lumps[L_TEXDATA] = b''.join(struct.pack(L['texdata'], *t['refl'], t['name'], t['w'], t['h'], *([t['w'], t['h']] if L['kind'] != 'vitamin' else []))
                                for t in W['texdata'])
    lumps[L_TEXINFO] = b''.join(struct.pack('<16fii', *t['s'], *t['t'], *t['ls'], *t['lt'], t['flags'], t['texdata'])
                                for t in W['texinfo'])
    prim = bytearray()
    pverts = bytearray()
    pinds = bytearray()
    nv = ni = 0
    runs: List[Tuple[int, int]] = []
    for p in W['primitives']:
        if p.get('same_run_as') is not None:
            # two primitives pointing at one run of PRIMINDICES / PRIMVERTS
            si, sv = runs[p['same_run_as']]
            runs.append((si, sv))
            prim += struct.pack(L['prim'], p['type'], si, len(p['indices']), sv, len(p['verts']))
            continue
        runs.append((ni, nv))
        prim += struct.pack(L['prim'], p['type'], ni, len(p['indices']), nv, len(p['verts']))
        for v in p['verts']:
            pverts += struct.pack('<3f', *v)
        for i in p['indices']:
            pinds += struct.pack(L['primindex'], i)
        nv += len(p['verts'])
        ni += len(p['indices'])
    lumps[L_PRIMITIVES], lumps[L_PRIMVERTS], lumps[L_PRIMINDICES] = bytes(prim), bytes(pverts), bytes(pinds)
    lumps[L_ORIGINALFACES] = b''.join(enc_face(L, f) for f in W['orig_faces'])
    lumps[L_FACES] = b''.join(enc_face(L, f) for f in W['faces'])
    lumps[L_FACES_HDR] = b''.join(enc_face(L, f) for f in W['hdr_faces'])
    lumps[L_FACEIDS] = b''.join(struct.pack(L['faceid'], i) for i in W['faceids'])
    lumps[L_BRUSHES] = b''.join(struct.pack('<iii', b['first_side'], b['num_sides'], b['contents']) for b in W['brushes'])
    lumps[L_BRUSHSIDES] = b''.join(struct.pack(L['brushside'], s['plane'], s['texinfo'], s['dispinfo'], s['bevel'], *([s['extra']] if L['kind'] == 'vitamin' else []))
                                   for s in W['brushsides'])
    lumps[L_LEAFS] = b''.join(enc_leaf(L, lf) for lf in W['leafs'])
    lumps[L_LEAFFACES] = b''.join(struct.pack(L['leafface'], i) for i in W['leaffaces'])
    lumps[L_LEAFBRUSHES] = b''.join(struct.pack(L['leafbrush'], i) for i in W['leafbrushes'])
    lumps[L_LEAFMINDISTTOWATER] = b''.join(struct.pack('<H', lf['mindist']) for lf in W['leafs'])
    lumps[L_LEAFWATERDATA] = b''.join(struct.pack(L['waterdata'], w['surface_z'], w['min_z'], w['texinfo'])
                                      for w in W['waterdata'])
    lumps[L_NODES] = b''.join(struct.pack(L['node'], n['plane'], n['children'][0], n['children'][1], *n['mins'], *n['maxs'],
                                          n['first_face'], n['num_faces'], n['area']) for n in W['nodes'])
    lumps[L_MODELS] = b''.join(struct.pack('<9fiii', *m['mins'], *m['maxs'], *m['origin'], m['headnode'], m['first_face'],
                                           m['num_faces']) for m in W['models'])
    lumps[L_PHYSCOLLIDE] = enc_physcollide(W)
    lumps[L_VISIBILITY] = enc_visibility(W)
    lumps[L_CUBEMAPS] = b''.join(struct.pack('<4i', *c['origin'], c['size']) for c in W['cubemaps'])
    ov = bytearray()
    for o in W['overlays']:
        faces = list(o['faces']) + [0] * (64 - len(o['faces']))
        ov += struct.pack('<ihH64i4f18f', o['id'], o['texinfo'], (o['render_order'] << 14) | len(o['faces']), *faces,
                          o['u_min'], o['u_max'], o['v_min'], o['v_max'], *o['uv1'], *o['uv2'], *o['uv3'], *o['uv4'],
                          *o['origin'], *o['normal'])
    lumps[L_OVERLAYS] = bytes(ov)
    if W['overlay_aux']:
        lumps[L_OVERLAY_FADES] = b''.join(struct.pack('<ff', o['fade_min'], o['fade_max']) for o in W['overlays'])
        lumps[L_OVERLAY_SYSTEM_LEVELS] = b''.join(struct.pack('<4B', o['min_cpu'], o['max_cpu'], o['min_gpu'], o['max_gpu'])
                                                  for o in W['overlays'])
    lumps[L_PAKFILE] = enc_pak(W)
    lumps.update(W.get('unused_view_lumps', {}))  # vitamin: lumps whose views parse to nothing on that layout
    return {k: v for k, v in lumps.items() if v}


def raw_game_lumps(W: dict) -> List[Tuple[bytes, int, int, bytes]]:
    """(id, flags, version, uncompressed bytes) in directory order."""
    out = []
    for g in W['game_lumps']:
        if g['id'] == b'sprp':
            data = enc_sprp(W)
        elif g['id'] == b'dprp':
            data = enc_dprp(W)
        else:
            data = g['data']
        out.append((g['id'], g['flags'], g['version'], data))
    return out


def build_file(W: dict) -> bytes:
    """Assemble header, lump directory, lumps (optionally LZMA), game lump directory + data."""
    L = LAYOUTS[W['layout']]
    lumps = raw_lumps(W)
    phys = W['phys_layout']
    blob = bytearray(b'\x00' * (8 + 16 * LUMP_COUNT + 4))
    entries: Dict[int, Tuple[int, int, int]] = {}  # offset, length, fourcc

    def pad() -> None:
        while len(blob) % 4:
            blob.append(0)

    for idx in phys['order']:
        if idx == L_GAME_LUMP:
            pad()
            start = len(blob)
            gls = raw_game_lumps(W)
            any_comp = any(flags & 1 for _, flags, _, _ in gls)
            n = len(gls) + (1 if any_comp else 0)
            head = 4 + 16 * n
            payloads = []
            for gid, flags, _ver, data in gls:
                payloads.append(lzma_source(data, *phys['lzma_props']) if flags & 1 else data)
            pos = start + head
            directory = bytearray(struct.pack('<i', n))
            body = bytearray()
            for k, ((gid, flags, ver, data), payload) in enumerate(zip(gls, payloads)):
                directory += struct.pack('<4sHHii', gid[::-1], flags, ver, pos, len(data))
                body += payload
                pos += len(payload)
                if k != len(gls) - 1 and phys['game_sep']:
                    body += b'\x00'
                    pos += 1
            if any_comp:
                directory += struct.pack('<4sHHii', b'\x00\x00\x00\x00', 0, 0, pos, 0)
            blob += directory + body
            entries[idx] = (start, len(blob) - start, 0)
            continue
        data = lumps.get(idx, b'')
        if not data:
            # (an empty ENTITIES lump keeps a real offset: a zero first header field is how a version-21 file says "L4D2 order")
            entries[idx] = (len(blob) if phys['empty_offsets'] or idx == L_ENTITIES else 0, 0, 0)
            continue
        if idx != L_PAKFILE:
            pad()
        if idx in W['compressed']:
            comp = lzma_source(data, *phys['lzma_props'])
            entries[idx] = (len(blob), len(comp), len(data))
            blob += comp
        else:
            entries[idx] = (len(blob), len(data), 0)
            blob += data
    struct.pack_into('<4si', blob, 0, L['magic'], L['version'])
    for idx in range(LUMP_COUNT):
        off, length, fourcc = entries[idx]
        ver = W['lump_versions'].get(idx, 0)
        if L['header'] == 'l4d2':
            struct.pack_into('<4i', blob, 8 + 16 * idx, ver, off, length, fourcc)
        else:
            struct.pack_into('<4i', blob, 8 + 16 * idx, off, length, ver, fourcc)
    struct.pack_into('<i', blob, 8 + 16 * LUMP_COUNT, W['revision'])
    return bytes(blob)


# ------------------------------------------------------------------------------------------------ world generator
ENT_VALUE_CHARS = 'abcdefghijklmnopqrstuvwxyzABCXYZ0123456789 _-./*$#@!%&()[]{}<>=+;:\'~^|'


def ent_value(rng, hostile: float = 0.3, allow_four_commas: bool = False, extra: str = '') -> str:
    """A keyvalue the entity lump can carry: no ESC, never the documented four-comma output shape."""
    n = rng.choice((0, 1, 3, 8, 20, 40))
    chars = []
    for _ in range(n):
        r = rng.random()
        if r < hostile * 0.25:
            chars.append(rng.choice('"\\\t\n' + extra))
        elif r < hostile * 0.4:
            chars.append(',')
        elif r < hostile * 0.5:
            chars.append(chr(0xDC80 + rng.randrange(128)))  # a byte >= 0x80 (surrogateescape)
        else:
            chars.append(rng.choice(ENT_VALUE_CHARS))
    text = ''.join(chars)
    if text.count(',') == 4:
        if allow_four_commas:
            text = text.rsplit(',', 1)[0] + ',q'  # last field not a number: documented to stay a keyvalue
        else:
            text = text.replace(',', ' ', 1)
    return text


def ent_key(rng, used: set) -> str:
    while True:
        k = rng.choice(('origin', 'angles', 'targetname', 'spawnflags', 'rendercolor', 'skin', 'message', 'Health',
                        'model', 'parentname', 'hammerid', '_light', 'StartDisabled')) if rng.random() < 0.6 else \
            rname(rng, 0, 10, 'abcdefXYZ012_ .#$')
        if rng.random() < 0.06:
            k += rng.choice(('"', '\\', '\t', '"q', '\\n'))   # keys are quoted strings like values: the same escapes apply
        if k.casefold() not in used and k.casefold() not in ('nodeid', 'classname'):
            used.add(k.casefold())
            return k


def gen_output(rng, comma: bool) -> dict:
    def field(empty_ok: bool = True) -> str:
        chars = 'abcdefXYZ0123 _-.*!@$' + ('' if comma else ',,')
        s = rname(rng, 0 if empty_ok else 1, 10, chars)
        if rng.random() < 0.1:
            s += rng.choice('"\\\t')
        return s
    out = rng.choice(('OnTrigger', 'OnStartTouch', 'OnUser1', 'onpressed')) if rng.random() < 0.7 else 'On' + rname(rng, 1, 6, 'abcXYZ')
    inp = rng.choice(('Kill', 'Trigger', 'FireUser1', 'SetAnimation', 'RunScriptCode'))
    return {
        'out': out, 'inst_out': rname(rng, 1, 6, 'abc_1') if rng.random() < 0.15 else None,
        'target': field(), 'inp': inp, 'inst_in': rname(rng, 1, 6, 'abc_1') if rng.random() < 0.15 else None,
        'params': field() + ('\n' + field() if rng.random() < 0.05 else ''),
        'delay': rng.choice((0.0, 0.5, 1.0, 2.25, 10.0, 0.01, 123.0, 0.125, 0.001, 1234.5, 99999.5, 1e-05)), 'times': rng.choice((-1, -1, 1, 3)),
        'comma': comma,
    }


def gen_ents(rng, n_models: int, sep: str, scale: int, xchars: str = '', four: bool = True) -> List[dict]:
    """Entity 0 is worldspawn; every brush model 1..n-1 is referenced by at least one entity as "*N"."""
    comma = sep == 'comma'
    ents = []
    used = {'classname'}
    world_keys = [('classname', 'worldspawn')]
    for _ in range(rng.randint(0, 3)):
        world_keys.append((ent_key(rng, used), ent_value(rng, allow_four_commas=four and sep != 'esc', extra=xchars)))
    if rng.random() < 0.5:
        world_keys.append(('mapversion', str(rng.randint(1, 999))))
    ents.append({'keys': world_keys, 'outs': []})
    refs = list(range(1, n_models))
    rng.shuffle(refs)
    extra = rng.randint(0, 1 + 2 * scale)
    plan: List[Optional[int]] = refs + [None] * extra
    if refs and rng.random() < 0.3:
        plan.append(rng.choice(refs))  # two entities sharing one brush model
    rng.shuffle(plan)
    for ref in plan:
        used = {'classname', 'model'} if ref is not None else {'classname'}
        keys = []
        if rng.random() < 0.95:
            keys.append(('classname', rng.choice(('func_brush', 'info_target', 'trigger_multiple', 'prop_dynamic', 'light'))))
        for _ in range(rng.randint(0, 4)):
            k = ent_key(rng, used)
            v = ent_value(rng, allow_four_commas=four and sep != 'esc', extra=xchars)
            if k.casefold() == 'model' and v.startswith('*'):
                v = 'models/' + v[1:]
            keys.append((k, v))
        if ref is not None:
            keys.insert(rng.randint(0, len(keys)), ('model', f'*{ref}'))
        outs = []
        if sep != 'none':
            for _ in range(rng.choice((0, 0, 1, 2, 3))):
                outs.append(gen_output(rng, comma))
        ents.append({'keys': keys, 'outs': outs})
    return ents


def gen_face(rng, L: dict, W: dict, orig: int) -> dict:
    ns = len(W['surfedges'])
    first_edge = rng.randint(0, ns)
    num_edges = rng.randint(0, min(6, ns - first_edge))
    npr = len(W['primitives'])
    first_prim = rng.randint(0, npr)
    num_prims = rng.randint(0, min(2, npr - first_prim)) if rng.random() < 0.6 else 0
    return {
        'plane': rng.randrange(len(W['planes'])), 'side': rng.random() < 0.5, 'on_node': rng.random() < 0.5,
        'first_edge': first_edge, 'num_edges': num_edges, 'texinfo': rng.randrange(len(W['texinfo'])),
        'dispinfo': rng.choice((-1, -1, 0, 3)), 'fog': rng.choice((-1, 0, 7)), 'styles': rbytes(rng, 4),
        'lightofs': rng.choice((-1, 0, 1024, 123456)), 'area': abs(rfloat(rng)),
        'lm_mins': [rng.randint(-100, 100), rng.randint(-100, 100)], 'lm_size': [rng.randint(0, 64), rng.randint(0, 64)],
        'orig': orig, 'num_prims': num_prims, 'first_prim': first_prim, 'dyn': rng.random() < 0.5,
        'smooth': rng.choice((0, 1, 0xFFFFFFFF, rng.getrandbits(32))),
    }


def gen_world(rng, layout: str, **opt: Any) -> dict:
    """Build a small, internally consistent world.  Options (all optional, else drawn from rng):
    scale 0..3, sep 'comma'|'esc'|'none', hdr 'same'|'none'|'diff', faceids 'full'|'empty', zero_vertex bool,
    lzma bool, lzma_game bool, sprp <version name>, vis 'none'|'small'|'wide', frac_bounds bool (chaos only),
    dups bool (a good share of the entries of every table become exact copies of an earlier entry, see apply_dups)."""
    L = LAYOUTS[layout]
    scale = opt.get('scale', rng.choice((0, 1, 1, 2, 2, 3)))
    W: Dict[str, Any] = {'layout': layout, 'version': L['version'], 'revision': rng.randint(0, 100000)}
    wide = layout == 'chaos'

    def cnt(lo: int, per: int) -> int:
        return rng.randint(lo, lo + per * scale)

    # geometry tables
    W['planes'] = [{'normal': rvec(rng), 'dist': rfloat(rng), 'type': rng.randrange(6)} for _ in range(cnt(1, 3))]
    verts = [rvec(rng) for _ in range(cnt(1, 4))]
    zero_vertex = opt.get('zero_vertex', rng.random() < 0.7)
    verts = [v if any(abs(c) > 1e-5 for c in v) else [1.0, 2.0, 3.0] for v in verts]
    zpos = 0
    if zero_vertex:
        zpos = rng.randrange(len(verts) + 1)
        verts.insert(zpos, [0.0, 0.0, 0.0])
    if opt.get('zero_signs', rng.random() < 0.5):
        # both signs of zero in positions that are otherwise equal (-0.0 == 0.0 and they hash alike, yet they are different
        # float32 values on disk)
        y, z = rfloat(rng), rfloat(rng)
        pair = [[-0.0, y, z], [0.0, y, z]]
        if rng.random() < 0.5:
            pair.reverse()
        verts.extend(pair)
        W['zero_signs'] = True
    W['vertexes'] = verts
    W['zero_vertex'] = zero_vertex
    n_edges = cnt(0, 4)
    W['edges'] = [(zpos, zpos)] + [(rng.randrange(len(verts)), rng.randrange(len(verts))) for _ in range(n_edges)]
    surf: List[int] = []
    if n_edges:
        for e in range(1, n_edges + 1):
            if rng.random() < 0.9:
                surf.append(e if rng.random() < 0.6 else -e)
        for _ in range(cnt(0, 3)):
            e = rng.randint(1, n_edges)
            surf.insert(rng.randint(0, len(surf)), e if rng.random() < 0.5 else -e)
    W['surfedges'] = surf
    # textures
    names: List[str] = []
    seen = set()
    while len(names) < cnt(1, 2):
        nm = rname(rng, 1, rng.choice((8, 30, 127)))
        if rng.random() < 0.1:
            nm = nm[:-1] + chr(0xDC80 + rng.randrange(128))
        if nm.casefold() not in seen:
            seen.add(nm.casefold())
            names.append(nm)
    # boundary classes chosen from what is already drawn (no extra rng draws, so every other world stays byte-identical):
    # a texture name of exactly 127 / 126 characters (the longest that fits the 128-byte buffer with its terminator)
    _h = sum(map(ord, names[0])) + len(names)
    if _h % 6 == 0 and all(ord(c) < 0xDC80 for c in names[0]):
        want_len = 127 if _h % 12 == 0 else 126
        padded = (names[0] * (want_len // len(names[0]) + 1))[:want_len]
        if padded.casefold() not in seen:
            seen.add(padded.casefold())
            names[0] = padded
    W['texstrings'] = names
    W['texdata'] = [{'refl': [abs(rfloat(rng, False)) for _ in range(3)], 'name': rng.randrange(len(names)),
                     'w': rng.choice((16, 64, 512, 1024)), 'h': rng.choice((16, 64, 512, 2048))} for _ in range(cnt(1, 2))]
    W['texinfo'] = [{'s': rvec(rng) + [rfloat(rng)], 't': rvec(rng) + [rfloat(rng)], 'ls': rvec(rng) + [rfloat(rng)],
                     'lt': rvec(rng) + [rfloat(rng)], 'flags': rng.choice((0, 0x80, 0x2400, rng.getrandbits(31))),
                     'texdata': rng.randrange(len(W['texdata']))} for _ in range(cnt(1, 3))]
    imax = 0xFFFFFFFF if wide else 0xFFFF
    vit = L['kind'] == 'vitamin'
    W['primitives'] = [] if vit else [{'type': rng.randrange(2), 'indices': [rng.choice((0, 1, 5, imax, rng.randrange(imax))) for _ in range(rng.randint(0, 5))],
                        'verts': [rvec(rng) for _ in range(rng.randint(0, 3))]} for _ in range(cnt(0, 2))]
    if W.get('zero_signs') and W['primitives']:
        y, z = rfloat(rng), rfloat(rng)
        W['primitives'][rng.randrange(len(W['primitives']))]['verts'].extend([[0.0, y, z], [-0.0, y, z], list(W['vertexes'][-1])])
    # faces
    n_orig = 0 if vit else cnt(0, 3)
    W['orig_faces'] = [gen_face(rng, L, W, -1) for _ in range(n_orig)]
    n_faces = cnt(1, 4) if n_orig else 0
    W['faces'] = [gen_face(rng, L, W, rng.randrange(n_orig)) for _ in range(n_faces)]
    if vit:
        # no original faces, sides, fog, styles, light offsets, areas, primitives or smoothing groups on this layout:
        # those fields carry what the reader documents assigning; a flags byte is added
        n_faces = cnt(0, 4)
        W['faces'] = [dict(gen_face(rng, L, W, -1), side=False, on_node=False, fog=0, styles=bytes(4), lightofs=0, area=0.0,
                           num_prims=0, first_prim=0, dyn=False, smooth=0, vflags=rng.choice((0, 1, 0x80, rng.randrange(256))))
                      for _ in range(n_faces)]
    hdr = opt.get('hdr', rng.choice(('same', 'same', 'none', 'diff'))) if not vit else 'none'
    if not n_faces:
        hdr = 'none'
    if hdr == 'same':
        W['hdr_faces'] = [dict(f, lightofs=rng.choice((-1, 2048, 99))) for f in W['faces']]
    elif hdr == 'diff':
        n_hdr = rng.choice([k for k in range(1, n_faces + 3) if k != n_faces])
        W['hdr_faces'] = [gen_face(rng, L, W, rng.randrange(n_orig)) for _ in range(n_hdr)]
    else:
        W['hdr_faces'] = []
    W['hdr_mode'] = hdr
    faceids = opt.get('faceids', 'full' if rng.random() < 0.8 else 'empty')
    W['faceids'] = [rng.randrange(1, imax) for _ in range(n_faces)] if faceids == 'full' else []
    # boundary class: Hammer face ID 0 is a value of its own, not "no ID" (all zero, or zero for every other face)
    if W['faceids'] and 'faceids' not in opt:
        if _h % 10 == 3:
            W['faceids'] = [0] * n_faces
        elif _h % 10 == 7:
            W['faceids'] = [0 if i % 2 == 0 else v for i, v in enumerate(W['faceids'])]
    # brushes: each brush owns a consecutive run of sides
    sides: List[dict] = []
    brushes = []
    for _ in range(cnt(0, 3)):
        k = rng.randint(0, 4)
        brushes.append({'first_side': len(sides), 'num_sides': k,
                        'contents': rng.choice((0, 1, 0x20, 0x8000001, rng.getrandbits(31)))})
        for _ in range(k):
            sides.append({'plane': rng.randrange(len(W['planes'])), 'texinfo': rng.randrange(len(W['texinfo'])),
                          'dispinfo': rng.choice((0, 0, 1)), 'bevel': rng.choice((0, 1, 0, 1, 0x100, 0x301))})
            if vit:  # bevel flag and the extra byte are separate fields
                sides[-1].update(bevel=rng.randrange(2), extra=rng.choice((0, 0, 1, 255)))
    W['brushes'], W['brushsides'] = brushes, sides
    # leafs
    W['waterdata'] = [{'surface_z': rfloat(rng), 'min_z': rfloat(rng), 'texinfo': rng.randrange(len(W['texinfo']))}
                      for _ in range(cnt(0, 2))]
    frac = bool(opt.get('frac_bounds', rng.random() < 0.6)) and L['float_bounds']
    W['frac_bounds'] = frac

    def bound() -> Any:
        if frac:
            return rng.randint(-20000, 20000) / 8.0
        v = rng.randint(-16384, 16384)
        return float(v) if L['float_bounds'] else v

    def leaf_bound() -> Any:
        # the vitamin leaf stores its bounds as unsigned integers
        return rng.randint(0, 40000) if vit else bound()
    leafs = []
    leaffaces: List[int] = []
    leafbrushes: List[int] = []
    for _ in range(cnt(1, 3)):
        nf = rng.randint(0, min(3, n_faces))
        nb = rng.randint(0, min(2, len(brushes)))
        lf = {'contents': rng.choice((0, 1, 0x20, rng.getrandbits(31))), 'cluster': rng.choice((-1, 0, 1, 5)),
              'area': rng.randrange(256), 'flags': rng.randrange(128), 'mins': [leaf_bound() for _ in range(3)],
              'maxs': [leaf_bound() for _ in range(3)], 'first_face': len(leaffaces), 'num_faces': nf,
              'first_brush': len(leafbrushes), 'num_brushes': nb,
              'water_id': rng.randrange(len(W['waterdata'])) if W['waterdata'] and rng.random() < 0.5 else -1,
              'ambient': rbytes(rng, 24) if L['leaf_ambient'] else bytes(24), 'mindist': rng.choice((0, 65535, rng.randrange(65536)))}
        leaffaces += [rng.randrange(n_faces) for _ in range(nf)]
        leafbrushes += [rng.randrange(len(brushes)) for _ in range(nb)]
        leafs.append(lf)
    W['leafs'], W['leaffaces'], W['leafbrushes'] = leafs, leaffaces, leafbrushes
    # nodes + models: each model owns a small tree whose children point forward (acyclic)
    n_models = cnt(1, 1)
    nodes: List[dict] = []
    models = []
    for _ in range(n_models):
        head = len(nodes)
        k = rng.randint(1, 1 + scale)
        for j in range(k):
            kids = []
            for _side in range(2):
                later = list(range(head + j + 1, head + k))
                if later and rng.random() < 0.6:
                    kids.append(rng.choice(later))
                else:
                    kids.append(-1 - rng.randrange(len(leafs)))
            ff = rng.randint(0, n_faces)
            nodes.append({'plane': rng.randrange(len(W['planes'])), 'children': kids, 'mins': [bound() for _ in range(3)],
                          'maxs': [bound() for _ in range(3)], 'first_face': ff, 'num_faces': rng.randint(0, min(3, n_faces - ff)),
                          'area': rng.choice((0, 0, 1, 255))})
        ff = rng.randint(0, n_faces)
        models.append({'mins': rvec(rng), 'maxs': rvec(rng), 'origin': rvec(rng), 'headnode': head, 'first_face': ff,
                       'num_faces': rng.randint(0, n_faces - ff)})
    W['nodes'], W['models'] = nodes, models
    W['phys'] = []
    for m in range(n_models):
        if rng.random() < 0.6:
            solids = [rbytes(rng, rng.choice((0, 1, 16, 40))) for _ in range(rng.randint(0, 2))]
            tree = []
            for si in range(len(solids)):
                tree.append(('solid', [('index', str(si)), ('mass', f'{rng.randint(1, 500)}.0'),
                                       ('surfaceprop', rng.choice(('default', 'metal', 'wood_crate')))]))
            if rng.random() < 0.3:
                tree.append(('materialtable', [(rng.choice(('default', 'glass', 'brick')), str(i)) for i in range(rng.randint(0, 3))]))
            W['phys'].append({'model': m, 'solids': solids, 'kv_tree': tree, 'kv_text': kv_text(tree, rng),
                              'kv_nuls': rng.choice((1, 1, 2))})
    # visibility
    vis = opt.get('vis', rng.choice(('none', 'small', 'small', 'wide' if scale >= 3 else 'small')))
    W['visibility'] = gen_vis(rng, vis, opt.get('vis_clusters'))
    W['cubemaps'] = [{'origin': [rng.randint(-16000, 16000) for _ in range(3)], 'size': rng.randrange(0, 9)} for _ in range(cnt(0, 2))]
    W['overlays'] = [{'id': rng.randint(0, 99999), 'texinfo': rng.randrange(len(W['texinfo'])),
                      'faces': [rng.randint(0, 70000) for _ in range(rng.choice((0, 1, 3, 64)))], 'render_order': rng.randrange(4),
                      'u_min': rfloat(rng), 'u_max': rfloat(rng), 'v_min': rfloat(rng), 'v_max': rfloat(rng),
                      'uv1': rvec(rng), 'uv2': rvec(rng), 'uv3': rvec(rng), 'uv4': rvec(rng), 'origin': rvec(rng),
                      'normal': rvec(rng), 'fade_min': rfloat(rng), 'fade_max': rfloat(rng), 'min_cpu': rng.randrange(4),
                      'max_cpu': rng.randrange(4), 'min_gpu': rng.randrange(4), 'max_gpu': rng.choice((0, 3, 254))}
                     for _ in range(cnt(0, 2))]
    W['overlay_aux'] = rng.random() < 0.8
    if not W['overlay_aux']:
        for o in W['overlays']:  # what the reader documents for missing auxiliary lumps
            o.update(fade_min=-1.0, fade_max=0.0, min_cpu=0, max_cpu=0, min_gpu=0, max_gpu=0)
    sep = opt.get('sep', rng.choice(('comma', 'esc', 'esc', 'none')))
    W['sep'] = sep
    W['ents'] = gen_ents(rng, n_models, sep, scale, opt.get('ent_extra', ''), opt.get('four_commas', True))
    W['pak'] = [(rname(rng, 1, 12, 'abcdef/_') + rng.choice(('.vmt', '.txt', '.vtf')), rbytes(rng, rng.choice((0, 5, 100, 700))))
                for _ in range(cnt(0, 2))]
    seen_names = set()
    W['pak'] = [(n, d) for n, d in W['pak'] if not (n in seen_names or seen_names.add(n))]
    # game lumps
    ver = opt.get('sprp') or rng.choice(sprp_versions_for(layout))
    n_sprp = cnt(0, 3) if 'sprp_props' not in opt else opt['sprp_props']
    if n_sprp == 0 and 'sprp_props' in opt and ver.startswith('V_LIGHTMAP'):
        n_sprp = 1   # an EMPTY lump cannot say which variant of its version number it is: only the standard layouts may be empty
    W['sprp'] = gen_sprp(rng, ver, len(leafs), n_sprp, wide)
    W['dprp'] = gen_dprp(rng, cnt(0, 4), len(leafs))
    lz_game = opt.get('lzma_game', rng.random() < 0.35)
    gl = [{'id': b'sprp', 'flags': (1 if lz_game and rng.random() < 0.7 else 0) | rng.choice((0, 0, 0x2, 0x8000)),
           'version': SPRP_VERSIONS[ver][0]},
          {'id': b'dprp', 'flags': (1 if lz_game and rng.random() < 0.7 else 0), 'version': 4}]
    for _ in range(rng.choice((0, 0, 1, 2))):
        gid = _s(rname(rng, 4, 4, 'abcdxyz_'))
        if gid not in (g['id'] for g in gl):
            gl.append({'id': gid, 'flags': (1 if lz_game and rng.random() < 0.5 else 0) | rng.choice((0, 0x4)),
                       'version': rng.randrange(5), 'data': rbytes(rng, rng.choice((0, 1, 33, 400)))})
    rng.shuffle(gl)
    W['game_lumps'] = gl
    # opaque lumps, versions, compression, physical layout
    W['opaque'] = {}
    for idx in OPAQUE_LUMPS:
        if rng.random() < 0.3:
            W['opaque'][idx] = rbytes(rng, rng.choice((1, 4, 64, 300))) if rng.random() < 0.7 else bytes(rng.choice((16, 200)))
    # a large, highly compressible opaque lump whose second half refers back further than its compressed length
    # (long-distance LZMA matches: a decoder window smaller than the declared dictionary cannot reproduce it)
    big = None
    if opt.get('big_lzma', rng.random() < 0.3):
        blk = rbytes(rng, rng.choice((5000, 9000)))
        big = L_LIGHTING
        W['opaque'][big] = blk + bytes(rng.choice((20000, 70000))) + blk + rbytes(rng, 100)
    W['lump_versions'] = {idx: rng.choice((1, 1, 2, 3, 20)) for idx in range(LUMP_COUNT) if rng.random() < 0.25}
    W['lump_versions'].pop(L_GAME_LUMP, None)  # documented by the writer: always version 0
    if L['header'] == 'l4d2':
        W['lump_versions'].pop(L_ENTITIES, None)  # the L4D2 header order is detected by a zero first field
    W['compressed'] = set()
    if opt.get('lzma', rng.random() < 0.4):
        candidates = [i for i in range(LUMP_COUNT) if i not in (L_GAME_LUMP, L_PAKFILE)]
        W['compressed'] = {i for i in candidates if rng.random() < opt.get('lzma_share', 0.1)}
        if big is not None:
            W['compressed'].add(big)
    order = list(range(LUMP_COUNT))
    if rng.random() < 0.5:
        rng.shuffle(order)
    W['phys_layout'] = {'order': order, 'empty_offsets': rng.random() < 0.5, 'game_sep': rng.random() < 0.7,
                        'lzma_props': rng.choice(((3, 0, 2, 1 << 24), (3, 0, 2, 1 << 16), (0, 2, 1, 1 << 20), (4, 0, 0, 4096)))}
    if vit and opt.get('unused_view_lumps', False):
        # lumps whose views parse to nothing on this layout, but which the format does not forbid to hold data
        W['unused_view_lumps'] = {idx: rbytes(rng, rng.choice((8, 40, 112))) for idx in
                                  (L_ORIGINALFACES, L_FACES_HDR, L_PRIMITIVES, L_PRIMVERTS, L_PRIMINDICES) if rng.random() < 0.7}
    if opt.get('dups', False):
        W['_names_before_dups'] = list(W['texstrings'])
        apply_dups(rng, W, L)
    # a compressed lump must be non-empty to be marked as such in the directory
    present = raw_lumps(W)
    W['compressed'] = {i for i in W['compressed'] if present.get(i)}
    return W


def apply_dups(rng, W: dict, L: dict) -> None:
    """Make many table entries exact copies of an earlier entry of the same table (also at non-adjacent indexes), and
    let index runs be shared, nested (prefix / suffix) or repeated.  All cross references stay valid; list lengths only
    grow.  The de-duplicating index builders of the writers (find_or_insert / find_or_extend, the texture-name table,
    the model-name and sprite dictionaries) see equal-but-distinct entries, which a fresh random draw never produces."""
    import copy
    stats: Dict[str, int] = {}

    def note(what: str, n: int = 1) -> None:
        stats[what] = stats.get(what, 0) + n

    def copy_over(name: str, lst: list, lo: int = 0, frac: float = 0.45, keep: Tuple[int, ...] = ()) -> List[Tuple[int, int]]:
        done = []
        for k in range(lo + 1, len(lst)):
            if k in keep or rng.random() >= frac:
                continue
            j = rng.randrange(lo, k)
            lst[k] = copy.deepcopy(lst[j])
            done.append((k, j))
            note(name)
        return done

    copy_over('planes', W['planes'])
    zero = W['edges'][0][0]
    copy_over('vertexes', W['vertexes'], keep=(zero,))
    for k in range(2, len(W['edges'])):  # edge 0 is the unused dummy
        r = rng.random()
        j = rng.randrange(1, k)
        if r < 0.3:
            W['edges'][k] = W['edges'][j]
            note('edges_equal')
        elif r < 0.55:
            W['edges'][k] = (W['edges'][j][1], W['edges'][j][0])
            note('edges_reversed')
    # texture names: exact duplicates and duplicates up to letter case; several texdata on one material
    names = W['texstrings']
    for _ in range(rng.randint(1, 3)):
        src = rng.choice(names)
        if rng.random() < 0.5 or src.swapcase() == src or len(src) >= 127:
            names.insert(rng.randint(0, len(names)), src)
            note('texture_names_equal')
        else:
            names.append(src.swapcase())
            note('texture_names_case_variant')
    # re-aim the texdata entries (the insertions above moved indexes): by name, and onto the LAST member of a class of
    # names that differ in letter case only - the table is documented case-insensitive, so which spelling a material
    # reads back with is only defined for that member (generator restriction)
    old_names = W.pop('_names_before_dups')
    for td in W['texdata']:
        want = old_names[td['name']]
        cls = [i for i, n in enumerate(names) if n.casefold() == want.casefold()]
        exact = [i for i in cls if names[i] == want]
        td['name'] = cls[-1] if any(names[i] != want for i in cls) else rng.choice(exact)
    for k, j in copy_over('texdata', W['texdata']):
        if rng.random() < 0.5:  # same material, different numbers
            W['texdata'][k]['refl'] = [abs(rfloat(rng, False)) for _ in range(3)]
            note('texdata_same_material')
    copy_over('texinfo', W['texinfo'])
    for k in range(1, len(W['primitives'])):
        r = rng.random()
        j = rng.randrange(k)
        if W['primitives'][j].get('same_run_as') is not None:
            continue
        if r < 0.3:
            W['primitives'][k] = dict(copy.deepcopy(W['primitives'][j]), same_run_as=j)
            note('primitives_shared_run')
        elif r < 0.5:
            W['primitives'][k] = copy.deepcopy(W['primitives'][j])
            note('primitives_equal')
    copy_over('orig_faces', W['orig_faces'])
    pairs = copy_over('faces', W['faces'])
    if len(W['hdr_faces']) == len(W['faces']):
        for k, j in pairs:
            W['hdr_faces'][k] = copy.deepcopy(W['hdr_faces'][j])
    else:
        copy_over('hdr_faces', W['hdr_faces'])
    # brushes: the same run of sides, an equal run stored twice, a run nested in another one
    sides, brushes = W['brushsides'], W['brushes']
    for k in range(1, len(brushes)):
        r = rng.random()
        bj = brushes[rng.randrange(k)]
        bk = brushes[k]
        if r < 0.2:
            bk['first_side'], bk['num_sides'] = bj['first_side'], bj['num_sides']
            note('brushes_same_run')
        elif r < 0.45 and bj['num_sides'] and bk['num_sides']:
            n = min(bj['num_sides'], bk['num_sides'])
            for i in range(n):
                sides[bk['first_side'] + i] = dict(sides[bj['first_side'] + i])
            bk['num_sides'] = n
            note('brushes_equal_sides')
        elif r < 0.6 and bj['num_sides'] >= 2:
            off = rng.randint(0, 1)
            bk['first_side'], bk['num_sides'] = bj['first_side'] + off, bj['num_sides'] - 1
            note('brushes_nested_run')
        if rng.random() < 0.3:
            bk['contents'] = bj['contents']
    copy_over('waterdata', W['waterdata'])
    leafs = W['leafs']
    for k in range(1, len(leafs)):
        r = rng.random()
        lj, lk = leafs[rng.randrange(k)], leafs[k]
        if r < 0.2:
            leafs[k] = dict(lj)
            note('leafs_equal')
        elif r < 0.5:
            for first, num in (('first_face', 'num_faces'), ('first_brush', 'num_brushes')):
                if lj[num] >= 2 and rng.random() < 0.6:
                    off = rng.randint(0, 1)  # 0: prefix of the other run, 1: suffix
                    lk[first], lk[num] = lj[first] + off, lj[num] - 1
                    note('leaf_runs_nested')
                else:
                    lk[first], lk[num] = lj[first], lj[num]
                    note('leaf_runs_shared')
    # repeated entries inside the index arrays themselves
    for arr, what in ((W['leaffaces'], 'leaffaces_repeated'), (W['leafbrushes'], 'leafbrushes_repeated')):
        for k in range(1, len(arr)):
            if rng.random() < 0.3:
                arr[k] = arr[k - 1]
                note(what)
    nodes = W['nodes']
    heads = {m['headnode'] for m in W['models']}
    for k in range(1, len(nodes)):
        j = rng.randrange(k)
        if rng.random() < 0.3 and all(c < 0 for c in nodes[j]['children']) and k not in heads:
            nodes[k] = copy.deepcopy(nodes[j])
            note('nodes_equal')
    copy_over('cubemaps', W['cubemaps'])
    copy_over('overlays', W['overlays'])
    for o in W['overlays']:
        if o['faces'] and rng.random() < 0.4:
            o['faces'] = [o['faces'][0]] * len(o['faces'])
            note('overlay_faces_repeated')
    # entities that are exact copies (never worldspawn)
    ents = W['ents']
    for k in range(2, len(ents)):
        if rng.random() < 0.4:
            ents[k] = copy.deepcopy(ents[rng.randrange(1, k)])
            note('ents_equal')
    if len(ents) >= 2 and rng.random() < 0.7:
        ents.insert(rng.randint(1, len(ents)), copy.deepcopy(ents[rng.randrange(1, len(ents))]))
        note('ents_equal')
    # a brush model may have lost its only reference through the copies above: restore it
    refs = {int(v[1:]) for e in ents[1:] for k_, v in e['keys'] if k_.casefold() == 'model' and v.startswith('*')}
    for m in range(1, len(W['models'])):
        if m not in refs:
            ents.append({'keys': [('classname', 'func_brush'), ('model', f'*{m}')], 'outs': []})
    # static props: model names stored twice, equal props, shared and repeated leaf runs
    sp = W['sprp']
    if sp['props']:
        for _ in range(rng.randint(1, 2)):
            sp['models'].append(rng.choice(sp['models']))
            note('sprp_model_names_equal')
        if rng.random() < 0.6:  # the dictionary stores the strings as given: a spelling in another case is another entry
            sp['models'].append(rng.choice(sp['models']).swapcase())
            sp['props'][rng.randrange(len(sp['props']))]['model'] = len(sp['models']) - 1
            note('sprp_model_names_case_variant')
        for p in sp['props']:
            if rng.random() < 0.5:
                same = [i for i, n in enumerate(sp['models']) if n == sp['models'][p['model']]]
                p['model'] = rng.choice(same)
        for k in range(1, len(sp['props'])):
            r = rng.random()
            pj = sp['props'][rng.randrange(k)]
            if r < 0.3:
                sp['props'][k] = copy.deepcopy(pj)
                note('sprp_props_equal')
            elif r < 0.5:
                sp['props'][k]['first_leaf'], sp['props'][k]['leaf_count'] = pj['first_leaf'], pj['leaf_count']
                note('sprp_leaf_run_shared')
            elif r < 0.7:
                run = sp['leaves'][pj['first_leaf']:pj['first_leaf'] + pj['leaf_count']]
                sp['props'][k]['first_leaf'], sp['props'][k]['leaf_count'] = len(sp['leaves']), len(run)
                sp['leaves'] += run
                sp['props'][k]['model'] = pj['model']
                note('sprp_leaf_run_repeated')
    dp = W['dprp']
    if dp['props']:
        if dp['models']:
            dp['models'].append(rng.choice(dp['models']))
            note('dprp_model_names_equal')
            if rng.random() < 0.6:
                dp['models'].append(rng.choice(dp['models']).swapcase())
                for p in dp['props']:
                    if p['type'] == 0 and rng.random() < 0.5:
                        p['index'] = len(dp['models']) - 1
                note('dprp_model_names_case_variant')
        if dp['sprites']:
            dp['sprites'].append(list(rng.choice(dp['sprites'])))
            note('dprp_sprites_equal')
        for p in dp['props']:
            table = dp['models'] if p['type'] == 0 else dp['sprites']
            if rng.random() < 0.5:
                p['index'] = rng.choice([i for i, x in enumerate(table) if x == table[p['index']]])
        copy_over('dprp_props', dp['props'])
    vis = W['visibility']
    if vis is not None and vis['clusters'] >= 2:
        for name in ('pvs', 'pas'):
            for k in range(1, vis['clusters']):
                if rng.random() < 0.5:
                    j = rng.randrange(k)
                    vis[name][k], vis[name + '_enc'][k] = vis[name][j], vis[name + '_enc'][j]
                    note('visibility_rows_equal')
    W['dups'] = stats


def kv_text(tree: list, rng) -> str:
    """KeyValues1 text of a two-level tree, in one of several whitespace styles."""
    style = rng.randrange(3)  # one pair per line: the library's KV1 parser rejects several pairs on a line
    out = []
    for name, kids in tree:
        if style == 0:
            out.append(f'{name} {{\n' + ''.join(f'"{k}" "{v}"\n' for k, v in kids) + '}\n')
        elif style == 1:
            out.append(f'"{name}"\n{{\n' + ''.join(f'\t"{k}"\t"{v}"\n' for k, v in kids) + '}\n')
        else:
            out.append(f'{name}\r\n{{\r\n' + ''.join(f'  {k} "{v}"\r\n' for k, v in kids) + '}\r\n')
    return ''.join(out)


def gen_vis(rng, mode: str, clusters: Optional[int] = None) -> Optional[dict]:
    if mode == 'none':
        return None
    if clusters is None:
        # (wide: rows of 257 .. 775 bytes - a zero run of 255 bytes fills one run-length section, 510 and 765 fill two and three)
        clusters = rng.choice((0, 1, 7, 8, 9, 20)) if mode == 'small' else rng.choice((2100, 2050, 4100, 6200))
    nbytes = (clusters + 7) // 8

    def row() -> bytes:
        b = bytearray(nbytes)
        style = rng.randrange(4)
        if style == 0:
            pass
        elif style == 1:
            for i in range(nbytes):
                b[i] = rng.randrange(256)
        else:
            i = 0
            while i < nbytes:
                if rng.random() < 0.5:
                    i += rng.choice([1, 2, 3] + [x for x in (254, 255, 256, 257, 509, 510, 511, 512, 764, 765, 766) if x < nbytes]) if nbytes > 250 else rng.randint(1, 4)
                else:
                    for _ in range(rng.randint(1, 3)):
                        if i < nbytes:
                            b[i] = rng.randrange(1, 256)
                            i += 1
        return bytes(b)
    distinct = [row() for _ in range(min(clusters, 6))]
    pvs = [rng.choice(distinct) for _ in range(clusters)]
    pas = [rng.choice(distinct) for _ in range(clusters)]
    cache: Dict[bytes, bytes] = {}

    def enc(r: bytes) -> bytes:
        if r not in cache:
            cache[r] = rle_encode(r, rng)
        return cache[r]
    return {'clusters': clusters, 'pvs': pvs, 'pas': pas, 'pvs_enc': [enc(r) for r in pvs], 'pas_enc': [enc(r) for r in pas]}


def gen_sprp(rng, ver: str, n_leafs: int, n_props: int, wide: bool) -> dict:
    models = []
    while len(models) < (rng.randint(1, 3) if n_props else rng.randint(0, 1)):
        m = 'models/' + rname(rng, 1, rng.choice((10, 40, 116))) + '.mdl'
        if m not in models:
            models.append(m)
    leaves: List[int] = []
    props = []
    lightmap = ver.startswith('V_LIGHTMAP')
    num = 7 if lightmap else SPRP_VERSIONS[ver][0]
    for _ in range(n_props):
        mine_ = sorted(rng.sample(range(n_leafs), rng.randint(0, min(3, n_leafs))))
        p = {'origin': rvec(rng), 'angles': rangle(rng), 'model': rng.randrange(len(models)), 'first_leaf': len(leaves),
             'leaf_count': len(mine_), 'solidity': rng.choice((0, 2, 6)), 'flags_byte': rng.randrange(256),
             'skin': rng.choice((0, 1, -1, 7)), 'min_fade': rfloat(rng), 'max_fade': rfloat(rng), 'lighting': rvec(rng),
             'fade_scale': rfloat(rng), 'min_dx': rng.choice((0, 80, 95)), 'max_dx': rng.choice((0, 90, 65535)),
             'min_cpu': rng.randrange(4), 'max_cpu': rng.randrange(256), 'min_gpu': rng.randrange(4), 'max_gpu': rng.randrange(256),
             'flags_int': rng.choice((0, 1, 0x104, rng.getrandbits(24))), 'lm_x': rng.choice((32, 4, 1024)),
             'lm_y': rng.choice((32, 8, 65535)), 'tint': [rng.randrange(256) for _ in range(3)], 'renderfx': rng.randrange(256),
             'xbox': rng.random() < 0.5, 'flags_ex': rng.choice((0, 1, 4, rng.getrandbits(24))),
             'scale3': [f32(abs(rfloat(rng)) + 0.25) for _ in range(3)]}
        leaves += mine_
        props.append(p)
    return {'version': ver, 'models': models, 'leaves': leaves, 'props': props, 'num': num}


def gen_dprp(rng, n_props: int, n_leafs: int) -> dict:
    models = ['models/detail/' + rname(rng, 1, 12) + '.mdl' for _ in range(rng.randint(1, 2))] if n_props else []
    models = list(dict.fromkeys(models))
    sprites = []
    while len(sprites) < (rng.randint(1, 3) if n_props else 0):
        s = tuple(rfloat(rng, False) for _ in range(8))
        if s not in sprites:
            sprites.append(s)
    props = []
    for _ in range(n_props):
        typ = rng.randrange(4)
        p = {'origin': rvec(rng), 'angles': rangle(rng), 'type': typ, 'leaf': rng.randrange(max(1, n_leafs)),
             'lighting': [rng.randrange(256) for _ in range(4)], 'styles': rng.getrandbits(32), 'style_count': rng.randrange(5),
             'sway': rng.randrange(256), 'orient': rng.randrange(3)}
        if typ == 0:
            p.update(index=rng.randrange(len(models)), scale=1.0, shape_angle=0, shape_size=1)
        elif typ == 1:
            p.update(index=rng.randrange(len(sprites)), scale=f32(abs(rfloat(rng)) + 0.5), shape_angle=0, shape_size=1)
        else:
            p.update(index=rng.randrange(len(sprites)), scale=f32(abs(rfloat(rng)) + 0.5), shape_angle=rng.randrange(256),
                     shape_size=rng.randrange(256))
        props.append(p)
    return {'models': models, 'sprites': [list(s) for s in sprites], 'props': props}


# ------------------------------------------------------------------------------------------------ canonical content
def _surf_pairs(W: dict) -> List[list]:
    """[a_vertex, b_vertex, reversed?, number of the underlying edge by first appearance]."""
    out = []
    numbering: Dict[int, int] = {}
    for s in W['surfedges']:
        e = abs(s)
        a, b = W['edges'][e]
        if s < 0:
            a, b = b, a
        no = numbering.setdefault(e, len(numbering))
        out.append([a, b, s < 0, no])
    return out


def _exp_face(W: dict, f: dict, kind: str, i: int, surf: List[list]) -> dict:
    split = kind != 'orig'
    vit = LAYOUTS[W['layout']]['kind'] == 'vitamin'
    d = {
        'plane': f['plane'], 'side': bool(f['side']), 'on_node': bool(f['on_node']),
        'edges': [surf[k][:2] for k in range(f['first_edge'], f['first_edge'] + f['num_edges'])],
        'texinfo': f['texinfo'] if split else None, 'dispinfo': f['dispinfo'], 'fog': f['fog'], 'styles': f['styles'].hex(),
        'lightofs': f['lightofs'], 'area': f['area'], 'lm_mins': list(f['lm_mins']), 'lm_size': list(f['lm_size']),
        'orig': f['orig'] if split else None, 'prims': list(range(f['first_prim'], f['first_prim'] + f['num_prims'])),
        'dyn': bool(f['dyn']), 'smooth': f['smooth'],
        'hammer_id': (W['faceids'][i] if i < len(W['faceids']) else None) if split else None, 'vflags': 0,
    }
    if vit:  # FACEIDS is read but never attached to the faces on this layout; there are no original faces
        d.update(orig=None, hammer_id=None, vflags=f['vflags'])
    return d


def expected(W: dict) -> dict:
    """What dump_bsp(BSP(build_file(W))) must be (views touched in TOUCH_ORDER)."""
    L = LAYOUTS[W['layout']]
    surf = _surf_pairs(W)
    C: Dict[str, Any] = {'version': W['version'], 'revision': W['revision']}
    C['textures'] = list(W['texstrings'])
    tdno: Dict[int, int] = {}
    C['texinfo'] = []
    for t in W['texinfo']:
        td = W['texdata'][t['texdata']]
        C['texinfo'].append({'s': list(t['s']), 't': list(t['t']), 'ls': list(t['ls']), 'lt': list(t['lt']), 'flags': t['flags'],
                             'texdata': tdno.setdefault(t['texdata'], len(tdno)), 'mat': W['texstrings'][td['name']],
                             'refl': list(td['refl']), 'w': td['w'], 'h': td['h']})
    C['planes'] = [[*p['normal'], p['dist'], p['type']] for p in W['planes']]
    C['vertexes'] = [signed_zeros(v) for v in W['vertexes']]
    C['surfedges'] = surf
    C['primitives'] = [[p['type'], list(p['indices']), [signed_zeros(v) for v in p['verts']]] for p in W['primitives']]
    C['orig_faces'] = [_exp_face(W, f, 'orig', i, surf) for i, f in enumerate(W['orig_faces'])]
    C['faces'] = [_exp_face(W, f, 'ldr', i, surf) for i, f in enumerate(W['faces'])]
    C['hdr_faces'] = [_exp_face(W, f, 'hdr', i, surf) for i, f in enumerate(W['hdr_faces'])]
    # reading the split faces copies texinfo and the Hammer id onto the original face (documented in the reader)
    for lst in (W['faces'], W['hdr_faces']):
        for i, f in enumerate(lst):
            if L['kind'] == 'vitamin':
                break
            o = C['orig_faces'][f['orig']]
            o['texinfo'] = f['texinfo']
            if i < len(W['faceids']):
                o['hammer_id'] = W['faceids'][i]
    vit = L['kind'] == 'vitamin'
    C['brushes'] = [[b['contents'], [[s['plane'], s['texinfo'], s['dispinfo'], bool(s['bevel'] & 1), s['extra'] if vit else s['bevel'] & ~1]
                                     for s in W['brushsides'][b['first_side']:b['first_side'] + b['num_sides']]]]
                    for b in W['brushes']]
    C['visleafs'] = [{'contents': lf['contents'], 'cluster': lf['cluster'], 'area': lf['area'], 'flags': lf['flags'],
                      'mins': [float(x) for x in lf['mins']], 'maxes': [float(x) for x in lf['maxs']],
                      'faces': W['leaffaces'][lf['first_face']:lf['first_face'] + lf['num_faces']],
                      'brushes': W['leafbrushes'][lf['first_brush']:lf['first_brush'] + lf['num_brushes']],
                      'water_id': lf['water_id'], 'ambient': (lf['ambient'] if L['leaf_ambient'] else bytes(24)).hex(),
                      'mindist': lf['mindist']} for lf in W['leafs']]
    C['water_leaf_info'] = [[w['surface_z'], w['min_z'], w['texinfo']] for w in W['waterdata']]

    def child(c: int) -> list:
        return ['node', c] if c >= 0 else ['leaf', -1 - c]
    C['nodes'] = [{'plane': n['plane'], 'mins': [float(x) for x in n['mins']], 'maxes': [float(x) for x in n['maxs']],
                   'faces': list(range(n['first_face'], n['first_face'] + n['num_faces'])), 'area': n['area'],
                   'neg': child(n['children'][0]), 'pos': child(n['children'][1])} for n in W['nodes']]
    vis = W['visibility']
    C['visibility'] = None if vis is None else {'pvs': [r.hex() for r in vis['pvs']], 'pas': [r.hex() for r in vis['pas']]}
    phys = {ph['model']: ph for ph in W['phys']}
    bm: List[Any] = []
    ents = []
    for ei, ent in enumerate(W['ents']):
        keys = {}
        ref: Optional[int] = 0 if ei == 0 else None
        for k, v in ent['keys']:
            if ei and k.casefold() == 'model' and v.startswith('*'):
                ref = int(v[1:])
                continue
            keys[k] = v
        ents.append({'keys': keys, 'outs': [[o['out'], o['inst_out'], o['target'], o['inp'], o['inst_in'], o['params'],
                                             float(o['delay']), o['times'], o['comma']] for o in ent['outs']]})
        if ref is None:
            bm.append(None)
        else:
            m = W['models'][ref]
            ph = phys.get(ref)
            bm.append({'mins': list(m['mins']), 'maxes': list(m['maxs']), 'origin': list(m['origin']), 'node': m['headnode'],
                       'faces': list(range(m['first_face'], m['first_face'] + m['num_faces'])),
                       'kv': None if ph is None else [None, [[n, [[k, v] for k, v in kids]] for n, kids in ph['kv_tree']]],
                       'solids': [] if ph is None else [s.hex() for s in ph['solids']]})
    C['ents'], C['bmodels'] = ents, bm
    C['cubemaps'] = [[[float(x) for x in c['origin']], c['size']] for c in W['cubemaps']]
    C['overlays'] = [{'id': o['id'], 'origin': list(o['origin']), 'normal': list(o['normal']), 'texinfo': o['texinfo'],
                      'face_count': len(o['faces']), 'faces': list(o['faces']), 'render_order': o['render_order'],
                      'u_min': o['u_min'], 'u_max': o['u_max'], 'v_min': o['v_min'], 'v_max': o['v_max'],
                      'uv1': list(o['uv1']), 'uv2': list(o['uv2']), 'uv3': list(o['uv3']), 'uv4': list(o['uv4']),
                      'fade_min': o['fade_min'], 'fade_max': o['fade_max'], 'min_cpu': o['min_cpu'], 'max_cpu': o['max_cpu'],
                      'min_gpu': o['min_gpu'], 'max_gpu': o['max_gpu']} for o in W['overlays']]
    C['props'] = [exp_prop(W['sprp'], p) for p in W['sprp']['props']]
    C['detail_props'] = [exp_detail(W['dprp'], p) for p in W['dprp']['props']]
    C['pakfile'] = [[n, d.hex()] for n, d in W['pak']]
    return C


def exp_prop(sp: dict, p: dict) -> dict:
    ver = sp['version']
    lightmap = ver.startswith('V_LIGHTMAP')
    num = 7 if lightmap else SPRP_VERSIONS[ver][0]
    flags = p['flags_int'] if lightmap else p['flags_byte']
    if num >= 10 or ver == 'V_LIGHTMAP_MESA':
        flags |= p['flags_ex'] << 8
    has_tint = num >= 7 and ver not in ('V_LIGHTMAP_v7', 'V_LIGHTMAP_v10')
    if ver == 'V_CHAOS_V13':
        scale = list(p['scale3'])
    elif num >= 11:
        scale = [p['scale3'][0]] * 3
    else:
        scale = [1.0, 1.0, 1.0]
    return {
        'model': sp['models'][p['model']], 'origin': list(p['origin']), 'angles': list(p['angles']), 'scaling': scale,
        'leafs': sp['leaves'][p['first_leaf']:p['first_leaf'] + p['leaf_count']], 'solidity': p['solidity'], 'flags': flags,
        'skin': p['skin'], 'min_fade': p['min_fade'], 'max_fade': p['max_fade'], 'lighting': list(p['lighting']),
        'fade_scale': p['fade_scale'] if num >= 5 else 1.0,
        'min_dx': p['min_dx'] if num in (6, 7) else 0, 'max_dx': p['max_dx'] if num in (6, 7) else 0,
        'min_cpu': p['min_cpu'] if num >= 8 else 0, 'max_cpu': p['max_cpu'] if num >= 8 else 0,
        'min_gpu': p['min_gpu'] if num >= 8 else 0, 'max_gpu': p['max_gpu'] if num >= 8 else 0,
        'tint': [float(x) for x in p['tint']] if has_tint else [255.0, 255.0, 255.0], 'renderfx': p['renderfx'] if has_tint else 255,
        'xbox': bool(p['xbox']) if (num >= 9 and not lightmap) else False,
        'lm_x': p['lm_x'] if lightmap else 32, 'lm_y': p['lm_y'] if lightmap else 32,
    }


def exp_detail(dp: dict, p: dict) -> dict:
    d = {'kind': ('model', 'sprite', 'shape', 'shape')[p['type']], 'origin': list(p['origin']), 'angles': list(p['angles']),
         'orient': p['orient'], 'leaf': p['leaf'], 'lighting': list(p['lighting']), 'styles': [p['styles'], p['style_count']],
         'sway': p['sway']}
    if p['type'] == 0:
        d['model'] = dp['models'][p['index']]
    else:
        s = dp['sprites'][p['index']]
        d.update(scale=p['scale'], ul=list(s[0:2]), lr=list(s[2:4]), tul=list(s[4:6]), tlr=list(s[6:8]))
        if p['type'] >= 2:
            d.update(cross=p['type'] == 3, shape_angle=p['shape_angle'], shape_size=p['shape_size'])
    return d


# ------------------------------------------------------------------------------------------------ dumping a parsed BSP
def _v(vec: Any) -> List[float]:
    return [float(vec.x), float(vec.y), float(vec.z)]


def _ix(table: Dict[int, int], obj: Any, what: str) -> Any:
    try:
        return table[id(obj)]
    except KeyError:
        return f'<{what} not in its view list>'


def kv_tree(kv: Any) -> Any:
    if kv is None:
        return None
    if kv.has_children():
        return [kv.real_name, [kv_tree(c) for c in kv]]
    return [kv.real_name, kv.value]


def dump_prop(p: Any, leaf_ix: Dict[int, int]) -> dict:
    sc = p.scaling
    scaling = _v(sc) if hasattr(sc, 'x') else [float(sc)] * 3
    return {
        'model': p.model, 'origin': _v(p.origin), 'angles': [p.angles.pitch, p.angles.yaw, p.angles.roll], 'scaling': scaling,
        'leafs': sorted(_ix(leaf_ix, lf, 'visleaf') for lf in p.visleafs), 'solidity': p.solidity, 'flags': p.flags.value,
        'skin': p.skin, 'min_fade': p.min_fade, 'max_fade': p.max_fade, 'lighting': _v(p.lighting), 'fade_scale': float(p.fade_scale),
        'min_dx': p.min_dx_level, 'max_dx': p.max_dx_level, 'min_cpu': p.min_cpu_level, 'max_cpu': p.max_cpu_level,
        'min_gpu': p.min_gpu_level, 'max_gpu': p.max_gpu_level, 'tint': _v(p.tint), 'renderfx': p.renderfx,
        'xbox': bool(p.disable_on_xbox), 'lm_x': p.lightmap_x, 'lm_y': p.lightmap_y,
    }


def dump_detail(p: Any) -> dict:
    name = type(p).__name__
    d = {'kind': {'DetailPropModel': 'model', 'DetailPropSprite': 'sprite', 'DetailPropShape': 'shape'}.get(name, name),
         'origin': _v(p.origin), 'angles': [p.angles.pitch, p.angles.yaw, p.angles.roll], 'orient': p.orientation.value,
         'leaf': p.leaf, 'lighting': list(p.lighting), 'styles': list(p._light_styles), 'sway': p.sway_amount}
    if d['kind'] == 'model':
        d['model'] = p.model
    else:
        d.update(scale=float(p.sprite_scale), ul=list(p.dims_upper_left), lr=list(p.dims_lower_right),
                 tul=list(p.texcoord_upper_left), tlr=list(p.texcoord_lower_right))
        if d['kind'] == 'shape':
            d.update(cross=bool(p.is_cross), shape_angle=p.shape_angle, shape_size=p.shape_size)
    return d


def dump_ent(ent: Any) -> dict:
    return {'keys': {k: v for k, v in ent.items()},
            'outs': [[o.output, o.inst_out, o.target, o.input, o.inst_in, o.params, float(o.delay), o.times, bool(o.comma_sep)]
                     for o in ent.outputs]}


def dump_bsp(bsp: Any) -> dict:
    """Canonical content of every view of a srctools BSP object; cross references become indices into the view lists."""
    for name in TOUCH_ORDER:
        getattr(bsp, name)
    ver = bsp.version
    C: Dict[str, Any] = {'version': getattr(ver, 'value', ver), 'revision': bsp.map_revision}
    plane_ix = {id(o): i for i, o in enumerate(bsp.planes)}
    ti_ix = {id(o): i for i, o in enumerate(bsp.texinfo)}
    vert_ix = {id(o): i for i, o in enumerate(bsp.vertexes)}
    prim_ix = {id(o): i for i, o in enumerate(bsp.primitives)}
    orig_ix = {id(o): i for i, o in enumerate(bsp.orig_faces)}
    face_ix = {id(o): i for i, o in enumerate(bsp.faces)}
    brush_ix = {id(o): i for i, o in enumerate(bsp.brushes)}
    leaf_ix = {id(o): i for i, o in enumerate(bsp.visleafs)}
    node_ix = {id(o): i for i, o in enumerate(bsp.nodes)}
    C['textures'] = list(bsp.textures)
    tdno: Dict[int, int] = {}
    C['texinfo'] = []
    for t in bsp.texinfo:
        td = t._info
        C['texinfo'].append({'s': _v(t.s_off) + [t.s_shift], 't': _v(t.t_off) + [t.t_shift],
                             'ls': _v(t.lightmap_s_off) + [t.lightmap_s_shift], 'lt': _v(t.lightmap_t_off) + [t.lightmap_t_shift],
                             'flags': t.flags.value, 'texdata': tdno.setdefault(id(td), len(tdno)), 'mat': td.mat,
                             'refl': _v(td.reflectivity), 'w': td.width, 'h': td.height})
    C['planes'] = [[*_v(p.normal), p.dist, p.type.value] for p in bsp.planes]
    C['vertexes'] = [signed_zeros(_v(v)) for v in bsp.vertexes]
    eno: Dict[int, int] = {}
    C['surfedges'] = []
    for e in bsp.surfedges:
        rev = type(e).__name__ == 'RevEdge'
        base = e.opposite if rev else e
        C['surfedges'].append([_ix(vert_ix, e.a, 'vertex'), _ix(vert_ix, e.b, 'vertex'), rev, eno.setdefault(id(base), len(eno))])
    C['primitives'] = [[int(p.is_tristrip), list(p.indexed_verts), [signed_zeros(_v(v)) for v in p.verts]] for p in bsp.primitives]

    def face(f: Any) -> dict:
        return {
            'plane': _ix(plane_ix, f.plane, 'plane'), 'side': bool(f.same_dir_as_plane), 'on_node': bool(f.on_node),
            'edges': [[_ix(vert_ix, e.a, 'vertex'), _ix(vert_ix, e.b, 'vertex')] for e in f.edges],
            'texinfo': None if f.texinfo is None else _ix(ti_ix, f.texinfo, 'texinfo'), 'dispinfo': f._dispinfo_ind,
            'fog': f.surf_fog_volume_id, 'styles': bytes(f.light_styles).hex(), 'lightofs': f._lightmap_off, 'area': f.area,
            'lm_mins': list(f.lightmap_mins), 'lm_size': list(f.lightmap_size),
            'orig': None if f.orig_face is None else _ix(orig_ix, f.orig_face, 'orig face'),
            'prims': [_ix(prim_ix, p, 'primitive') for p in f.primitives], 'dyn': bool(f.dynamic_shadows),
            'smooth': f.smoothing_groups, 'hammer_id': f.hammer_id, 'vflags': f.vitamin_flags,
        }
    C['orig_faces'] = [face(f) for f in bsp.orig_faces]
    C['faces'] = [face(f) for f in bsp.faces]
    C['hdr_faces'] = [face(f) for f in bsp.hdr_faces]
    C['brushes'] = [[b.contents.value, [[_ix(plane_ix, s.plane, 'plane'), _ix(ti_ix, s.texinfo, 'texinfo'), s._dispinfo,
                                         bool(s.is_bevel_plane), s._unknown_bevel_bits] for s in b.sides]] for b in bsp.brushes]
    C['visleafs'] = [{'contents': lf.contents.value, 'cluster': lf.cluster_id, 'area': lf.area, 'flags': lf.flags.value,
                      'mins': _v(lf.mins), 'maxes': _v(lf.maxes), 'faces': [_ix(face_ix, f, 'face') for f in lf.faces],
                      'brushes': [_ix(brush_ix, b, 'brush') for b in lf.brushes], 'water_id': lf.water_id,
                      'ambient': bytes(lf._ambient).hex(), 'mindist': lf.min_water_dist} for lf in bsp.visleafs]
    C['water_leaf_info'] = [[w.surface_z, w.min_z, _ix(ti_ix, w.surface_texinfo, 'texinfo')] for w in bsp.water_leaf_info]

    def child(c: Any) -> list:
        if type(c).__name__ == 'VisLeaf':
            return ['leaf', _ix(leaf_ix, c, 'visleaf')]
        return ['node', _ix(node_ix, c, 'node')]
    C['nodes'] = [{'plane': _ix(plane_ix, n.plane, 'plane'), 'mins': _v(n.mins), 'maxes': _v(n.maxes),
                   'faces': [_ix(face_ix, f, 'face') for f in n.faces], 'area': n.area_ind, 'neg': child(n.child_neg),
                   'pos': child(n.child_pos)} for n in bsp.nodes]
    vis = bsp.visibility
    C['visibility'] = None if vis is None else {'pvs': [bytes(r).hex() for r in vis.potentially_visible],
                                                'pas': [bytes(r).hex() for r in vis.potentially_audible]}
    vmf = bsp.ents
    all_ents = [vmf.spawn] + list(vmf.entities)
    C['ents'] = [dump_ent(e) for e in all_ents]
    bmodels = bsp.bmodels
    bm: List[Any] = []
    for e in all_ents:
        m = bmodels.get(e)
        if m is None:
            bm.append(None)
        else:
            bm.append({'mins': _v(m.mins), 'maxes': _v(m.maxes), 'origin': _v(m.origin), 'node': _ix(node_ix, m.node, 'node'),
                       'faces': [_ix(face_ix, f, 'face') for f in m.faces], 'kv': kv_tree(m.phys_keyvalues),
                       'solids': [bytes(s).hex() for s in m._phys_solids]})
    C['bmodels'] = bm
    C['cubemaps'] = [[_v(c.origin), c.size] for c in bsp.cubemaps]
    C['overlays'] = [{'id': o.id, 'origin': _v(o.origin), 'normal': _v(o.normal), 'texinfo': _ix(ti_ix, o.texture, 'texinfo'),
                      'face_count': o.face_count, 'faces': list(o.faces), 'render_order': o.render_order, 'u_min': o.u_min,
                      'u_max': o.u_max, 'v_min': o.v_min, 'v_max': o.v_max, 'uv1': _v(o.uv1), 'uv2': _v(o.uv2), 'uv3': _v(o.uv3),
                      'uv4': _v(o.uv4), 'fade_min': o.fade_min_sq, 'fade_max': o.fade_max_sq, 'min_cpu': o.min_cpu,
                      'max_cpu': o.max_cpu, 'min_gpu': o.min_gpu, 'max_gpu': o.max_gpu} for o in bsp.overlays]
    C['props'] = [dump_prop(p, leaf_ix) for p in bsp.props]
    C['detail_props'] = [dump_detail(p) for p in bsp.detail_props]
    zf = bsp.pakfile
    C['pakfile'] = [[info.filename, zf.read(info).hex()] for info in zf.infolist()]
    return C


def first_diff(a: Any, b: Any, path: str = '') -> Optional[dict]:
    """First structural difference between two canonical values (floats compared by value, NaN-free)."""
    if isinstance(a, dict) and isinstance(b, dict):
        for k in a:
            if k not in b:
                return {'path': f'{path}/{k}', 'want': a[k], 'got': '<missing>'}
            d = first_diff(a[k], b[k], f'{path}/{k}')
            if d:
                return d
        for k in b:
            if k not in a:
                return {'path': f'{path}/{k}', 'want': '<missing>', 'got': b[k]}
        return None
    if isinstance(a, (list, tuple)) and isinstance(b, (list, tuple)):
        if len(a) != len(b):
            return {'path': path, 'want': f'<{len(a)} items>', 'got': f'<{len(b)} items>', 'len_want': len(a), 'len_got': len(b)}
        for i, (x, y) in enumerate(zip(a, b)):
            d = first_diff(x, y, f'{path}/{i}')
            if d:
                return d
        return None
    if isinstance(a, bool) != isinstance(b, bool) or a != b:
        return {'path': path, 'want': a, 'got': b}
    return None


def view_diffs(a: dict, b: dict) -> List[dict]:
    """First difference inside every top-level entry (view) of two canonical dumps, so one defect cannot mask another."""
    out = []
    for k in a:
        d = first_diff(a[k], b.get(k, '<missing>'), f'/{k}')
        if d:
            out.append(d)
    return out


def safe(value: Any, limit: int = 80) -> str:
    """ASCII-only rendering for protocol/log lines (entity values may hold surrogate-escaped bytes)."""
    return str(value)[:limit].encode('ascii', 'backslashreplace').decode('ascii')
