"""Small helpers shared by the checks."""
from __future__ import annotations

import contextlib
import io
import random
import sys
from typing import Iterator, List, Sequence, Tuple


def sub_rng(seed: int, engine: str, index: int) -> random.Random:
    """Independent PRNG per (seed, engine, case index): shards and replays do not depend on scheduling."""
    return random.Random(f'{seed}/{engine}/{index}')


def mine(index: int, shard: Tuple[int, int]) -> bool:
    return index % shard[1] == shard[0]


@contextlib.contextmanager
def quiet_stdout() -> Iterator[io.StringIO]:
    """BSP.save and _engine_db.serialise print to stdout; keep protocol lines clean."""
    buf = io.StringIO()
    old = sys.stdout
    sys.stdout = buf
    try:
        yield buf
    finally:
        sys.stdout = old


def random_chunks(rng: random.Random, text: str, max_chunks: int = 8, empties: bool = True) -> List[str]:
    """Cut text at random positions; optionally interleave empty chunks."""
    if not text:
        return [''] if rng.random() < 0.5 else []
    n = rng.randint(1, max(1, min(max_chunks, len(text))))
    cuts = sorted(rng.sample(range(1, len(text)), min(n - 1, len(text) - 1))) if len(text) > 1 else []
    out = []
    prev = 0
    for c in cuts + [len(text)]:
        if empties and rng.random() < 0.15:
            out.append('')
        out.append(text[prev:c])
        prev = c
    if empties and rng.random() < 0.15:
        out.append('')
    return out


ESC_SET = '"\\\'\n\r\t\v\b\f\a?/'
STRUCT_CHARS = '{}[]()#:+=,;$%*'


def rand_text(rng: random.Random, max_len: int = 12, allow_newlines: bool = True, ascii_only: bool = False,
              hostile: float = 0.5) -> str:
    """A string drawn from a weighted pool: escape set, structure characters, controls, Unicode."""
    n = rng.choice((0, 1, 1, 2, 3, 5, 8, max_len)) if max_len > 8 else rng.randint(0, max_len)
    n = min(n, max_len)
    out = []
    for _ in range(n):
        r = rng.random()
        if r < hostile * 0.5:
            c = rng.choice(ESC_SET)
        elif r < hostile * 0.7:
            c = rng.choice(STRUCT_CHARS)
        elif r < hostile * 0.8:
            c = chr(rng.randrange(0, 32)) if rng.random() < 0.7 else chr(rng.randrange(0x7f, 0xa0))
        elif r < hostile * 0.9 and not ascii_only:
            c = rng.choice(('﻿', ' ', 'é', '中', '\U0001f600', 'İ', 'ß', '\xa0'))
        elif r < hostile and not ascii_only:
            cp = rng.randrange(0x20, 0x110000)
            if 0xD800 <= cp <= 0xDFFF:
                cp = 0x41
            c = chr(cp)
        else:
            c = rng.choice('abcXYZ019_ -.nrt')
        if ascii_only and ord(c) > 126:
            c = 'x'
        if not allow_newlines and c in '\r\n':
            c = ' '
        out.append(c)
    return ''.join(out)
