"""Generator of DMX element-graph specs and Keyvalues tree specs for C14.

Pure Python, JSON-able output, no srctools import: a spec is data, the check builds the real objects from it.

Graph spec::

    {'elems': [{'type': str, 'name': str, 'uuid': hex, 'attrs': [[name, TYPE, is_array, value], ...]}, ...]}

Element 0 is the root and every element is reachable from it.  `value` is one payload (scalar) or a list of
payloads (array).  Payloads per TYPE: ELEMENT int index | None (NULL) | 's:<uuid hex>' (stub); INT int32; FLOAT float32
as a Python float; BOOL bool; STRING str; BINARY hex str; TIME int ticks of 1/10000 s; COLOR [r, g, b, a] bytes;
VEC2/VEC3/VEC4/QUATERNION lists of float32; ANGLE three float32 in [0, 360); MATRIX nine float32 (row major 3x3).
All numbers are therefore exactly representable in the binary wire type.
"""
from __future__ import annotations

import math
import random
import struct
import uuid
from typing import Any, Dict, List, Optional, Tuple

from .util import rand_text

TYPES = ['ELEMENT', 'INT', 'FLOAT', 'BOOL', 'STRING', 'BINARY', 'TIME', 'COLOR', 'VEC2', 'VEC3', 'VEC4', 'ANGLE',
         'QUATERNION', 'MATRIX']
VALUE_TYPES = TYPES[1:]
KEYWORDS = ['element', 'int', 'float', 'bool', 'string', 'binary', 'time', 'color', 'vector2', 'vector3', 'vector4',
            'qangle', 'quaternion', 'vmatrix']
# Element type names the KeyValues2 grammar cannot tell from an attribute type / a reference marker.
RESERVED_TYPE_NAMES = frozenset(KEYWORDS) | {k + '_array' for k in KEYWORDS} | {'elementid', 'elementid_array'}
NEED_ESCAPE = '"\\\'\n\t\v\b\r\f\a'

F32_MAX = 3.4028234663852886e38


def f32(x: float) -> float:
    try:
        return struct.unpack('<f', struct.pack('<f', x))[0]
    except OverflowError:
        return math.copysign(F32_MAX, x)


FLOAT_SPECIALS = [-0.0, 0.5, f32(0.1), 16777216.0, 16777215.0, F32_MAX, -F32_MAX, 1.401298464324817e-45, f32(5e-7),
                  f32(1.5e-6), f32(123456.789), f32(1e-7), f32(0.9999995), f32(-2048.453125), f32(1e10), f32(1 / 3)]


def gen_float(rng: random.Random, nonfinite: bool = False) -> float:
    r = rng.random()
    if r < 0.25:
        return float(rng.randint(-8, 8))
    if r < 0.45:
        return f32(rng.uniform(-1000, 1000))
    if r < 0.6:
        return rng.choice(FLOAT_SPECIALS)
    if r < 0.8:
        v = struct.unpack('<f', struct.pack('<I', rng.getrandbits(32)))[0]
        if v != v or v in (math.inf, -math.inf):
            if nonfinite:
                return v
            return f32(rng.uniform(-1, 1))
        return v
    if nonfinite and r < 0.83:
        return rng.choice((math.inf, -math.inf, math.nan))
    return f32(rng.uniform(-1, 1) * 10.0 ** rng.randint(-8, 8))


def gen_angle_comp(rng: random.Random) -> float:
    r = rng.random()
    if r < 0.3:
        return float(rng.choice((0, 45, 90, 180, 270, 359)))
    if r < 0.4:
        return rng.choice((359.999969482421875, f32(1e-6), f32(0.0000004), 179.99998474121094))
    v = f32(rng.uniform(0.0, 360.0))
    return v if 0.0 <= v < 360.0 else 0.0


# words the KeyValues2 text form uses itself: as VALUES they are ordinary strings
KV2_WORDS = ('element', 'element_array', 'string', 'string_array', 'int', 'float', 'bool', 'binary', 'time', 'color', 'vector2', 'vector3',
             'vector4', 'qangle', 'quaternion', 'matrix', 'elementid', 'id', 'name', 'true', 'false', 'Element', 'ELEMENT', '', '[', ']', '{', ',')


def gen_text(rng: random.Random, max_len: int, unicode: bool, nul: bool, hostile: float) -> str:
    if rng.random() < 0.08:
        return rng.choice(KV2_WORDS)
    s = rand_text(rng, max_len, ascii_only=not unicode, hostile=hostile)
    if not nul:
        s = s.replace('\x00', '0')
    elif rng.random() < 0.4:
        i = rng.randint(0, len(s))
        s = s[:i] + '\x00' + s[i:]
    if not unicode:
        s = ''.join(c if ord(c) < 128 else '?' for c in s)
    return s


def gen_payload(rng: random.Random, typ: str, ctx: Dict[str, Any]) -> Any:
    if typ == 'INT':
        return rng.choice((0, 1, -1, 2147483647, -2147483648, rng.randint(-1000, 1000), rng.randint(-2 ** 31, 2 ** 31 - 1)))
    if typ == 'FLOAT':
        return gen_float(rng, ctx['nonfinite'])
    if typ == 'BOOL':
        return rng.random() < 0.5
    if typ == 'STRING':
        return gen_text(rng, 14, ctx['unicode'], ctx['nul'], ctx['hostile'])
    if typ == 'BINARY':
        n = rng.choice((0, 1, 2, 4, 16, 33))
        return bytes(rng.getrandbits(8) for _ in range(n)).hex()
    if typ == 'TIME':
        return rng.choice((0, 1, -1, 605000, 2147483647, -2147483648, rng.randint(-10 ** 6, 10 ** 6), rng.randint(-2 ** 31, 2 ** 31 - 1)))
    if typ == 'COLOR':
        return [rng.choice((0, 255, 128, rng.randrange(256))) for _ in range(4)]
    if typ in ('VEC2', 'VEC4', 'QUATERNION'):
        n = 2 if typ == 'VEC2' else 4
        return [gen_float(rng, ctx['nonfinite']) for _ in range(n)]
    if typ == 'VEC3':
        return [gen_float(rng) for _ in range(3)]
    if typ == 'ANGLE':
        return [gen_angle_comp(rng) for _ in range(3)]
    if typ == 'MATRIX':
        r = rng.random()
        if r < 0.2:
            return [1.0, 0.0, 0.0, 0.0, 1.0, 0.0, 0.0, 0.0, 1.0]
        if r < 0.6:  # a rotation, rounded to float32
            a, b = rng.uniform(0, 6.283), rng.uniform(0, 6.283)
            ca, sa, cb, sb = math.cos(a), math.sin(a), math.cos(b), math.sin(b)
            return [f32(v) for v in (ca * cb, sa * cb, -sb, -sa, ca, 0.0, ca * sb, sa * sb, cb)]
        return [gen_float(rng) for _ in range(9)]
    raise AssertionError(typ)


ATTR_NAME_POOL = ['value', 'id', 'ID', 'subkeys', 'Count', 'mixedCase', 'UPPER', 'lower_case', 'm_flRadius', 'position',
                  'children', 'Name2', 'elementid', 'int', 'string', 'element', 'aName', 'nAmE_x', 'İstanbul', 'straße',
                  'type', 'uuid', '_name']
TYPE_NAME_POOL = ['DmElement', 'DmeModel', 'DmeDag', 'DmeParticleSystemDefinition', 'dmeTransform', 'T', 'DMERoot',
                  'type with space', 'Weird"Type', 'Type\\Back', 'Foo_array', 'DmElementLeaf', 'Int', 'x_array', 'a{b}',
                  '', 'tab\ttype', 'Tÿpe', '型']


def _special_name(rng: random.Random, unicode: bool) -> str:
    base = rng.choice(('key', 'aB', 'Attr', 'x'))
    ch = rng.choice('"\\\n\t\'{}[],/ \r\a\b')
    i = rng.randint(0, len(base))
    s = base[:i] + ch + base[i:]
    if unicode and rng.random() < 0.3:
        s += rng.choice('é中ß')
    return s


def gen_attr_name(rng: random.Random, ctx: Dict[str, Any], used: set) -> str:
    for _ in range(20):
        r = rng.random()
        if r < 0.35:
            n = rng.choice(ATTR_NAME_POOL)
            if rng.random() < 0.2:
                n = n.swapcase()
        elif r < 0.65:
            n = gen_text(rng, 8, ctx['unicode'], False, ctx['hostile'])
        else:
            n = _special_name(rng, ctx['unicode'])
        if not ctx['unicode']:
            n = ''.join(c if ord(c) < 128 else 'u' for c in n)
        key = n.casefold()
        if key == 'name' or key in used:
            continue
        used.add(key)
        return n
    k = len(used)
    while f'attr{k}' in used:
        k += 1
    used.add(f'attr{k}')
    return f'Attr{k}'


def gen_type_name(rng: random.Random, ctx: Dict[str, Any]) -> str:
    for _ in range(20):
        r = rng.random()
        if r < 0.75:
            n = rng.choice(TYPE_NAME_POOL)
        else:
            n = gen_text(rng, 8, ctx['unicode'], False, ctx['hostile'])
        if not ctx['unicode']:
            n = ''.join(c if ord(c) < 128 else 'U' for c in n)
        if n.casefold() not in RESERVED_TYPE_NAMES:
            return n
    return 'DmElement'


def _add_ref(rng: random.Random, elem: Dict[str, Any], ref: Any, ctx: Dict[str, Any], used: set) -> None:
    arrays = [a for a in elem['attrs'] if a[1] == 'ELEMENT' and a[2]]
    r = rng.random()
    if arrays and r < 0.5:
        arr = rng.choice(arrays)[3]
        arr.insert(rng.randint(0, len(arr)), ref)
    elif r < 0.75:
        elem['attrs'].append([gen_attr_name(rng, ctx, used), 'ELEMENT', True, [ref]])
    else:
        elem['attrs'].append([gen_attr_name(rng, ctx, used), 'ELEMENT', False, ref])


def _gen_uuid(rng: random.Random) -> str:
    """Mostly version-4 UUIDs, sometimes any 128 bits (never all zero: that is the NULL element)."""
    bits = rng.getrandbits(128) or 1
    if rng.random() < 0.8:
        return uuid.UUID(int=bits, version=4).hex
    return uuid.UUID(int=bits).hex


def gen_graph(rng: random.Random, big: bool = False) -> Dict[str, Any]:
    ctx = {
        'unicode': rng.random() < 0.5,
        'nul': rng.random() < 0.08,
        'hostile': rng.choice((0.1, 0.5, 0.9)),
        'nonfinite': rng.random() < 0.25,
    }
    with_time = rng.random() < 0.55
    n = rng.choice((5, 12, 25, 40)) if big else rng.choice((1, 2, 3, 4, 6, 9))
    elems: List[Dict[str, Any]] = []
    used: List[set] = []
    types = [t for t in VALUE_TYPES if with_time or t != 'TIME']
    for i in range(n):
        elems.append({
            'type': gen_type_name(rng, ctx),
            'name': gen_text(rng, 10, ctx['unicode'], ctx['nul'], ctx['hostile']),
            'uuid': _gen_uuid(rng),
            'attrs': [],
        })
        used.append(set())
        for _ in range(rng.choice((0, 1, 2, 3, 5, 8))):
            typ = rng.choice(types)
            name = gen_attr_name(rng, ctx, used[i])
            if rng.random() < 0.45:
                k = rng.choice((0, 0, 1, 2, 3, 7))
                elems[i]['attrs'].append([name, typ, True, [gen_payload(rng, typ, ctx) for _ in range(k)]])
            else:
                elems[i]['attrs'].append([name, typ, False, gen_payload(rng, typ, ctx)])
    # spanning edges: every element is reachable from the root
    for i in range(1, n):
        p = rng.randrange(i)
        _add_ref(rng, elems[p], i, ctx, used[p])
    # extra edges: sharing (DAG), back edges and self loops (cycles), mutual pairs, NULLs, stubs
    stubs: List[str] = []
    for _ in range(rng.choice((0, 1, 2, 4, 7))):
        src = rng.randrange(n)
        kind = rng.choice(('any', 'any', 'self', 'mutual', 'null', 'stub', 'stub'))
        if kind == 'any':
            _add_ref(rng, elems[src], rng.randrange(n), ctx, used[src])
        elif kind == 'self':
            _add_ref(rng, elems[src], src, ctx, used[src])
        elif kind == 'mutual':
            dst = rng.randrange(n)
            _add_ref(rng, elems[src], dst, ctx, used[src])
            _add_ref(rng, elems[dst], src, ctx, used[dst])
        elif kind == 'null':
            _add_ref(rng, elems[src], None, ctx, used[src])
        else:
            if stubs and rng.random() < 0.4:
                su = rng.choice(stubs)
            else:
                su = uuid.UUID(int=rng.getrandbits(128), version=4).hex
                stubs.append(su)
            _add_ref(rng, elems[src], 's:' + su, ctx, used[src])
    if rng.random() < 0.25:
        src = rng.randrange(n)
        elems[src]['attrs'].append([gen_attr_name(rng, ctx, used[src]), 'ELEMENT', True, []])
    for e in elems:
        rng.shuffle(e['attrs'])
    # elements whose 'name' attribute was deleted (Element.clear() / del elem['name'] leave this legal state: .name reads '')
    if rng.random() < 0.15:
        for e in elems:
            if rng.random() < 0.5:
                e['name'] = ''
                e['nameless'] = True
    return {'elems': elems}


def features(spec: Dict[str, Any]) -> Dict[str, Any]:
    """What the graph contains (decides non-triviality and which encodings can carry it)."""
    elems = spec['elems']
    incoming = [0] * len(elems)
    f: Dict[str, Any] = {'elements': len(elems), 'sharing': False, 'cycle': False, 'self_loop': False, 'stub': 0, 'null': 0,
                         'null_in_array': 0, 'array': 0, 'empty_array': 0, 'time': False, 'nul': False, 'non_ascii': False,
                         'scalar_matrix': 0, 'name_needs_escape': 0, 'unicode_string_array': 0, 'unicode_type': 0,
                         'types_scalar': set(), 'types_array': set(), 'shared_stub': False}
    stub_seen: Dict[str, int] = {}
    edges: List[List[int]] = [[] for _ in elems]

    def text(s: str) -> None:
        if '\x00' in s:
            f['nul'] = True
        if any(ord(c) > 127 for c in s):
            f['non_ascii'] = True

    for i, e in enumerate(elems):
        text(e['type'])
        text(e['name'])
        if any(ord(c) > 127 for c in e['type']):
            f['unicode_type'] += 1
        for name, typ, is_arr, val in e['attrs']:
            text(name)
            if any(c in NEED_ESCAPE for c in name):
                f['name_needs_escape'] += 1
            (f['types_array'] if is_arr else f['types_scalar']).add(typ)
            if is_arr:
                f['array'] += 1
                if not val:
                    f['empty_array'] += 1
            if typ == 'TIME':
                f['time'] = True
            if typ == 'MATRIX' and not is_arr:
                f['scalar_matrix'] += 1
            vals = val if is_arr else [val]
            if typ == 'STRING':
                for s in vals:
                    text(s)
                if is_arr and any(ord(c) > 127 for s in vals for c in s):
                    f['unicode_string_array'] += 1
            if typ == 'ELEMENT':
                for r in vals:
                    if r is None:
                        f['null'] += 1
                        if is_arr:
                            f['null_in_array'] += 1
                    elif isinstance(r, str):
                        f['stub'] += 1
                        stub_seen[r] = stub_seen.get(r, 0) + 1
                    else:
                        incoming[r] += 1
                        edges[i].append(r)
                        if r == i:
                            f['self_loop'] = True
    f['sharing'] = any(c > 1 for c in incoming[1:]) or incoming[0] > 0
    f['shared_stub'] = any(c > 1 for c in stub_seen.values())
    # cycle detection (iterative DFS, colours)
    colour = [0] * len(elems)
    for s in range(len(elems)):
        if colour[s]:
            continue
        stack: List[Tuple[int, int]] = [(s, 0)]
        colour[s] = 1
        while stack:
            node, k = stack.pop()
            if k < len(edges[node]):
                stack.append((node, k + 1))
                nxt = edges[node][k]
                if colour[nxt] == 1:
                    f['cycle'] = True
                elif colour[nxt] == 0:
                    colour[nxt] = 1
                    stack.append((nxt, 0))
            else:
                colour[node] = 2
    f['types_scalar'] = sorted(f['types_scalar'])
    f['types_array'] = sorted(f['types_array'])
    return f


# --------------------------------------------------------------------------- Keyvalues trees for the KV1 bridge
KV_NAME_POOL = ['name', 'Name', 'NAME', 'subkeys', 'SubKeys', 'value', 'id', 'key', 'Key', 'KEY', 'key2', 'model',
                '$basetexture', 'DmElement', 'straße', 'STRASSE']


def gen_kv_tree(rng: random.Random) -> Tuple[Optional[str], Any]:
    """A tree is (name | None for the root, str value | list of trees)."""
    ctx = {'unicode': rng.random() < 0.5, 'hostile': rng.choice((0.1, 0.5, 0.9))}
    pool: List[str] = []

    def name() -> str:
        r = rng.random()
        if pool and r < 0.25:
            n = rng.choice(pool)
            return rng.choice((n, n.upper(), n.lower(), n.swapcase()))
        if r < 0.5:
            n = rng.choice(KV_NAME_POOL)
        elif r < 0.65:
            n = _special_name(rng, ctx['unicode'])
        else:
            n = gen_text(rng, 10, ctx['unicode'], False, ctx['hostile'])
        if not ctx['unicode']:
            n = ''.join(c if ord(c) < 128 else 'u' for c in n)
        pool.append(n)
        return n

    def node(d: int) -> Tuple[str, Any]:
        if d <= 0 or rng.random() < 0.55:
            return (name(), gen_text(rng, 14, ctx['unicode'], False, ctx['hostile']))
        width = rng.choice((0, 0, 1, 2, 3, 6))
        return (name(), [node(d - 1) for _ in range(width)])

    depth = rng.randint(1, 4)
    r = rng.random()
    if r < 0.35:
        return (None, [node(depth) for _ in range(rng.choice((0, 1, 2, 4)))])
    if r < 0.45:
        return (name(), gen_text(rng, 14, ctx['unicode'], False, ctx['hostile']))
    return (name(), [node(depth - 1) for _ in range(rng.choice((0, 1, 3, 5)))])
