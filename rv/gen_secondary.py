"""Generators and structural snapshots for C20 (secondary formats).

Every generator takes a `random.Random` and returns real srctools objects restricted to what the target format can
carry; every restriction is listed in checks/c20.py RULE.  Snapshots turn library objects into plain JSON-like data via
their public attributes, so comparisons never go through the library's own __eq__.
"""
from __future__ import annotations

import enum
import math
import struct
from typing import Any, Dict, List, Optional, Tuple


# ------------------------------------------------------------------------------------------------ generic helpers
import copy as _copy


def f32(x: float) -> float:
    return struct.unpack('<f', struct.pack('<f', x))[0]


def snap(o: Any) -> Any:
    """Generic structural snapshot: attrs classes by field, enums by name, containers recursively."""
    import attrs
    if isinstance(o, enum.Flag):
        return f'{type(o).__name__}:{o.value}'
    if isinstance(o, enum.Enum):
        if isinstance(o, float):  # sndscript.Pitch is a float
            return float(o.value)
        return f'{type(o).__name__}.{o.name}'
    if o is None or isinstance(o, (str, int, float, bool, bytes)):
        return o
    if isinstance(o, (list, tuple)):
        return [snap(v) for v in o]
    if isinstance(o, dict):
        return {'__dict__': [[snap(k), snap(v)] for k, v in o.items()]}
    if attrs.has(type(o)):
        out: Dict[str, Any] = {'__cls__': type(o).__name__}
        for f in attrs.fields(type(o)):
            if f.name.startswith('_'):
                continue
            out[f.name] = snap(getattr(o, f.name))
        return out
    raise TypeError(f'no snapshot rule for {type(o).__name__}')


def first_diff(a: Any, b: Any, path: str = '') -> Optional[dict]:
    """First structural difference between two snapshots (want=a, got=b)."""
    if isinstance(a, dict) and isinstance(b, dict):
        for k in a:
            if k not in b:
                return {'path': f'{path}/{k}', 'want': _brief(a[k]), 'got': '<missing>'}
            d = first_diff(a[k], b[k], f'{path}/{k}')
            if d:
                return d
        for k in b:
            if k not in a:
                return {'path': f'{path}/{k}', 'want': '<missing>', 'got': _brief(b[k])}
        return None
    if isinstance(a, list) and isinstance(b, list):
        for i, (x, y) in enumerate(zip(a, b)):
            d = first_diff(x, y, f'{path}/{i}')
            if d:
                return d
        if len(a) != len(b):
            return {'path': path, 'want': f'len {len(a)}', 'got': f'len {len(b)}',
                    'extra': _brief((a if len(a) > len(b) else b)[min(len(a), len(b))])}
        return None
    if isinstance(a, bool) != isinstance(b, bool) and not (isinstance(a, (int, float)) and isinstance(b, (int, float))):
        return {'path': path, 'want': _brief(a), 'got': _brief(b)}
    if isinstance(a, (int, float)) and isinstance(b, (int, float)):
        if a == b or (isinstance(a, float) and isinstance(b, float) and math.isnan(a) and math.isnan(b)):
            return None
        return {'path': path, 'want': a, 'got': b}
    if type(a) is not type(b) or a != b:
        return {'path': path, 'want': _brief(a), 'got': _brief(b)}
    return None


def _brief(v: Any) -> Any:
    s = repr(v)
    return v if len(s) < 200 else s[:200] + '...'


WORDS = ['alpha', 'Bravo', 'x', 'Door_01', 'npc.line', 'a b', 'vo/line01.wav', '0', 'ramp', 'Z9']
ESCAPES = '"\\\t\n\'\r'
STRUCT = '{}[]()#:+=,;$%*/!?<>@^&~`|'


def rand_str(rng, max_len: int = 10, *, escapes: float = 0.25, unicode: str = 'é中ß\xa0', empty: float = 0.1,
             struct_chars: float = 0.15, forbid: str = '') -> str:
    """Short string from words plus (optionally) escape-set, structure and non-ASCII characters."""
    if rng.random() < empty:
        return ''
    if rng.random() < 0.45:
        s = rng.choice(WORDS)
    else:
        n = rng.randint(1, max_len)
        out = []
        for _ in range(n):
            r = rng.random()
            if r < escapes:
                out.append(rng.choice(ESCAPES))
            elif r < escapes + struct_chars:
                out.append(rng.choice(STRUCT))
            elif r < escapes + struct_chars + 0.08 and unicode:
                out.append(rng.choice(unicode))
            else:
                out.append(rng.choice('abcdeXYZ0189_ -./'))
        s = ''.join(out)
    if forbid:
        s = ''.join(c for c in s if c not in forbid)
    return s[:max_len] if len(s) > max_len else s


# ------------------------------------------------------------------------------------------------ cmdseq
def ascii_field(rng, width: int) -> str:
    """ASCII without NUL, length <= width; boundary lengths (0, width-1, width) are over-represented."""
    r = rng.random()
    if r < 0.08:
        n = width
    elif r < 0.14:
        n = width - 1
    elif r < 0.22:
        n = 0
    else:
        n = rng.randint(1, min(width, 40))
    if rng.random() < 0.5:
        base = rng.choice(['$bsp_exe', '-game $gamedir $path\\$file', '$vis_exe', 'C:\\Program Files\\x.exe', '-both -final'])
        s = (base * (n // len(base) + 1))[:n]
    else:
        s = ''.join(chr(rng.randint(1, 127)) for _ in range(n))
    return s


def gen_cmdseq(rng) -> Dict[str, list]:
    from srctools.cmdseq import Command, SpecialCommand
    seqs: Dict[str, list] = {}
    for _ in range(rng.choice((0, 1, 1, 2, 3, 5))):
        name = ascii_field(rng, 128)
        cmds = []
        for _ in range(rng.choice((0, 1, 2, 3, 6))):
            exe: Any = rng.choice(list(SpecialCommand)) if rng.random() < 0.3 else ascii_field(rng, 260)
            if rng.random() < 0.06:
                # a program whose name happens to be the label Hammer shows for a built-in command: still a program
                from srctools.cmdseq import SPECIAL_NAMES
                exe = rng.choice(list(SPECIAL_NAMES.values()))
            cmds.append(Command(
                exe, ascii_field(rng, 260),
                enabled=rng.random() < 0.7,
                ensure_file=ascii_field(rng, 260) if rng.random() < 0.4 else None,
                use_proc_win=rng.random() < 0.5,
                no_wait=rng.random() < 0.3,
            ))
            if rng.random() < 0.2:
                cmds.append(_copy.copy(cmds[-1]))  # the same command twice in a row
        seqs[name] = cmds
    return seqs


def cmdseq_nontrivial(seqs) -> bool:
    from srctools.cmdseq import SpecialCommand
    return any(c.ensure_file is not None or isinstance(c.exe, SpecialCommand) or c.no_wait or not c.enabled
               for cmds in seqs.values() for c in cmds)


def snap_cmdseq(seqs) -> Any:
    return [[name, [snap(c) for c in cmds]] for name, cmds in seqs.items()]


def encode_cmdseq_legacy(rng, seqs) -> bytes:
    """Harness-side encoder for the pre-0.2 layout (no no_wait field), with junk after each NUL like real files."""
    from srctools.cmdseq import SpecialCommand

    def field(s: str, width: int) -> bytes:
        raw = s.encode('ascii')
        if len(raw) < width:
            raw += b'\0' + bytes(rng.randint(1, 255) for _ in range(width - len(raw) - 1))
        return raw

    names = {SpecialCommand.CHANGE_DIR: 'Change Directory', SpecialCommand.COPY_FILE: 'Copy File',
             SpecialCommand.DELETE_FILE: 'Delete File', SpecialCommand.RENAME_FILE: 'Rename File'}
    out = [b'Worldcraft Command Sequences\r\n\x1a', struct.pack('f', 0.1), struct.pack('I', len(seqs))]
    st = struct.Struct('Bi260s260sii260si')
    for name, cmds in seqs.items():
        out.append(field(name, 128))
        out.append(struct.pack('I', len(cmds)))
        for c in cmds:
            special = c.exe.value if isinstance(c.exe, SpecialCommand) else 0
            exe = names[c.exe] if special else c.exe
            out.append(st.pack(int(c.enabled), special, field(exe, 260), field(c.args, 260), 1,
                               0 if c.ensure_file is None else 1,
                               field(c.ensure_file or '', 260), int(c.use_proc_win)))
    return b''.join(out)


# ------------------------------------------------------------------------------------------------ choreo
def _curve_type(rng, default_p: float = 0.5):
    from srctools import choreo
    if rng.random() < default_p:
        return choreo.CURVE_DEFAULT
    members = list(choreo.Interpolation)
    return choreo.CurveType(rng.choice(members), rng.choice(members))


def _time(rng, mode: str) -> float:
    if mode == 'text':
        if rng.random() < 0.15:
            return rng.choice((0.0, 1.0, 0.000001, 12.5, 3.333333))
        return round(rng.uniform(-2.0, 300.0), 6)
    if mode == 'image':
        return f32(rng.choice((0.0, 1.0, 2.5)) if rng.random() < 0.15 else rng.uniform(0.0, 300.0))
    return f32(rng.choice((0.0, 1.0, -0.5, 1e-7)) if rng.random() < 0.15 else rng.uniform(-2.0, 300.0))


def _num(rng, mode: str) -> float:
    """A general float field: repr-exact in text, float32 in binary."""
    v = rng.choice((0.0, 1.0, -1.0, 0.5, 0.1, 1e-05, 123456.789, rng.uniform(-10, 10), rng.uniform(0, 1),
                    -0.0, 1e-39, 1e+20, -123456789.0, 2.0 ** 31, 16777217.0))  # negative zero, a float32 denormal, values that print with an exponent
    return v if mode == 'text' else f32(v)


def _q(rng, mode: str, steps: int = 255) -> float:
    """A 0..1 value: any float in text, k/steps (exactly what the binary field stores) otherwise."""
    if mode == 'text':
        return rng.choice((0.0, 1.0, rng.random(), round(rng.random(), 3)))
    return rng.randrange(steps + 1) / float(steps)


def _samples(rng, mode: str, curve_types: bool, n_max: int = 4) -> list:
    from srctools import choreo
    out = []
    for _ in range(rng.choice((0, 1, 2, n_max))):
        ct = _curve_type(rng) if curve_types else choreo.CURVE_DEFAULT
        # In text the sample value is not quantised; in binary it is one byte.
        val = rng.choice((rng.uniform(-1, 2), rng.random(), 0.0, 1.0)) if mode == 'text' else _q(rng, mode)
        out.append(choreo.ExpressionSample(_time(rng, mode), val, ct))
        if rng.random() < 0.2:
            out.append(_copy.deepcopy(out[-1]))  # a record equal to its predecessor (held value)
    return out


def _edge(rng, mode: str):
    from srctools import choreo
    if mode != 'text' or rng.random() < 0.6:
        return choreo.CurveEdge(False)
    return choreo.CurveEdge(True, rng.choice((0.0, 0.5, rng.random())), _curve_type(rng, 0.3))


def _curve(rng, mode: str, event: bool):
    from srctools import choreo
    ramp = _samples(rng, mode, curve_types=(mode == 'text'))
    left, right = _edge(rng, mode), _edge(rng, mode)
    return choreo.Curve(ramp, left, right)


_ABS_WIDE: Optional[bool] = None


def abs_tags_wide() -> bool:
    """Can an AbsoluteTag hold its documented range [0, 16)?  (Capability probe; the abs-tag engine reports a no.)"""
    global _ABS_WIDE
    if _ABS_WIDE is None:
        from srctools import choreo
        try:
            choreo.AbsoluteTag('probe', 2.5)
            _ABS_WIDE = True
        except ValueError:
            _ABS_WIDE = False
    return _ABS_WIDE


def abs_value(rng, mode: str, wide: bool) -> float:
    """Absolute tag value: k/4096 as a 16-bit field stores it (any float in text); > 1.0 only when `wide`."""
    if wide and rng.random() < 0.6:
        return rng.uniform(1.0, 15.99) if mode == 'text' else rng.randrange(4097, 65536) / 4096.0
    return _q(rng, mode, 4096)


def _tags(rng, mode: str, cls, strs, timing: bool = False, absolute: bool = False) -> list:
    out = []
    for _ in range(rng.choice((0, 0, 1, 2, 3))):
        if timing:
            out.append(cls(strs(), _q(rng, mode), (rng.random() < 0.5) if mode == 'text' else False))
        elif absolute:
            out.append(cls(strs(), abs_value(rng, mode, abs_tags_wide())))
        else:
            out.append(cls(strs(), _q(rng, mode)))
        if rng.random() < 0.15:
            out.append(_copy.deepcopy(out[-1]))
    return out


def _flex_tracks(rng, mode: str, strs) -> list:
    from srctools import choreo
    out = []
    for _ in range(rng.choice((0, 0, 1, 2))):
        out.append(choreo.FlexAnimTrack(
            strs(), rng.random() < 0.7, _num(rng, mode), _num(rng, mode),
            [choreo.ExpressionSample(_time(rng, mode), _q(rng, mode), _curve_type(rng)) for _ in range(rng.choice((0, 1, 3)))],
            None if rng.random() < 0.5 else
            [choreo.ExpressionSample(_time(rng, mode), _q(rng, mode), _curve_type(rng)) for _ in range(rng.choice((0, 1, 2)))],
        ))
    return out


def gen_event(rng, mode: str, strs, flex: bool):
    from srctools import choreo
    etype = rng.choice(list(choreo.EventType))
    start = _time(rng, mode)
    if rng.random() < 0.3:
        end = -1.0
    else:
        end = _time(rng, mode)
    flags = choreo.EventFlags(rng.randrange(64)) if rng.random() < 0.7 else choreo.EventFlags.Active
    has_rel = rng.random() < 0.3
    if mode == 'text':
        dist = rng.choice((0.0, 0.0, 0.25, round(rng.uniform(0, 500), 2)))
    else:
        dist = _num(rng, mode)
    kw: Dict[str, Any] = dict(
        name=strs(), flags=flags, parameters=(strs(), strs() if rng.random() < 0.5 else '', strs() if rng.random() < 0.3 else ''),
        start_time=start, end_time=end, ramp=_curve(rng, mode, event=True),
        tag_name=strs() if has_rel else None, tag_wav_name=strs() if has_rel else None,
        dist_to_targ=dist,
        relative_tags=_tags(rng, mode, choreo.Tag, strs),
        timing_tags=_tags(rng, mode, choreo.TimingTag, strs, timing=True),
        absolute_playback_tags=_tags(rng, mode, choreo.AbsoluteTag, strs, absolute=True),
        absolute_shifted_tags=_tags(rng, mode, choreo.AbsoluteTag, strs, absolute=True),
        flex_anim_tracks=_flex_tracks(rng, mode, strs) if flex else [],
    )
    if mode == 'text':
        kw['pitch'] = rng.choice((0, 0, rng.randint(-100, 100)))
        kw['yaw'] = rng.choice((0, 0, rng.randint(-100, 100)))
        if flex and kw['flex_anim_tracks']:
            kw['default_curve_type'] = _curve_type(rng)
    if etype is choreo.EventType.Gesture:
        return choreo.GestureEvent(gesture_sequence_duration=_num(rng, mode), **kw)
    if etype is choreo.EventType.Loop:
        return choreo.LoopEvent(loop_count=rng.choice((-1, 0, 3, rng.randint(-128, 127))), **kw)
    if etype is choreo.EventType.Speak:
        cap = rng.choice(list(choreo.CaptionType))
        return choreo.SpeakEvent(
            caption_type=cap, cc_token=strs() if rng.random() < 0.5 else '',
            suppress_caption_attenuation=rng.random() < 0.4,
            # RULE: the combined-file bit is only stored for enabled captions (writer normalises it, as Valve does).
            use_combined_file=(rng.random() < 0.4) and cap is not choreo.CaptionType.Disabled,
            use_gender_token=rng.random() < 0.4, **kw)
    return choreo.Event(type=etype, **kw)


def gen_scene(rng, mode: str, flex: Optional[bool] = None):
    """mode: 'text' (VCD), 'bin' (BVCD with a Python-list pool), 'image' (BVCD inside scenes.image: latin-1, times >= 0)."""
    from srctools import choreo
    if flex is None:
        flex = mode != 'text'
    hostile = rng.choice((0.0, 0.2, 0.4))
    uni = 'é\xff\xa0' if mode == 'image' else 'é中ß\xa0'

    def strs() -> str:
        return rand_str(rng, 8, escapes=hostile, unicode=uni, struct_chars=hostile / 2, forbid='\x00')

    def events(n_choices) -> list:
        evs = [gen_event(rng, mode, strs, flex) for _ in range(rng.choice(n_choices))]
        if evs and rng.random() < 0.15:
            evs.insert(rng.randrange(len(evs) + 1), _copy.deepcopy(rng.choice(evs)))  # an exact copy of a sibling event
        return evs

    actors = []
    for _ in range(rng.choice((0, 1, 1, 2))):
        channels = [choreo.Channel(strs(), rng.random() < 0.7, events((0, 1, 2))) for _ in range(rng.choice((0, 1, 2)))]
        actors.append(choreo.Actor(strs(), rng.random() < 0.7, channels,
                                   strs() if mode == 'text' and rng.random() < 0.4 else ''))
    kw: Dict[str, Any] = dict(events=events((0, 1, 2)), actors=actors, ramp=_curve(rng, mode, event=False),
                              ignore_phonemes=rng.random() < 0.4)
    if mode == 'text':
        kw.update(map_name=strs() if rng.random() < 0.4 else '', fps=rng.choice((10, 60, 240, rng.randint(10, 240))),
                  use_frame_snap=rng.random() < 0.5,
                  scale_settings={strs(): strs() for _ in range(rng.choice((0, 0, 2, 5)))})
    else:
        kw.update(text_crc=rng.choice((0, 0xFFFFFFFF, rng.getrandbits(32))))
    return choreo.Scene(**kw)


def scene_nontrivial(scene) -> bool:
    """>= 1 optional block: any tag list, relative tag, ramp sample, flex track or subclass event."""
    for ev in scene.iter_events():
        if (ev.relative_tags or ev.timing_tags or ev.absolute_playback_tags or ev.absolute_shifted_tags
                or ev.flex_anim_tracks or ev.tag_name is not None or ev.ramp.ramp
                or type(ev).__name__ != 'Event'):
            return True
    return bool(scene.ramp.ramp or scene.scale_settings)


def model_summary(scene) -> Tuple[float, float, List[str]]:
    """Harness-side model of an entry summary: (duration s, last speak s, sorted sounds)."""
    from srctools import choreo
    dur = speak = 0.0
    first = first_s = True
    sounds = set()
    for ev in scene.iter_events():
        t = ev.end_time if ev.end_time != -1.0 else ev.start_time
        dur = t if first else max(dur, t)
        first = False
        if isinstance(ev, choreo.SpeakEvent):
            speak = t if first_s else max(speak, t)
            first_s = False
            sounds.add(ev.parameters[0])
            if ev.caption_type is choreo.CaptionType.Master or (
                    ev.caption_type is choreo.CaptionType.Slave and not ev.use_combined_file):
                sounds.add(ev.cc_token or ev.parameters[0])
    return dur, speak, sorted(sounds)


# ------------------------------------------------------------------------------------------------ sndscript
def gen_sounds(rng) -> list:
    from srctools import sndscript as ss
    from srctools.keyvalues import Keyvalues
    out = []
    seen = set()

    def plain(n: int = 10) -> str:
        # RULE: names and wave paths are written unescaped, so no quote, backslash or line break.
        return rand_str(rng, n, escapes=0.0, struct_chars=0.1, forbid='"\\\r\n', empty=0.0) or 'x'

    def interval(enums: list, lo: float, hi: float):
        def one():
            if enums and rng.random() < 0.4:
                return rng.choice(enums)
            return rng.choice((round(rng.uniform(lo, hi), 2), float(rng.randint(int(lo), int(hi))), 1e-05, 2.5e+16))
        a = one()
        r = rng.random()
        if r < 0.4:
            return (a, a)
        return (a, one())

    def stack(depth: int = 2):
        def node(d):
            name = rand_str(rng, 8, escapes=0.1, struct_chars=0.0, forbid='\r\n', empty=0.0, unicode='') or 'op'
            if d <= 0 or rng.random() < 0.6:
                return Keyvalues(name, rand_str(rng, 8, escapes=0.15, struct_chars=0.1, unicode=''))
            return Keyvalues(name, [node(d - 1) for _ in range(rng.choice((0, 1, 3)))])
        r = rng.random()
        if r < 0.5:
            return None
        if r < 0.6:
            return Keyvalues('', [])
        return Keyvalues('', [node(depth) for _ in range(rng.choice((1, 2, 3)))])

    for _ in range(rng.choice((1, 1, 2, 4))):
        name = plain(12)
        if name.casefold() in seen:
            continue
        seen.add(name.casefold())
        chars = ''.join(rng.sample(list(ss.CHAR_TO_FLAG), rng.choice((0, 0, 1, 3))))
        waves = [chars + plain(14) + rng.choice(('.wav', '.mp3', '')) for _ in range(rng.choice((0, 1, 1, 1, 2, 4)))]
        if waves and rng.random() < 0.2:
            waves.insert(rng.randrange(len(waves) + 1), rng.choice(waves))  # the same wave listed twice (weights it)
        out.append(ss.Sound(
            name, waves,
            volume=interval([ss.VOL_NORM], 0, 2) if rng.random() < 0.7 else (1.0, 1.0),
            channel=rng.choice(list(ss.Channel)) if rng.random() < 0.8 else rng.randint(-3, 200),
            level=interval(list(ss.Level), 0, 180),
            pitch=interval(list(ss.Pitch), 0, 255) if rng.random() < 0.7 else (100.0, 100.0),
            stack_start=stack(), stack_update=stack(), stack_stop=stack(),
            force_v2=rng.random() < 0.3,
        ))
    return out


def snap_kv(kv) -> Any:
    if kv.has_children():
        return [kv.real_name, [snap_kv(c) for c in kv]]
    return [kv.real_name, kv.value]


def snap_sound(s) -> Any:
    def stack(kv) -> list:
        if kv is None or not kv.has_children():
            return []
        return [snap_kv(c) for c in kv]
    stacks = [stack(s._stack_start), stack(s._stack_update), stack(s._stack_stop)]
    return {
        'name': s.name, 'sounds': list(s.sounds), 'volume': snap(s.volume), 'channel': snap(s.channel),
        'level': snap(s.level), 'pitch': snap(s.pitch), 'stacks': stacks,
        # v2-ness is what the file records: forced, or implied by a non-empty stack.
        'v2': bool(s.force_v2 or any(stacks)),
    }


def sound_nontrivial(s) -> bool:
    sn = snap_sound(s)
    return sn['v2'] or len(s.sounds) != 1 or s.volume[0] != s.volume[1] or s.level[0] != s.level[1] or s.pitch[0] != s.pitch[1]


# ------------------------------------------------------------------------------------------------ VMT
def gen_material(rng):
    from srctools.vmt import Material
    from srctools.keyvalues import Keyvalues
    hostile = rng.choice((0.0, 0.15, 0.3))

    def s(n: int = 10, empty: float = 0.1) -> str:
        # RULE: VMT has no escape mechanism, so no double quote; single-line strings only.
        return rand_str(rng, n, escapes=hostile, struct_chars=hostile, forbid='"\r\n', empty=empty)

    def name() -> str:
        n = s(10, 0.0)
        if not n.strip():
            n = '$x'
        return rng.choice(('$', '%', '')) + n

    params: Dict[str, str] = {}
    for _ in range(rng.choice((0, 1, 3, 6))):
        n = name()
        if rng.random() < 0.05:
            n = ''   # an empty name is a string like any other (it has to be written quoted)
        if n.casefold() not in {k.casefold() for k in params}:
            params[n] = rng.choice((s(14), '[1 0.5 0]', 'models\\props\\metal01', '{255 255 255}', 'center .5 .5 scale 1 1 rotate 0 translate 0 0', '1'))

    def block(depth: int, nm: Optional[str] = None):
        kids = []
        for _ in range(rng.choice((0, 1, 2, 4))):
            if depth > 0 and rng.random() < 0.25:
                kids.append(block(depth - 1))
            else:
                kids.append(Keyvalues(name(), rng.choice((s(12), 'models\\a\\b', "it's", 'a\tb'))))
        bn = nm if nm is not None else name()
        if bn.casefold() == 'proxies':
            bn += '_'
        return Keyvalues(bn, kids)

    blocks = [block(2, rng.choice(('>=dx90', 'LightmappedGeneric_dx8', 'insert', 'replace', None))) for _ in range(rng.choice((0, 0, 1, 2)))]
    proxies = [block(1, rng.choice(('Sine', 'TextureScroll', 'Equals', None))) for _ in range(rng.choice((0, 0, 1, 3)))]
    shader = rng.choice(('LightmappedGeneric', 'VertexLitGeneric', 'patch', 'UnlitGeneric', 'Water_DX60', 'x',
                         'My Shader', 'Lightmapped{Generic}', '#Shader'))   # names the reader only accepts when they are quoted
    return Material(shader, params, blocks, proxies)


def snap_material(m) -> Any:
    return {'shader': m.shader, 'params': [[k, m[k]] for k in m],
            'blocks': [snap_kv(b) for b in m.blocks], 'proxies': [snap_kv(p) for p in m.proxies]}


# ------------------------------------------------------------------------------------------------ PCF
RESERVED_PCF = {'renderers', 'operators', 'initializers', 'emitters', 'forces', 'constraints', 'children', 'name',
                'functionname'}


def _pcf_attr(rng, name: str):
    from srctools.dmx import Attribute

    def fl() -> float:
        return rng.randint(-1600, 1600) / 16.0
    kind = rng.randrange(9)
    if kind == 0:
        return Attribute.int(name, rng.randint(-2 ** 31, 2 ** 31 - 1) if rng.random() < 0.2 else rng.randint(-50, 5000))
    if kind == 1:
        return Attribute.float(name, fl())
    if kind == 2:
        return Attribute.bool(name, rng.random() < 0.5)
    if kind == 3:
        return Attribute.string(name, rng.choice(('', 'particle\\smoke.vmt', 'editor/cone_helper.mdl', 'a b c', 'Test_Child')))
    if kind == 4:
        return Attribute.vec2(name, fl(), fl())
    if kind == 5:
        return Attribute.vec3(name, fl(), fl(), fl())
    if kind == 6:
        return Attribute.vec4(name, fl(), fl(), fl(), fl())
    if kind == 7:
        return Attribute.color(name, rng.randrange(256), rng.randrange(256), rng.randrange(256), rng.randrange(256))
    return Attribute.int(name, [rng.randint(-9, 9) for _ in range(rng.choice((0, 1, 3)))]) if rng.random() < 0.5 else \
        Attribute.float(name, [fl() for _ in range(rng.choice((0, 2)))])


ATTR_NAMES = ['max_particles', 'material', 'Visibility Proxy Radius', 'radius_min', 'Color1', 'animation rate',
              'orient model Z to normal', 'cull_radius', 'Sort particles', 'rate', 'lifetime_MAX', 'bounding_box_min']


def _pcf_options(rng, n_choices, keyfold: bool) -> Dict[str, Any]:
    out: Dict[str, Any] = {}
    for _ in range(rng.choice(n_choices)):
        nm = rng.choice(ATTR_NAMES)
        if rng.random() < 0.3:
            nm = nm + str(rng.randrange(4))
        if nm.casefold() in out or nm.casefold() in RESERVED_PCF:
            continue
        out[nm.casefold()] = _pcf_attr(rng, nm)
    return out


def gen_particles(rng) -> list:
    from srctools.particles import Particle, Operator, Child
    names: List[str] = []
    for _ in range(rng.choice((1, 1, 2, 4))):
        nm = rng.choice(('test_part', 'Smoke_Big', 'child', 'fx/sparks')) + rng.choice(('', '_1', '_B'))
        if nm.casefold() not in {n.casefold() for n in names}:
            names.append(nm)
    parts = []
    for nm in names:
        def ops() -> list:
            return [Operator(rng.choice(('sprite_anim', 'Op A', 'mdl_error', '')),
                             rng.choice(('render_animated_sprites', 'Render models', 'Movement Basic', 'Lifespan Decay')),
                             _pcf_options(rng, (0, 1, 3), keyfold=True)) for _ in range(rng.choice((0, 0, 1, 2)))]
        parts.append(Particle(
            nm, _pcf_options(rng, (0, 2, 5), keyfold=True), ops(), ops(), ops(), ops(), ops(), ops(),
            # RULE: children must name a system in the same file (they are element references).
            [Child(rng.choice(names)) for _ in range(rng.choice((0, 0, 1, 2)))],
        ))
    return parts


def snap_attr(a) -> Any:
    from srctools.dmx import ValueType as VT
    t = a.type
    if t is VT.INT:
        vals: list = list(a.iter_int())
    elif t is VT.FLOAT:
        vals = list(a.iter_float())
    elif t is VT.BOOL:
        vals = list(a.iter_bool())
    elif t is VT.STRING:
        vals = list(a.iter_str())
    elif t is VT.VEC2:
        vals = [list(v) for v in a.iter_vec2()]
    elif t is VT.VEC3:
        vals = [list(v) for v in a.iter_vec3()]
    elif t is VT.VEC4:
        vals = [list(v) for v in a.iter_vec4()]
    elif t is VT.COLOR:
        vals = [list(v) for v in a.iter_color()]
    elif t is VT.ANGLE:
        vals = [list(v) for v in a.iter_angle()]
    elif t is VT.QUATERNION:
        vals = [list(v) for v in a.iter_quat()]
    elif t is VT.TIME:
        vals = [float(v) for v in a.iter_time()]
    elif t is VT.BINARY:
        vals = [bytes(v) for v in a.iter_bytes()]
    else:
        vals = [repr(v) for v in a._value] if a.is_array else [repr(a._value)]
    return {'name': a.name, 'type': t.name, 'array': a.is_array, 'values': vals}


def snap_particle(p) -> Any:
    def opts(d) -> list:
        # The reader mirrors the element's own name into options['name']; it is derived data, not compared.
        return [[k.casefold(), snap_attr(v)] for k, v in d.items() if k.casefold() != 'name']

    def oplist(lst) -> list:
        return [{'name': o.name, 'function': o.function, 'options': opts(o.options)} for o in lst]
    return {'name': p.name, 'options': opts(p.options),
            **{k: oplist(getattr(p, k)) for k in ('renderers', 'operators', 'initializers', 'emitters', 'forces', 'constraints')},
            'children': [c.particle.casefold() for c in p.children]}


# ------------------------------------------------------------------------------------------------ SMD
def gen_mesh(rng):
    from srctools.smd import Mesh, Bone, BoneFrame, Vertex, Triangle
    from srctools.math import Vec, Angle

    def d6(lo: float, hi: float) -> float:
        # RULE: every float column is written with %.6f.
        return round(rng.uniform(lo, hi), 6) if rng.random() < 0.8 else float(rng.randint(int(lo), int(hi)))

    def bone_name() -> str:
        # RULE: ASCII; '"' ends the quoted name; '#', ';' and '//' start a comment for the reader.
        return rand_str(rng, 10, escapes=0.0, struct_chars=0.1, unicode='', forbid='"#;/\\', empty=0.0) or 'b'

    bones: Dict[str, Any] = {}
    order: List[Any] = []
    for _ in range(rng.choice((1, 2, 3, 6, 10))):
        nm = bone_name()
        if nm in bones:
            continue
        parent = rng.choice(order) if order and rng.random() < 0.8 else None
        b = Bone(nm, parent)
        bones[nm] = b
        order.append(b)
    if rng.random() < 0.5:
        # The mapping may list children before parents; the writer has to sort that out.
        shuffled = order[:]
        rng.shuffle(shuffled)
        bones = {b.name: b for b in shuffled}

    def rot() -> Any:
        # RULE: rotations are stored as radians with 6 decimals; representable angles are degrees(r), 0 <= r < 2*pi.
        return Angle(*(math.degrees(round(rng.uniform(0.0, 6.283185), 6)) if rng.random() < 0.8 else 0.0 for _ in range(3)))

    anim: Dict[int, list] = {}
    times = sorted({rng.randint(-2, 30) for _ in range(rng.choice((0, 1, 1, 3)))})
    if rng.random() < 0.3:
        times.reverse()
    held: Dict[str, Any] = {}  # a bone often HOLDS its pose from one time block to the next (static root bones)
    hold_p = rng.choice((0.0, 0.5, 1.0))
    for t in times:
        frames = []
        for b in order:
            if rng.random() >= 0.8:
                continue
            if b.name in held and rng.random() < hold_p:
                pos, ang = held[b.name]
                frames.append(BoneFrame(b, pos.copy(), ang.copy()))
            else:
                pos, ang = Vec(d6(-100, 100), d6(-100, 100), d6(-100, 100)), rot()
                held[b.name] = (pos.copy(), ang.copy())
                frames.append(BoneFrame(b, pos, ang))
        anim[t] = frames

    def mat() -> str:
        # RULE: the reader drops a file extension and trailing slashes/blanks, treats "end" as the terminator and
        # strips comments: materials are non-empty ASCII words without '.', '#', ';', '//' or edge blanks.
        while True:
            m = rng.choice(('metal/wall01', 'tools\\toolsnodraw', 'Brick 01', 'a', 'END_', 'phy'))
            if rng.random() < 0.3:
                m = (rand_str(rng, 9, escapes=0.0, struct_chars=0.1, unicode='', forbid='"#;/\\.', empty=0.0).strip() or 'm')
            if m != 'end':
                return m

    def vert() -> Any:
        if rng.random() < 0.6:
            links = [(rng.choice(order), 1.0 if rng.random() < 0.7 else d6(0, 1))]   # one link, sometimes with a weight of its own
        else:
            links = [(rng.choice(order), d6(0, 1)) for _ in range(rng.choice((2, 2, 3, 4)))]
        # (normals are not always unit vectors in hand-made or scaled meshes: every column is a plain %.6f number)
        nlim = 1 if rng.random() < 0.7 else rng.choice((3, 20, 1000))
        return Vertex(Vec(d6(-512, 512), d6(-512, 512), d6(-512, 512)), Vec(d6(-nlim, nlim), d6(-nlim, nlim), d6(-nlim, nlim)),
                      d6(-4, 4), d6(-4, 4), links)

    tris = [Triangle(mat(), vert(), vert(), vert()) for _ in range(rng.choice((0, 1, 2, 5)))]
    return Mesh(bones, anim, tris)


def snap_mesh(m) -> Any:
    def vsnap(v) -> Any:
        return {'pos': [v.pos.x, v.pos.y, v.pos.z], 'norm': [v.norm.x, v.norm.y, v.norm.z], 'u': v.tex_u, 'v': v.tex_v,
                'links': [[b.name, w] for b, w in v.links]}
    return {
        'bones': sorted([name, b.name, b.parent.name if b.parent is not None else None] for name, b in m.bones.items()),
        'animation': [[t, [[f.bone.name, [f.position.x, f.position.y, f.position.z],
                            [f.rotation.pitch, f.rotation.yaw, f.rotation.roll]] for f in frames]]
                      for t, frames in sorted(m.animation.items())],
        'triangles': [[t.mat, [vsnap(v) for v in t]] for t in m.triangles],
    }


def mesh_nontrivial(m) -> bool:
    return bool(m.triangles) and (len(m.bones) > 1 or any(len(v.links) > 1 for t in m.triangles for v in t))
