"""Runtime-verification harness for the srctools properties (see /verif/DESIGN.md)."""
from .bootstrap import REPO, VERIF, TIER, SEED, boot  # noqa: F401
from .monitor import Run, Inconclusive  # noqa: F401
