"""Path pinning: make sure the srctools that gets imported is /repo/src's pure-Python tree.

Importing the wrong srctools (the 2.7.0 wheel in site-packages) would make every check vacuous,
so a mismatch is an INCONCLUSIVE outcome (exit 2), never "held".
"""
from __future__ import annotations

import os
import sys

VERIF = os.path.dirname(os.path.dirname(os.path.abspath(__file__)))
# VERIF_REPO lets the self-validation runs point the same checks at a scratch worktree carrying a
# deliberately broken tree.  The registered commands never set it, so they run against /repo.
REPO = os.path.abspath(os.environ.get('VERIF_REPO', '/repo'))
TIER = os.environ.get('VERIF_TIER', 'quick')
try:
    SEED = int(os.environ.get('VERIF_SEED', '0') or 0)
except ValueError:
    SEED = 0
GUARD = 'SRCTOOLS_VERIF'

_booted = False


def boot() -> None:
    """Put /repo/src first on sys.path and verify what was imported."""
    global _booted
    if _booted:
        return
    src = os.path.join(REPO, 'src')
    for p in (os.path.join(VERIF, '.deps'), os.path.join(VERIF, 'shim'), src):
        if p in sys.path:
            sys.path.remove(p)
        sys.path.insert(0, p)
    os.environ.setdefault(GUARD, '1')
    # Never pick up byte-code caches written for another tree.
    sys.dont_write_bytecode = True
    try:
        import srctools
        import srctools.tokenizer
        import srctools.math
        import srctools.vtf
    except Exception as exc:  # pragma: no cover
        print(f'INCONCLUSIVE bootstrap: cannot import srctools from {src}: {exc!r}')
        sys.exit(2)
    here = os.path.realpath(srctools.__file__)
    if not here.startswith(os.path.realpath(src) + os.sep):
        print(f'INCONCLUSIVE bootstrap: srctools imported from {here}, expected under {src}')
        sys.exit(2)
    for mod, attr in ((srctools.tokenizer, 'Tokenizer'), (srctools.math, 'Vec')):
        cls = getattr(mod, attr)
        if cls is not getattr(mod, 'Py_' + attr, None):
            print(f'INCONCLUSIVE bootstrap: {attr} is {cls!r}, not the Python implementation')
            sys.exit(2)
    _booted = True
