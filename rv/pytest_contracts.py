"""pytest plugin: run the repository's tests with rv.contracts attached; dump what the contracts saw as JSON."""
import json
import os

from rv import contracts


def pytest_configure(config):
    config._rv_installed = contracts.install()


def pytest_runtest_setup(item):
    contracts.STATE['current_test'] = item.nodeid


def pytest_unconfigure(config):
    path = os.environ.get('RV_CONTRACT_REPORT')
    if path:
        with open(path, 'w') as f:
            json.dump({'installed': getattr(config, '_rv_installed', []), 'evaluations': contracts.STATE['evaluations'],
                       'violations': contracts.STATE['violations']}, f)
