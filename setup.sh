#!/bin/bash
# Offline setup: install the runtime-contract libraries beside the harness (no network needed).
cd "$(dirname "$0")" || exit 1
set -e
if [ ! -d .deps/icontract ]; then
  PIP_NO_INDEX=1 /venv/bin/python -m pip install --quiet --no-index --find-links /opt/veriftools/wheels \
      --target .deps icontract deal >/dev/null 2>&1 || echo "setup: icontract/deal not installed (checks fall back to plain wrappers)"
fi
mkdir -p evidence replays
/venv/bin/python - <<'PY'
import sys
sys.path[:0] = ['/repo/src', 'shim', '.deps']
import srctools
assert srctools.__file__.startswith('/repo/src'), srctools.__file__
print('setup ok: srctools from', srctools.__file__)
PY
