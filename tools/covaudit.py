#!/usr/bin/env python3
"""covaudit.py PROP [PROP...] [--tier quick]: which lines of the code a property is anchored in does its check never execute?

A line the workload never runs is a guaranteed blind spot: a change there cannot be observed.  The check runs in one
process (--jobs 1) under coverage.py's C tracer (sys.settrace based, so it does not collide with the sys.monitoring
probes of the checks); missing lines are grouped by function for the files named in the property's anchors.
Output: /root/work/cov/<PROP>.txt (outside /verif; conclusions are recorded in DESIGN.md by hand).
"""
import ast
import json
import os
import subprocess
import sys

args = sys.argv[1:]
tier = 'quick'
if '--tier' in args:
    tier = args[args.index('--tier') + 1]
props = [a for a in args if a.startswith('C') and len(a) == 3]
anchors = {}
for line in open('/verif/properties.jsonl'):
    d = json.loads(line)
    anchors[d['id']] = [f for f in d['anchors']['files'] if f.endswith('.py')]
os.makedirs('/root/work/cov', exist_ok=True)
for prop in props:
    data = f'/root/work/cov/{prop}.cov'
    for f in os.listdir('/root/work/cov'):
        if f.startswith(f'{prop}.cov'):
            os.remove(os.path.join('/root/work/cov', f))
    env = dict(os.environ, PYTHONHASHSEED='0', PYTHONPATH='/verif', COVERAGE_CORE='ctrace', COVERAGE_FILE=data)
    cp = subprocess.run(['/venv/bin/python', '-m', 'coverage', 'run', '--source=/repo/src/srctools', '-m', 'rv.cli', prop, '--tier', tier,
                         '--jobs', '1'], cwd='/verif', env=env, capture_output=True, text=True)
    last = cp.stdout.strip().splitlines()[-1] if cp.stdout.strip() else cp.stderr[-300:]
    out = [f'{prop}: {last}']
    js = f'/root/work/cov/{prop}.json'
    subprocess.run(['/venv/bin/python', '-m', 'coverage', 'json', '-o', js, '-q'], env=env, cwd='/verif', capture_output=True)
    if not os.path.exists(js):
        out.append('no coverage data')
        print('\n'.join(out))
        continue
    cov = json.load(open(js))['files']
    for rel in anchors[prop]:
        path = os.path.join('/repo', rel)
        info = cov.get(path)
        if info is None:
            out.append(f'  {rel}: never imported')
            continue
        missing = set(info['missing_lines'])
        src = open(path).read()
        lines = src.splitlines()
        tree = ast.parse(src)
        funcs = []

        def walk(node, prefix):
            for ch in ast.iter_child_nodes(node):
                if isinstance(ch, (ast.FunctionDef, ast.AsyncFunctionDef)):
                    funcs.append((prefix + ch.name, ch.lineno, ch.end_lineno))
                    walk(ch, prefix + ch.name + '.')
                elif isinstance(ch, ast.ClassDef):
                    walk(ch, prefix + ch.name + '.')
        walk(tree, '')
        out.append(f'  {rel}: {info["summary"]["percent_covered"]:.0f}% of {info["summary"]["num_statements"]} statements')
        never = []
        for name, lo, hi in funcs:
            body = [l for l in range(lo, hi + 1)]
            miss = sorted(l for l in body if l in missing)
            executed = [l for l in body if l in set(info['executed_lines'])]
            if not miss:
                continue
            if len(executed) <= 1:
                never.append(name)
                continue
            out.append(f'    {name} ({lo}-{hi}): {len(miss)} lines never run')
            for l in miss[:40]:
                out.append(f'        {l}: {lines[l - 1].strip()[:110]}')
        out.append('    NEVER CALLED: ' + ', '.join(never))
    open(f'/root/work/cov/{prop}.txt', 'w').write('\n'.join(out) + '\n')
    print(out[0], '->', f'/root/work/cov/{prop}.txt', flush=True)
