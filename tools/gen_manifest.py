#!/usr/bin/env python3
"""Regenerate MANIFEST.json from the check modules that exist (run from /verif)."""
import json
import os
import re
import sys

HERE = os.path.dirname(os.path.dirname(os.path.abspath(__file__)))

META = {
    'C01': ('exploration', 'seeded tree generator + structural comparer (never Keyvalues.__eq__) over serialise/parse under all option and delivery combinations; reach probe on _serialise/parse/_handle_string',
            'round-trip law monitored on generated executions'),
    'C02': ('exploration', 'inverse law monitored on every string of a bounded exhaustive core (18-symbol escape alphabet) plus random Unicode and embedded-line contexts read by the owning parsers',
            'inverse-law monitor, exhaustive bounded core + random'),
    'C03': ('exploration', 'metamorphic monitor: the single-string token trace is the reference for every chunking/line/file delivery; exception-type, EOF-stickiness and logical step-count monitors; exhaustive core over a syntax alphabet x 2^7 options x all chunkings',
            'trace-equality monitor over delivery schedules + step counter'),
    'C04': ('exploration', 'algebraic laws (orthonormality, convention, associativity, to_angle round trip, inverse=transpose, operand-type matrix) asserted on generated executions against an independent rotation model; ASan/UBSan build of _math_matrix.cpp as auxiliary engine',
            'algebraic-law monitors + independent model + sanitizer build of mat3_inverse'),
    'C05': ('exploration', 'random operation histories over the Vec/Angle/Matrix API with an invariant check after every step (range, frozen snapshots, copy independence, text form) plus a sys.monitoring return-value probe on every Angle returned inside math.py',
            'invariant-at-hook monitor over operation histories'),
    'C06': ('exploration', 'generated maps exported, parsed, exported again; harness graph walker compares every field with the stated tolerances; text fixed point modulo ID bijection',
            'fixed-point + field-by-field round-trip monitor'),
    'C07': ('exploration', 'random mutation histories with the scan-of-entities model compared to by_class/by_target/search after every public mutator (post-call wrappers)',
            'history + executable model, invariant after every mutator'),
    'C08': ('exploration', 'random allocation/removal/GC histories with a uniqueness scan of all reachable IDs after every step and on the exported text',
            'history + invariant scan'),
    'C09': ('exploration', 'export-text snapshots of original and copy before/after mutating every reachable mutable on one side; operand snapshots around non-mutating operators',
            'aliasing monitor via export snapshots'),
    'C10': ('exploration', 'synthesised BSPs of several layouts (independent encoder) read, view subsets touched, saved, re-read; raw bytes for unowned lumps, canonical parsed content for owned, idempotence of second save',
            'differential save/re-read monitor over access subsets'),
    'C11': ('exploration', 'per-view generated values assigned, saved, re-read and compared field by field on each synthesised layout; over-range values must raise',
            'writer/reader inverse monitor per lump'),
    'C12': ('fault_enumeration', 'failpoint layer numbering every file operation of AtomicWriter / BSP.save; at every boundary x {crash via fork+_exit, EIO, ENOSPC, EACCES} the directory is inspected; deterministic two-writer interleavings; strace inject= replays in thorough',
            'fault/crash-point enumeration with on-disk state oracle'),
    'C13': ('exploration', 'random operation histories against a dict model, fresh reopen + verify_all + independent VPK v1 directory decoder',
            'history + executable model + independent decoder'),
    'C14': ('exploration', 'generated element graphs exported in every binary version and text layout, parsed back and compared by a graph-isomorphism walker; KV1 bridge round trip',
            'graph-isomorphism round-trip monitor'),
    'C15': ('exploration', 'generated textures saved/read under every uncompressed format, version and layout; metadata/pixel/quantisation/bounds/mipmap monitors with an independent quantisation model',
            'round-trip + reference quantisation model'),
    'C16': ('exploration', 'generated FGDs and the bundled database exported, re-parsed, compared field by field; binary serialise/unserialise; lazy engine_def in random orders vs whole-database load',
            'round-trip + order-independence monitor'),
    'C17': ('exploration', 'generated instance files collapsed at generated placements; geometric law checked with independent rotation code; template export snapshots; placement-relation between repeated collapses; bounded-progress counter on recursive graphs',
            'geometric-law monitor + template immutability + bounded progress'),
    'C18': ('exploration', 'path grammar enumerated exhaustively to a bounded number of segments against a planted decoy tree; audit hook records every open/scandir and any real path outside the root refutes',
            'audit-hook containment monitor, exhaustive bounded path grammar'),
    'C19': ('exploration', 'one generated file set loaded into Virtual/Zip/VPK/Raw backends and chains; every spelling and folder prefix compared with a casefolded reference model',
            'differential monitor across backends + reference model'),
    'C20': ('exploration', 'per-format generators restricted to the representable alphabet; read(write(x)) compared by harness comparers and second-generation bytes compared; scenes.image ordering/summary monitors',
            'round-trip + idempotence monitor per format'),
}

NOTE = ('Pure-Python implementations imported from /repo/src (the Cython accelerators cannot be rebuilt in this '
        'sandbox); trusted base: CPython 3.12, the harness generators/comparers, the importlib_resources shim. '
        'Held means: no refuting observation on the executions listed in the evidence file.')


def main() -> None:
    props = [json.loads(l) for l in open(os.path.join(HERE, 'properties.jsonl'))]
    checks = []
    na = []
    pending = {}
    pend_path = os.path.join(HERE, 'tools', 'not_applicable.json')
    if os.path.exists(pend_path):
        pending = json.load(open(pend_path))
    for p in props:
        pid = p['id']
        mod = os.path.join(HERE, 'checks', pid.lower() + '.py')
        ready = open(os.path.join(HERE, 'tools', 'ready.txt')).read().split()
        if not os.path.exists(mod) or pid in pending or pid not in ready:
            na.append({'property_id': pid, 'reason': pending.get(pid, 'check not built yet in this session (work in progress; the design is in DESIGN.md section 2)')})
            continue
        level, text, tech = META[pid]
        src = open(mod).read()
        has_thorough = True
        entry = {
            'property_id': pid,
            'quick_cmd': f'./check {pid} --tier quick',
            'evidence_file': f'evidence/{pid}.json',
            'replay_cmd_template': f'./check {pid} --replay {{path}}',
            'engine': 'rv',
            'level_claimed': {'category': level, 'text': text, 'design_ref': f'DESIGN.md section 2, {pid}'},
            'level_note': NOTE,
            'technique': 'runtime monitoring: ' + tech,
        }
        if has_thorough:
            entry['thorough_cmd'] = f'./check {pid} --tier thorough'
        checks.append(entry)
    manifest = {
        'version': 1,
        'setup_cmd': './setup.sh',
        'hooks': {
            'guard': 'SRCTOOLS_VERIF',
            'enable': 'no source hook is needed: checks import /repo/src directly and instrument from outside (sys.monitoring, audit hooks, interposed os/io callables); the variable is exported for form',
            'baseline_off_cmd': 'cd /repo && env -u SRCTOOLS_VERIF /venv/bin/python -m pytest -ra -q -p no:cacheprovider --timeout=900 --continue-on-collection-errors',
            'source_commits': [],
            'add_only': True,
        },
        'engines': [
            {'name': 'rv', 'path': 'rv/', 'serves_properties': [c['property_id'] for c in checks],
             'kind_free_text': 'Python runtime-monitoring harness: seeded workload generators, reference models, sys.monitoring probes, failpoint layer, audit hooks; three-valued verdicts'},
        ],
        'checks': checks,
        'not_applicable': na,
        'notes': 'See DESIGN.md. Exit codes: 0 held on what was observed, 1 violation (VIOLATION line), 2 inconclusive (monitor not reached / watchdog). known_findings.json lists genuine defects by mechanism.',
    }
    with open(os.path.join(HERE, 'MANIFEST.json'), 'w') as f:
        json.dump(manifest, f, indent=1)
        f.write('\n')
    print(f'MANIFEST: {len(checks)} checks, {len(na)} not_applicable')


if __name__ == '__main__':
    main()
