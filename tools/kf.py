#!/usr/bin/env python3
"""kf.py fixed|known <prop> <key> <commit|-> <what...>  -- maintain known_findings.json (never run by checks)."""
import json, sys, os
p = os.path.join(os.path.dirname(os.path.dirname(os.path.abspath(__file__))), 'known_findings.json')
d = json.load(open(p))
status, prop, key, commit = sys.argv[1:5]
what = ' '.join(sys.argv[5:])
d['findings'] = [e for e in d['findings'] if not (e['property'] == prop and e['key'] == key)]
ent = {'property': prop, 'key': key, 'status': status, 'what': what}
if status == 'fixed':
    ent['commit'] = commit
    ent['line'] = f'fixed: property={prop} {commit} {what}'
else:
    ent['line'] = f'known: property={prop} {key} {what}'
d['findings'].append(ent)
d['findings'].sort(key=lambda e: (e['property'], e['key']))
json.dump(d, open(p, 'w'), indent=1); open(p, 'a').write('\n')
print(ent['line'])
