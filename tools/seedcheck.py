#!/usr/bin/env python3
"""seedcheck.py <PROP> <seed-dir> <name> [--tier quick|thorough] [--keep]

Confirm an independently written seeded regression and run our check against it:
  1. scratch copy of /repo (outside /repo and /verif), `git apply` the patch;
  2. demo.py exits 1 on the patched copy and 0 on the clean tree;
  3. the repository's own tests still pass on the patched copy (pure-Python mode);
  4. `./check <PROP>` with VERIF_REPO=<patched copy> must report a VIOLATION.
With --keep the seed is stored as /verif/seeded/<name>/ (patch.diff, demo.py, README.md, meta.json).
The scratch copy is removed afterwards.
"""
import json
import os
import shutil
import subprocess
import sys
import tempfile

prop, seed_dir, name = sys.argv[1:4]
tier = 'quick'
if '--tier' in sys.argv:
    tier = sys.argv[sys.argv.index('--tier') + 1]
keep = '--keep' in sys.argv
patch = os.path.join(seed_dir, 'patch.diff')
demo = os.path.join(seed_dir, 'demo.py')
work = tempfile.mkdtemp(prefix='sv-', dir='/root/work')
res = {'property': prop, 'name': name}
try:
    subprocess.run(['rsync', '-a', '--exclude', '.git', '/repo/', work + '/'], check=True)
    subprocess.run(['git', 'init', '-q'], cwd=work, check=True)
    ap = subprocess.run(['git', 'apply', '--whitespace=nowarn', patch], cwd=work, capture_output=True, text=True)
    if ap.returncode != 0:
        print('PATCH DOES NOT APPLY:', ap.stderr[:500])
        sys.exit(3)
    stat = subprocess.run(['git', 'apply', '--stat', patch], cwd=work, capture_output=True, text=True).stdout.strip().splitlines()
    res['patch_stat'] = stat[-1] if stat else ''

    def run_demo(tree):
        src = open(demo).read()
        # demos hard-code their author's worktree path on sys.path / PYTHONPATH; run them with PYTHONPATH of `tree`
        env = dict(os.environ, PYTHONPATH=f'{tree}/src:/verif/shim', PYTHONHASHSEED='0')
        tmp = os.path.join(work, '_demo.py')
        import re
        open(tmp, 'w').write(re.sub(r'/tmp/wt-C\d+', tree, src))
        cp = subprocess.run(['/venv/bin/python', tmp], cwd=tree, env=env, capture_output=True, text=True, timeout=600)
        return cp.returncode, (cp.stdout + cp.stderr)[-400:]
    rc_bad, out_bad = run_demo(work)
    rc_good, out_good = run_demo('/repo')
    res['demo_on_patched'] = rc_bad
    res['demo_on_clean'] = rc_good
    print(f'demo: patched exit {rc_bad}, clean exit {rc_good}')
    if rc_bad == 0 or rc_good != 0:
        print('  patched output:', out_bad)
        print('  clean output:', out_good)
    tt = subprocess.run(['/verif/tools/treetest.sh'], env=dict(os.environ, TREE=work), capture_output=True, text=True)
    res['tree_tests'] = tt.stdout.strip().splitlines()[-1] if tt.stdout.strip() else 'no output'
    print('tree tests:', res['tree_tests'])
    env = dict(os.environ, VERIF_REPO=work)
    checks = [prop] + [a for a in sys.argv[4:] if a.startswith('C') and len(a) == 3]
    res['checks'] = {}
    for c in checks:
        cp = subprocess.run(['/verif/check', c, '--tier', tier], env=env, capture_output=True, text=True)
        lines = [l for l in cp.stdout.strip().splitlines() if not l.startswith('KNOWN-FINDING')]
        verdict = {0: 'MISSED', 1: 'CAUGHT', 2: 'INCONCLUSIVE'}.get(cp.returncode, str(cp.returncode))
        res['checks'][c] = {'tier': tier, 'exit': cp.returncode, 'verdict': verdict,
                            'first_violation': next((l.strip()[:300] for l in lines if l.strip().startswith('[')), '')}
        print(f'check {c} ({tier}): {verdict}')
        for l in lines[:4]:
            print('   ', l[:260])
    if keep:
        dest = os.path.join('/verif/seeded', name)
        os.makedirs(dest, exist_ok=True)
        for f in ('patch.diff', 'demo.py', 'README.md'):
            if os.path.exists(os.path.join(seed_dir, f)) and os.path.realpath(seed_dir) != os.path.realpath(dest):
                shutil.copy(os.path.join(seed_dir, f), os.path.join(dest, f))
        meta_path = os.path.join(dest, 'meta.json')
        meta = {}
        if os.path.exists(meta_path):
            meta = json.load(open(meta_path))
        meta.update({'breaks_property': prop, 'name': name, 'what_i_ran': f'tools/seedcheck.py {prop} <seed> {name} --tier {tier}',
                     'confirmed': {'patch_applies_to_repo_head': True, 'demo_exit_on_patched': rc_bad, 'demo_exit_on_clean': rc_good, 'tree_tests': res['tree_tests']},
                     'repo_head': subprocess.run(['git', '-C', '/repo', 'rev-parse', '--short', 'HEAD'], capture_output=True, text=True).stdout.strip()})
        meta.setdefault('check_results', {}).update(res['checks'])
        readme = os.path.join(seed_dir, 'README.md')
        if os.path.exists(readme):
            meta['needs_to_manifest'] = open(readme).read()[:1500]
        json.dump(meta, open(meta_path, 'w'), indent=1)
        print('stored in', dest)
finally:
    shutil.rmtree(work, ignore_errors=True)
