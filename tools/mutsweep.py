#!/usr/bin/env python3
"""mutsweep.py PROP relpath FUNC[,FUNC...] [--max N] [--jobs J] [--tier quick] [--seed S] [--tests tests/test_x.py,...]

Self-validation of one check by systematic small mutations of the code a property is anchored in (DESIGN.md 9.10).
For every sampled mutant of the named functions (qualified names such as `Keyvalues._serialise`, or `*` for the
whole file) in <relpath>:
   1. a scratch copy of /repo (outside /repo and /verif) gets the mutated file;
   2. `./check PROP --tier <tier>` runs with VERIF_REPO=<scratch copy>: exit 1 = killed, 0 = survived, 2 = inconclusive;
   3. for survivors, the repository's own tests named by --tests run on the mutated copy: a mutant that those tests
      kill is outside the brief ("still compiling and passing the existing tests"); one that survives both is
      either an equivalent mutant or a gap in the check, and is listed for reading.
Mutation operators: comparison swaps, and/or, dropped `not`, integer constants +-1, +/- swaps, statement deletion
(expression statements, augmented assignments, simple assignments), `if` condition forced true/false.
Results: /root/work/mutsweep/<PROP>-<file>.json (outside /verif; the summary goes into DESIGN.md by hand).
"""
import ast
import concurrent.futures as cf
import json
import os
import random
import shutil
import subprocess
import sys
import tempfile

args = sys.argv[1:]
prop, rel, funcs = args[0], args[1], args[2].split(',')


def opt(name, default):
    return args[args.index(name) + 1] if name in args else default


MAX = int(opt('--max', '60'))
JOBS = int(opt('--jobs', '6'))
TIER = opt('--tier', 'quick')
SEED = int(opt('--seed', '0'))
TESTS = [t for t in opt('--tests', '').split(',') if t]
src_path = os.path.join('/repo', rel)
source = open(src_path).read()
lines = source.splitlines(keepends=True)
tree = ast.parse(source)

offsets = [0]
for ln in lines:
    offsets.append(offsets[-1] + len(ln.encode('utf8')))
bsource = source.encode('utf8')


def pos(lineno, col):  # ast columns are utf8 byte offsets
    return offsets[lineno - 1] + col


def seg(node):
    return pos(node.lineno, node.col_offset), pos(node.end_lineno, node.end_col_offset)


# ---------------------------------------------------------------- collect target function nodes
targets = []


def walk_defs(node, prefix):
    for ch in ast.iter_child_nodes(node):
        if isinstance(ch, (ast.FunctionDef, ast.AsyncFunctionDef)):
            q = prefix + ch.name
            if funcs == ['*'] or q in funcs or ch.name in funcs:
                targets.append((q, ch))
            else:
                walk_defs(ch, q + '.')
        elif isinstance(ch, ast.ClassDef):
            q = prefix + ch.name
            if q in funcs:
                targets.append((q, ch))
            else:
                walk_defs(ch, q + '.')


walk_defs(tree, '')
if not targets:
    print('no such functions', funcs)
    sys.exit(3)

CMP = {ast.Lt: '<', ast.LtE: '<=', ast.Gt: '>', ast.GtE: '>=', ast.Eq: '==', ast.NotEq: '!=', ast.Is: 'is', ast.IsNot: 'is not',
       ast.In: 'in', ast.NotIn: 'not in'}
CMP_SWAP = {'<': ['<=', '>'], '<=': ['<'], '>': ['>=', '<'], '>=': ['>'], '==': ['!='], '!=': ['=='], 'is': ['is not'], 'is not': ['is'],
            'in': ['not in'], 'not in': ['in']}
BIN_SWAP = {ast.Add: ('+', '-'), ast.Sub: ('-', '+'), ast.Mult: ('*', '/'), ast.FloorDiv: ('//', '*'), ast.Mod: ('%', '*'),
            ast.LShift: ('<<', '>>'), ast.RShift: ('>>', '<<'), ast.BitAnd: ('&', '|'), ast.BitOr: ('|', '&')}
mutants = []  # (func, lineno, description, start, end, replacement bytes)


def between(a_end, b_start, token):
    """Locate `token` in the bytes between two sub-expressions."""
    chunk = bsource[a_end:b_start]
    i = chunk.find(token.encode())
    if i < 0:
        return None
    return a_end + i, a_end + i + len(token)


def is_docstring(stmt, parent):
    return (isinstance(stmt, ast.Expr) and isinstance(stmt.value, ast.Constant) and isinstance(stmt.value.value, str))


for qual, fn in targets:
    for node in ast.walk(fn):
        if isinstance(node, ast.Compare):
            left = node.left
            for op, right in zip(node.ops, node.comparators):
                tok = CMP[type(op)]
                loc = between(seg(left)[1], seg(right)[0], tok)
                if loc:
                    for new in CMP_SWAP[tok]:
                        mutants.append((qual, node.lineno, f'{tok} -> {new}', loc[0], loc[1], new.encode()))
                left = right
        elif isinstance(node, ast.BoolOp):
            tok = 'and' if isinstance(node.op, ast.And) else 'or'
            new = 'or' if tok == 'and' else 'and'
            for a, b in zip(node.values, node.values[1:]):
                loc = between(seg(a)[1], seg(b)[0], tok)
                if loc:
                    mutants.append((qual, node.lineno, f'{tok} -> {new}', loc[0], loc[1], new.encode()))
        elif isinstance(node, ast.UnaryOp) and isinstance(node.op, ast.Not):
            s, e = seg(node)
            os_, oe = seg(node.operand)
            mutants.append((qual, node.lineno, 'drop not', s, os_, b''))
        elif isinstance(node, ast.BinOp) and type(node.op) in BIN_SWAP:
            if isinstance(node.left, ast.Constant) and isinstance(node.left.value, (str, bytes)):
                continue  # string formatting
            tok, new = BIN_SWAP[type(node.op)]
            loc = between(seg(node.left)[1], seg(node.right)[0], tok)
            if loc:
                mutants.append((qual, node.lineno, f'{tok} -> {new}', loc[0], loc[1], new.encode()))
        elif isinstance(node, ast.Constant) and type(node.value) is int and not isinstance(node.value, bool):
            s, e = seg(node)
            if bsource[s:e].decode().lstrip('-').isdigit():
                for d in (1, -1):
                    mutants.append((qual, node.lineno, f'{node.value} -> {node.value + d}', s, e, str(node.value + d).encode()))
        elif isinstance(node, (ast.If, ast.While)) and not isinstance(node.test, ast.Constant):
            s, e = seg(node.test)
            for new in ('True', 'False'):
                if isinstance(node, ast.While) and new == 'True':
                    continue
                mutants.append((qual, node.lineno, f'{type(node).__name__.lower()} cond -> {new}', s, e, new.encode()))
        elif isinstance(node, ast.IfExp):
            s, e = seg(node.test)
            for new in ('True', 'False'):
                mutants.append((qual, node.lineno, f'ifexp cond -> {new}', s, e, new.encode()))
        if isinstance(node, (ast.FunctionDef, ast.For, ast.While, ast.If, ast.With, ast.Try, ast.ClassDef, ast.AsyncFunctionDef)):
            bodies = [getattr(node, f, []) for f in ('body', 'orelse', 'finalbody')]
            for body in bodies:
                for stmt in body:
                    if is_docstring(stmt, node):
                        continue
                    if isinstance(stmt, (ast.Expr, ast.AugAssign)) or (isinstance(stmt, ast.Assign) and len(body) > 1) \
                            or isinstance(stmt, (ast.Continue, ast.Break)) or (isinstance(stmt, ast.Raise) and len(body) > 1):
                        if isinstance(stmt, ast.Expr) and isinstance(stmt.value, (ast.Yield, ast.YieldFrom, ast.Await)):
                            continue
                        s, e = seg(stmt)
                        mutants.append((qual, stmt.lineno, f'delete statement `{bsource[s:e].decode()[:50]}`', s, e, b'pass'))

rng = random.Random(SEED)
rng.shuffle(mutants)
seen = set()
chosen = []
for m in mutants:
    key = (m[3], m[4], m[5])
    if key in seen:
        continue
    seen.add(key)
    chosen.append(m)
    if len(chosen) >= MAX:
        break
print(f'{len(mutants)} candidate mutants in {len(targets)} functions; running {len(chosen)}', flush=True)

os.makedirs('/root/work/mutsweep', exist_ok=True)
pool_dirs = []


def make_copy():
    d = tempfile.mkdtemp(prefix='ms-', dir='/root/work')
    subprocess.run(['rsync', '-a', '--exclude', '.git', '/repo/', d + '/'], check=True)
    return d


import queue
dirs = queue.Queue()
for _ in range(JOBS):
    d = make_copy()
    pool_dirs.append(d)
    dirs.put(d)


def run_one(m):
    qual, lineno, desc, s, e, new = m
    d = dirs.get()
    try:
        mutated = bsource[:s] + new + bsource[e:]
        try:
            compile(mutated, rel, 'exec')
        except SyntaxError:
            return dict(func=qual, line=lineno, mut=desc, verdict='SYNTAX')
        p = os.path.join(d, rel)
        open(p, 'wb').write(mutated)
        env = dict(os.environ, VERIF_REPO=d)
        try:
            cp = subprocess.run(['/verif/check', prop, '--tier', TIER], env=env, capture_output=True, text=True, errors='replace', timeout=1500)
            rc = cp.returncode
            first = next((l.strip()[:200] for l in cp.stdout.splitlines() if l.strip().startswith('[')), '')
            if rc == 2:
                first = next((l.strip()[:200] for l in cp.stdout.splitlines() if 'INCONCLUSIVE' in l or 'inconclusive' in l), '')[:200]
        except subprocess.TimeoutExpired:
            rc, first = 2, 'timeout'
        verdict = {0: 'SURVIVED', 1: 'KILLED', 2: 'INCONCLUSIVE'}.get(rc, f'exit{rc}')
        res = dict(func=qual, line=lineno, mut=desc, verdict=verdict, first=first,
                   src=lines[lineno - 1].strip()[:140])
        if verdict == 'SURVIVED' and TESTS:
            try:
                tp = subprocess.run(['/venv/bin/python', '-m', 'pytest', '-q', '-x', '-p', 'no:cacheprovider', '-n', '2', '--timeout=120'] + TESTS,
                                    cwd=d, env=dict(os.environ, PYTHONPATH=f'{d}/src:/verif/shim'), capture_output=True, text=True, errors='replace', timeout=900)
                rc_t, tail = tp.returncode, (tp.stdout.strip().splitlines()[-1] if tp.stdout.strip() else '')
            except subprocess.TimeoutExpired:
                rc_t, tail = 1, 'tests timed out'
            res['tests'] = 'pass' if rc_t == 0 else 'FAIL'
            res['tests_tail'] = tail[:160]
            if rc_t != 0:
                res['verdict'] = 'SURVIVED-BUT-TESTS-KILL'
        open(p, 'wb').write(bsource)
        return res
    finally:
        dirs.put(d)


results = []
try:
    with cf.ThreadPoolExecutor(JOBS) as ex:
        for r in ex.map(run_one, chosen):
            results.append(r)
            print(f"{r['verdict']:24} {r['func']}:{r['line']} {r['mut']}  | {r.get('src', '')[:90]}", flush=True)
finally:
    for d in pool_dirs:
        shutil.rmtree(d, ignore_errors=True)
summary = {}
for r in results:
    summary[r['verdict']] = summary.get(r['verdict'], 0) + 1
print('SUMMARY', prop, rel, summary)
out = f"/root/work/mutsweep/{prop}-{os.path.basename(rel)}-{SEED}.json"
json.dump({'property': prop, 'file': rel, 'funcs': funcs, 'tier': TIER, 'summary': summary, 'results': results}, open(out, 'w'), indent=1)
print('written', out)
