#!/usr/bin/env python3
"""Regenerate seeded/INDEX.md from seeded/*/meta.json."""
import glob, json, os
rows = []
for m in sorted(glob.glob('/verif/seeded/*/meta.json')):
    d = json.load(open(m))
    readme = os.path.join(os.path.dirname(m), 'README.md')
    first = ''
    if os.path.exists(readme):
        for l in open(readme):
            l = l.strip().lstrip('#').strip().strip('*')
            if l:
                first = l[:150]
                break
    for chk, r in d.get('check_results', {}).items():
        rows.append((d['name'], d['breaks_property'], first, chk, r['tier'], r['verdict'], r.get('first_violation', '')[:110], d.get('note', '')))
with open('/verif/seeded/INDEX.md', 'w') as f:
    f.write('# Seeded regressions (written by independent sub-agents that saw only the property text)\n\n')
    f.write('Each directory holds `patch.diff`, `demo.py` (exit 1 with the change, 0 without), `README.md` (what it needs to manifest) and `meta.json` '
            '(what was confirmed and what the check reported; produced by `tools/seedcheck.py`).\n\n')
    f.write('| seed | property | change | check | tier | verdict | first violation reported | note |\n|---|---|---|---|---|---|---|---|\n')
    for r in rows:
        f.write('| ' + ' | '.join(str(x).replace('|', '\\|').replace('\n', ' ') for x in r) + ' |\n')
print(len(rows), 'rows')
