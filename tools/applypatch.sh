#!/bin/bash
# applypatch.sh <name>  -- apply /root/work/patches/<name>.diff to /repo and commit with <name>.msg (one fix: commit)
set -e
n=$1
git -C /repo apply --check /root/work/patches/$n.diff
git -C /repo apply /root/work/patches/$n.diff
git -C /repo commit -qa -F /root/work/patches/$n.msg
git -C /repo log --format='%h %s' -n 1
