#!/usr/bin/env python3
"""mut.py PROP relpath OLD NEW [--tier t]: apply a textual mutation to a scratch copy of /repo and run one check on it.
Used for self-validation only (DESIGN.md section 5); the scratch copy lives outside /repo and /verif and is removed."""
import os, shutil, subprocess, sys, tempfile
prop, rel, old, new = sys.argv[1:5]
tier = sys.argv[6] if len(sys.argv) > 6 and sys.argv[5] == '--tier' else 'quick'
work = tempfile.mkdtemp(prefix='mut-', dir='/root/work')
try:
    subprocess.run(['rsync', '-a', '--exclude', '.git', '/repo/', work + '/'], check=True)
    p = os.path.join(work, rel)
    s = open(p).read()
    old = old.encode().decode('unicode_escape'); new = new.encode().decode('unicode_escape')
    if s.count(old) != 1:
        print(f'MUTATION NOT APPLIED: {s.count(old)} occurrences of {old!r}'); sys.exit(3)
    open(p, 'w').write(s.replace(old, new))
    env = dict(os.environ, VERIF_REPO=work)
    cp = subprocess.run(['/verif/check', prop, '--tier', tier], env=env, capture_output=True, text=True)
    lines = cp.stdout.strip().splitlines()
    for l in lines[-6:]:
        print(l[:260])
    print('exit', cp.returncode, '=> ' + ('CAUGHT' if cp.returncode == 1 else 'MISSED' if cp.returncode == 0 else 'INCONCLUSIVE'))
finally:
    shutil.rmtree(work, ignore_errors=True)
    # evidence was overwritten by the mutated run; the caller re-runs the check on /repo before committing
