#!/bin/bash
# Re-run every registered quick check on /repo (regenerates evidence/*.json); prints one line per check.
cd /verif
rc=0
for p in $(cat tools/ready.txt); do
  out=$(./check $p --tier ${1:-quick} 2>&1); code=$?
  echo "$out" | grep -v '^KNOWN-FINDING' | tail -1
  [ $code -ne 0 ] && rc=1 && echo "$out" | grep -E 'VIOLATION|INCONCLUSIVE|^\s+\[' | head -5
done
exit $rc
