#!/bin/bash
# Run /repo's own tests against /repo/src (pure-Python mode, with the importlib_resources shim) and
# (TREE=<dir> selects another copy of the repository) and compare the failure set with the 12 tests that need the compiled accelerators.
TREE=${TREE:-/repo}
cd "$TREE" || exit 2
out=$(PYTHONPATH=$TREE/src:/verif/shim /venv/bin/python -m pytest tests -q -p no:cacheprovider -n 8 "$@" 2>&1)
echo "$out" | tail -3
fails=$(echo "$out" | grep '^FAILED' | sed 's/ - .*//' | sort)
expected=$(cat <<'EOL' | sort
FAILED tests/test_smoke.py::test_smoke[_cy_vtf_readwrite]
FAILED tests/test_smoke.py::test_smoke[_math]
FAILED tests/test_smoke.py::test_smoke[_tokenizer]
FAILED tests/test_vec.py::test_matching_apis[Angle]
FAILED tests/test_vec.py::test_matching_apis[FrozenAngle]
FAILED tests/test_vec.py::test_matching_apis[FrozenVec]
FAILED tests/test_vec.py::test_matching_apis[Matrix]
FAILED tests/test_vec.py::test_matching_apis[Vec]
FAILED tests/test_vtf.py::test_save[Cython-dxt1]
FAILED tests/test_vtf.py::test_save[Cython-dxt1_onebitalpha]
FAILED tests/test_vtf.py::test_save[Cython-dxt3]
FAILED tests/test_vtf.py::test_save[Cython-dxt5]
EOL
)
if [ "$fails" == "$expected" ]; then echo "TREE TESTS OK (only the 12 accelerator-requiring tests fail)"; exit 0; fi
echo "TREE TESTS DIFFER:"; diff <(echo "$expected") <(echo "$fails"); exit 1
