"""C15 VTF save/read round trip: metadata exact, pixels exact up to the format.

Oracles (all harness-side, see rv/gen_vtf.py): structural comparer for header/resources/sheet data (floats by bit
pattern, never Vec.__eq__), an independent per-format quantisation model, the 2x2-average mipmap law, an index-range
oracle for Frame.__getitem__/__setitem__, and an independent VTF byte writer that the library has to read.
"""
from __future__ import annotations

import io
import struct
import tempfile
from typing import Any, Dict, List, Optional, Tuple

from rv import gen_vtf as G
from rv.monitor import Inconclusive
from rv.util import mine, sub_rng

PROP = 'C15'
LEVEL = 'exploration'
RULE = ('engine roundtrip: seeded random textures - width,height independently in {1,2,4,..,64} (18% 1xN, 18% Nx1, 24% '
        'square, rest mixed), 1-3 frames, depth 1-3 or a cubemap (6 faces in 7.5, 7 with sphere map in 7.2-7.4), version '
        '7.2-7.5 (12%: a different version passed to save()), random 32-bit flags (ENVMAP tied to cubemap), random f32 '
        'reflectivity/bump scale (incl. -0, inf, denormals), first_frame_index, main format and thumbnail format drawn '
        'from all 20 uncompressed writable formats (thumbnail also NONE), pixels random / boundary values / bluescreen '
        'key colours / Frame.fill / per-pixel __setitem__, lower mipmaps either explicit random data or generated, '
        'resources (known and custom 3-byte IDs, inline ints and byte blocks) and particle sheets of version 0/1 for '
        '7.3+. Each is saved to BytesIO, read back, loaded and compared; the re-read texture is saved and read again '
        '(idempotence); Frame indexes in and around the valid range are probed. While VTF() counts mipmaps one short the '
        'round trip is run twice: as built, and with mipmap_count set to the number of levels in the frame table. '
        'engine sweep: per format 16x16 images in which every channel takes all 256 values, as main image and as thumbnail. '
        'engine handmade: files written by an independent harness writer (full mip chains incl. clamped 1-wide levels) '
        'are read, mipmaps cleared and regenerated, saved and re-read. engine bounds: every (x,y) in [-2w-1,2w+1]x[-2h-1,2h+1] '
        'for w,h in {1,2,4,8}. Restrictions (values the format cannot carry): resource flag bit 0x02 agrees with the data '
        'type, custom IDs are 3 bytes and not the reserved image/sheet IDs, sequence numbers < 64, version-0 sheets repeat '
        'one coordinate set, resources/sheets only with 7.3+, floats are f32 and not NaN, DXT/ATI/P8/RGBA16161616(F) are not writable by the '
        'pure-Python codec. Non-trivial = more than one pixel in the top-level image; distinct = distinct case description.')
ASSUMPTIONS = ['pure-Python codec (_py_vtf_readwrite); the Cython codec cannot be built here',
               'thumbnail pixels are injected through the private VTF._low_res frame (there is no public setter); the '
               'thumbnail the library regenerates from a 32x32 level is compared against what save() left in that frame',
               'grey formats (I8, IA88): intensity within <1 of the mean of R,G,B is accepted',
               'idempotence is demanded of the frame table; a thumbnail that save() regenerates from a 32x32 level is '
               'checked against that level instead',
               'mipmap law is checked for the default BILINEAR filter with tolerance 1']
JOBS = {'quick': 4, 'thorough': 16}


# ------------------------------------------------------------------------------------------------ helpers

_IO = [0]


def _mods():
    import srctools.vtf as vm
    return vm


def dkey_json(k: Any) -> Any:
    return k if isinstance(k, int) else k.name


def key_json(key: Tuple[int, Any, int]) -> list:
    return [key[0], dkey_json(key[1]), key[2]]


def frame_bytes(frame) -> bytes:
    """Pixels through the public buffer protocol (loads lazily)."""
    if frame.width * frame.height == 0:  # a 0x0 thumbnail cannot be exported as a shaped buffer
        return b''
    return bytes(memoryview(frame))


def fbits(x: float) -> str:
    return struct.pack('<d', float(x)).hex()


def meta_of(vtf) -> dict:
    ref = vtf.reflectivity
    return {
        'width': vtf.width, 'height': vtf.height, 'depth': vtf.depth, 'frame_count': vtf.frame_count,
        'first_frame_index': vtf.first_frame_index, 'mipmap_count': vtf.mipmap_count,
        'flags': vtf.flags.value, 'flags_type': type(vtf.flags).__name__,
        'format': vtf.format.name, 'low_format': vtf.low_format.name,
        'reflectivity': [fbits(ref.x), fbits(ref.y), fbits(ref.z)], 'bumpmap_scale': fbits(vtf.bumpmap_scale),
        'version': list(vtf.version),
        'low_size': [vtf._low_res.width, vtf._low_res.height],
    }


def resources_of(vtf) -> dict:
    out = {}
    for rid, res in vtf.resources.items():
        raw = bytes(getattr(rid, 'value', rid))
        data = res.data
        out[raw.hex()] = [res.flags, data if isinstance(data, int) else {'hex': bytes(data).hex()},
                          type(data).__name__]
    return out


def sheet_of(vtf) -> dict:
    out = {}
    for num, seq in vtf.sheet_info.items():
        frames = []
        for dur, *coords in seq.frames:
            frames.append([fbits(dur), [[fbits(c.left), fbits(c.top), fbits(c.right), fbits(c.bottom)] for c in coords]])
        out[str(num)] = {'clamp': seq.clamp, 'clamp_type': type(seq.clamp).__name__, 'duration': fbits(seq.duration),
                         'frames': frames}
    return out


def dict_diff(want: dict, got: dict) -> dict:
    return {k: {'want': want.get(k, '<absent>'), 'got': got.get(k, '<absent>')}
            for k in sorted(set(want) | set(got)) if want.get(k, '<absent>') != got.get(k, '<absent>')}


_REPORTED: Dict[str, int] = {}
MAX_FULL_REPORTS = 6


class CaseCtx:
    """Per-case reporter: one violation per mechanism key and phase."""

    def __init__(self, run, case: dict, engine: str) -> None:
        self.run = run
        self.case = case
        self.engine = engine
        self.seen: set = set()
        self.failed = False

    def bad(self, key: str, what: str, witness: Any = None, phase: str = '') -> None:
        self.failed = True
        if (key, phase) in self.seen:
            return
        self.seen.add((key, phase))
        # The monitor keeps the first 50 violations only: report each mechanism in full a few times per process so that
        # every mechanism keeps a witness and a replay file; later repeats are only counted.
        _REPORTED[key] = _REPORTED.get(key, 0) + 1
        if _REPORTED[key] > MAX_FULL_REPORTS:
            self.run.count(f'repeats[{key}]')
            return
        self.run.violation(f'[{phase}] {what}' if phase else what, witness=witness, key=key, engine=self.engine,
                           case=self.case)


# ------------------------------------------------------------------------------------------------ building

def build(case: dict):
    """Construct the texture through the public API.  Returns (vtf, inputs) with inputs[key] = RGBA bytes set by us."""
    vm = _mods()
    rng = sub_rng(case['pix_seed'], 'pixels', 0)
    sheet = {}
    if case.get('sheet'):
        for s in case['sheet']['seqs']:
            frames = [(dur, *[vm.TexCoord(*c) for c in coords]) for dur, coords in s['frames']]
            sheet[s['num']] = vm.SheetSequence(frames, s['clamp'], s['duration'])
    vtf = vm.VTF(
        case['w'], case['h'], version=(7, case['minor']), ref=vm.Vec(*case['ref']), frames=case['frames'],
        bump_scale=case['bump'], sheet_info=sheet, flags=vm.VTFFlags(case['flags']),
        fmt=vm.ImageFormats[case['fmt']], thumb_fmt=vm.ImageFormats[case['thumb']], depth=case['depth'],
    )
    vtf.first_frame_index = case['first_frame']
    for ident, flags, data in case.get('resources', []):
        rid = vm.ResourceID[ident['known']] if 'known' in ident else bytes.fromhex(ident['raw'])
        vtf.resources[rid] = vm.Resource(flags, data if isinstance(data, int) else bytes.fromhex(data['hex']))

    inputs: Dict[Tuple[int, Any, int], bytes] = {}
    mode = case['pix_mode']
    repeat = rng.random() < 0.3
    earlier: Dict[Tuple[int, int, int], bytes] = {}
    for key in sorted(vtf._frames, key=lambda k: (k[2], k[0], k[1] if isinstance(k[1], int) else k[1].value)):
        fr_i, dk, level = key
        if level > 0 and not case['explicit_mips']:
            continue
        frame = vtf.get(frame=fr_i, mipmap=level, **({'side': dk} if case['cube'] else {'depth': dk}))
        w, h = frame.width, frame.height
        px = G.gen_pixels(rng, mode, w, h)
        if repeat and (level, w, h) in earlier and rng.random() < 0.6:
            px = earlier[level, w, h]  # byte-identical frames / faces / slices (a still animation, a uniform cubemap)
        earlier[level, w, h] = px
        how = rng.randrange(4)
        if mode == 'fill':
            if tuple(px[:3]) == (0, 0, 0) and how % 2:
                frame.fill(a=px[3])   # the documented defaults for the colour, alpha by keyword
            else:
                frame.fill(*px[:4])
        elif mode == 'setitem' and w * h <= 256:
            frame.fill(9, 9, 9, 9)
            order = list(range(w * h))
            rng.shuffle(order)
            for p in order:
                val = tuple(px[4 * p:4 * p + 4])
                frame[p % w, p // w] = vm.Pixel(*val) if p & 1 else val
        elif how == 0:
            frame.copy_from(px)
        elif how == 1:
            frame.copy_from(bytearray(px), vm.ImageFormats.RGBA8888)
        elif how == 2:
            frame.copy_from(memoryview(px))
        else:  # through another format's loader: BGRA bytes
            raw = bytearray(px)
            raw[0::4] = px[2::4]
            raw[2::4] = px[0::4]
            frame.copy_from(bytes(raw), vm.ImageFormats.BGRA8888)
        inputs[key] = px
    if case.get('thumb_inject') and case['thumb'] != 'NONE':
        vtf._low_res.copy_from(G.gen_pixels(rng, 'random' if mode in ('fill', 'setitem') else mode, 16, 16))
    return vtf, inputs


def table_levels(vtf) -> int:
    return 1 + max((k[2] for k in vtf._frames), default=-1)


# ------------------------------------------------------------------------------------------------ one save/read pass

def classify_missing(missing: list, extra: list, built_count: int, levels: int) -> str:
    if missing and not extra and built_count == levels - 1 and all(k[2] == built_count for k in missing):
        return 'mipmap-count-off-by-one'
    return 'frame-table-mismatch'


def compare_pixels(ctx: CaseCtx, fmt: str, src: bytes, got: bytes, width: int, where: Any, phase: str, what: str) -> None:
    ctx.run.count('frames_compared')
    if G.matches_model(fmt, src, got):
        return
    want = G.model(fmt, src)
    if fmt in G.FAMILY_565 and got == G.swap_rb(want):
        ctx.bad('rgb565-save-channel-swap', f'{fmt}: {what} come back with red and blue exchanged',
                witness={'frame': where, 'diff': G.first_pixel_diff(want, got, width)}, phase=phase)
        return
    key = 'exact-format-pixel-mismatch' if fmt in G.EXACT else 'quantisation-mismatch'
    ctx.bad(key, f'{fmt}: {what} differ from ' + ('the input' if fmt in G.EXACT else 'the documented quantisation of the input'),
            witness={'frame': where, 'diff': G.first_pixel_diff(want, got, width)}, phase=phase)


def one_pass(ctx: CaseCtx, vtf, inputs: Dict[Tuple[int, Any, int], bytes], phase: str, save_kw: dict):
    """save -> read -> compare.  Returns (re-read VTF or None, file bytes or None)."""
    vm = _mods()
    run = ctx.run
    case = ctx.case
    fmt, low = vtf.format.name, vtf.low_format.name
    want_meta = meta_of(vtf)
    if save_kw.get('version'):
        want_meta['version'] = list(save_kw['version'])
    want_res = resources_of(vtf)
    want_sheet = sheet_of(vtf)
    # versions before 7.3 have no resource table: the resources / particle sheet a texture holds cannot be written.  An
    # explicit refusal (ValueError) is acceptable; otherwise the file must be written and everything else must round-trip.
    eff_minor = save_kw['version'][1] if save_kw.get('version') else vtf.version[1]
    legacy = eff_minor < 3 and bool(want_res or want_sheet)
    if legacy:
        want_res, want_sheet = {}, {}
        run.count('legacy_version_with_resources')
    built_count = vtf.mipmap_count
    levels = table_levels(vtf)

    # one pass in eight goes through a real file on disk (saved to it, read back from it), the rest through BytesIO
    _IO[0] += 1
    real = _IO[0] % 8 == 0
    buf: Any = tempfile.TemporaryFile('w+b') if real else io.BytesIO()
    try:
        vtf.save(buf, **save_kw)
    except Exception as exc:
        if legacy and isinstance(exc, ValueError):
            run.count('legacy_version_refused_resources')
            return None, None
        ctx.bad('save-raises', f'VTF.save raised {type(exc).__name__}: {exc}', phase=phase)
        return None, None
    run.count('saves')
    if real:
        buf.seek(0)
        data = buf.read()
        run.count('real_file_passes')
    else:
        data = buf.getvalue()
    # the same object saved again with the same arguments: the same bytes
    try:
        buf2 = io.BytesIO()
        vtf.save(buf2, **save_kw)
        if buf2.getvalue() != data:
            k = next((i for i, (a, b) in enumerate(zip(data, buf2.getvalue())) if a != b), min(len(data), len(buf2.getvalue())))
            ctx.bad('save-not-repeatable', f'saving the same VTF twice gives different bytes (first difference at offset {k}, lengths {len(data)}/{len(buf2.getvalue())})', phase=phase)
        run.count('repeated_saves')
    except Exception as exc:
        ctx.bad('save-not-repeatable', f'the second save of the same VTF raised {type(exc).__name__}: {exc}', phase=phase)

    # the documented defaults spelled out give the same bytes as leaving the arguments away (version=None: the object's own,
    # sheet_seq_version=1, asw_or_later=True)
    try:
        full_kw = dict({'version': None, 'sheet_seq_version': 1, 'asw_or_later': True}, **save_kw)
        buf3 = io.BytesIO()
        vtf.save(buf3, **full_kw)
        buf4 = io.BytesIO()
        vtf.save(buf4, full_kw['version'], full_kw['sheet_seq_version'], full_kw['asw_or_later'])   # and positionally, in the documented order
        buf5 = io.BytesIO()
        # ... and the other way round: an argument that was given with its default value is left away
        vtf.save(buf5, **{k: v for k, v in save_kw.items() if full_kw[k] != {'version': None, 'sheet_seq_version': 1, 'asw_or_later': True}[k]})
        if buf3.getvalue() != data or buf4.getvalue() != data or buf5.getvalue() != data:
            ctx.bad('default-arguments-differ', 'save() with the documented default values spelled out (by keyword / by position) differs from save() without them', phase=phase)
        run.count('default_argument_saves')
    except Exception as exc:
        ctx.bad('default-arguments-differ', f'save() with the documented defaults spelled out raised {type(exc).__name__}: {exc}', phase=phase)

    # --- the file must contain exactly the image data its own header declares (decoded without the library)
    is_cube = bool(vtf.flags.value & G.ENVMAP)
    obj_faces = (7 if vtf.version[1] < 5 else 6) if is_cube else vtf.depth
    file_faces = obj_faces
    try:
        lay = G.parse_layout(data)
        file_faces = (7 if lay['minor'] < 5 else 6) if is_cube else lay['depth']
        thumb_len = lay['low_w'] * lay['low_h'] * G.BITS[low] // 8
        high_off = lay['high_off'] if lay['minor'] >= 3 else lay['header_size'] + thumb_len
        if high_off is None or lay['low_off'] is None:
            ctx.bad('image-resource-missing', 'the saved 7.3+ file has no low-res/high-res resource entry', witness=lay, phase=phase)
            return None, data
        if high_off - lay['low_off'] != thumb_len:
            ctx.bad('thumbnail-offset-mismatch', f'thumbnail occupies {high_off - lay["low_off"]} bytes, header implies {thumb_len}',
                    witness=lay, phase=phase)
        declared = G.image_bytes(lay['w'], lay['h'], lay['mips'], lay['frames'], file_faces, G.BITS[fmt])
        present = len(data) - high_off
        run.count('file_layouts_checked')
        if present != declared:
            by_object = G.image_bytes(lay['w'], lay['h'], lay['mips'], lay['frames'], obj_faces, G.BITS[fmt])
            key = ('cubemap-version-override-faces' if is_cube and obj_faces != file_faces and present == by_object
                   else 'image-data-size-mismatch')
            ctx.bad(key, f'a version 7.{lay["minor"]} file {"with ENVMAP " if is_cube else ""}was written with {present} bytes of image '
                         f'data; its header declares {declared} ({file_faces} faces/slices); the object (7.{vtf.version[1]}) has {obj_faces}',
                    witness={'file_minor': lay['minor'], 'object_minor': vtf.version[1], 'declared': declared, 'present': present,
                             'faces_for_file_version': file_faces, 'faces_in_object': obj_faces}, phase=phase)
            return None, data
    except (struct.error, ValueError, KeyError) as exc:
        ctx.bad('file-header-unparseable', f'independent header decode failed: {type(exc).__name__}: {exc}', phase=phase)
        return None, data

    # --- what the in-memory texture holds after save(): inputs untouched, generated levels obey the mipmap law
    held: Dict[Tuple[int, Any, int], Optional[bytes]] = {}
    for key, frame in vtf._frames.items():
        held[key] = frame_bytes(frame) if frame._data is not None else None
        ew, eh = G.expected_dims(vtf.width, vtf.height, key[2])
        if (frame.width, frame.height) != (ew, eh):
            ctx.bad('mipmap-dimensions', f'level {key[2]} of a {vtf.width}x{vtf.height} texture is {frame.width}x{frame.height}',
                    witness={'frame': key_json(key)}, phase=phase)
    for key, px in inputs.items():
        if held.get(key) != px:
            ctx.bad('save-alters-input-pixels', 'save() changed pixels the caller had set',
                    witness={'frame': key_json(key), 'diff': G.first_pixel_diff(px, held.get(key) or b'', vtf.width >> key[2] or 1)},
                    phase=phase)
    for key, px in held.items():
        if key in inputs or key[2] == 0 or px is None:
            continue
        parent_key = (key[0], key[1], key[2] - 1)
        parent = held.get(parent_key)
        if parent is None:
            continue
        pf, cf = vtf._frames[parent_key], vtf._frames[key]
        run.count('generated_mipmaps_checked')
        bad = G.mip_average_violation(parent, pf.width, pf.height, px, cf.width, cf.height)
        if bad is not None:
            ctx.bad('mipmap-not-average', f'generated level {key[2]} is not the average of level {key[2] - 1}: {bad["why"]}',
                    witness={'frame': key_json(key), **bad}, phase=phase)
    thumb_held = frame_bytes(vtf._low_res)
    thumb_parent = None
    if low != 'NONE':
        side = vm.CubeSide.FRONT if case.get('cube') else 0
        for lv in range(levels):
            f = vtf._frames.get((0, side, lv))
            if f is not None and (f.width, f.height) == (32, 32) and held.get((0, side, lv)) is not None and lv < built_count:
                thumb_parent = held[0, side, lv]
    if thumb_parent is not None:
        run.count('thumbnails_regenerated')
        bad = G.mip_average_violation(thumb_parent, 32, 32, thumb_held, 16, 16)
        if bad is not None:
            ctx.bad('thumbnail-not-average', f'thumbnail is not the average of the 32x32 level: {bad["why"]}', witness=bad, phase=phase)

    # --- read back
    try:
        if real:
            buf.seek(0)
            back = vm.VTF.read(buf)
            back.load()
            buf.close()
        else:
            back = vm.VTF.read(io.BytesIO(data))
            back.load()
    except Exception as exc:
        ctx.bad('read-raises', f'VTF.read/load of the saved file raised {type(exc).__name__}: {exc}',
                witness={'file_len': len(data)}, phase=phase)
        return None, data
    run.count('reads')

    got_meta = meta_of(back)
    if got_meta != want_meta:
        diff = dict_diff(want_meta, got_meta)
        ctx.bad('metadata-mismatch:' + '+'.join(sorted(diff)), f'header fields differ after save/read: {sorted(diff)}',
                witness=diff, phase=phase)
    got_res = resources_of(back)
    if got_res != want_res:
        ctx.bad('resource-mismatch', 'resources differ after save/read', witness=dict_diff(want_res, got_res), phase=phase)
    elif want_res:
        run.count('resource_sets_compared')
    got_sheet = sheet_of(back)
    if got_sheet != want_sheet:
        ctx.bad('sheet-mismatch', 'particle sheet data differs after save/read', witness=dict_diff(want_sheet, got_sheet), phase=phase)
    elif want_sheet:
        run.count('sheets_compared')
    # --- the documented way to read "only metadata": the same header fields, resources and sheet, no frame decoded
    try:
        head = vm.VTF.read(io.BytesIO(data), header_only=True)
        h_meta, h_res, h_sheet = meta_of(head), resources_of(head), sheet_of(head)
    except Exception as exc:
        ctx.bad('header-only-read-raises', f'VTF.read(header_only=True) of the saved file raised {type(exc).__name__}: {exc}',
                witness={'file_len': len(data)}, phase=phase)
    else:
        run.count('header_only_reads')
        for name, full, part in (('header fields', got_meta, h_meta), ('resources', got_res, h_res), ('sheet', got_sheet, h_sheet)):
            if full != part:
                ctx.bad('header-only-read-differs', f'VTF.read(header_only=True) gives other {name} than a full read of the same bytes',
                        witness=dict_diff(full, part), phase=phase)
                break

    # --- frame table
    want_keys, got_keys = set(vtf._frames), set(back._frames)
    if is_cube and obj_faces != file_faces:
        # save(version=) across the 7.5 boundary: the sphere map is dropped / an extra (unconstrained) one appears
        sphere = vm.CubeSide.SPHERE
        if file_faces == 6:
            want_keys = {k for k in want_keys if k[1] is not sphere}
        else:
            want_keys |= {(k[0], sphere, k[2]) for k in want_keys if k[2] < built_count}
        run.count('cubemap_sphere_conversions')
    if want_keys != got_keys:
        missing = sorted(map(key_json, want_keys - got_keys), key=repr)
        extra = sorted(map(key_json, got_keys - want_keys), key=repr)
        key = classify_missing(missing, extra, built_count, levels)
        ctx.bad(key, f'frame table differs after save/read: {len(missing)} frames missing, {len(extra)} unexpected '
                     f'(texture {vtf.width}x{vtf.height}, {levels} levels built, mipmap_count={built_count}, '
                     f'{len(data)} bytes written)',
                witness={'missing': missing[:12], 'unexpected': extra[:12], 'levels_built': levels, 'mipmap_count': built_count},
                phase=phase)
    for key in sorted(want_keys & got_keys, key=repr):
        bf = back._frames[key]
        ow, oh = G.expected_dims(vtf.width, vtf.height, key[2])
        if (bf.width, bf.height) != (ow, oh):
            ctx.bad('frame-size-mismatch', f'frame {key_json(key)} is {bf.width}x{bf.height}, was {ow}x{oh}', phase=phase)
            continue
        src = held.get(key)
        if src is None:
            continue
        compare_pixels(ctx, fmt, src, frame_bytes(bf), bf.width, key_json(key), phase, 'main-image pixels')
    if low != 'NONE':
        if (back._low_res.width, back._low_res.height) == (vtf._low_res.width, vtf._low_res.height):
            run.count('thumbnails_compared')
            compare_pixels(ctx, low, thumb_held, frame_bytes(back._low_res), 16, 'thumbnail', phase, 'thumbnail pixels')
    return back, data


def idempotence(ctx: CaseCtx, back, phase: str, save_kw: dict) -> None:
    """Store the re-read texture again: nothing may change."""
    vm = _mods()
    if not back._frames:  # nothing was stored (only reachable through a frame-table violation reported above)
        ctx.run.count('resave_skipped_no_frames')
        return
    fmt, low = back.format.name, back.low_format.name
    first = {k: frame_bytes(f) for k, f in back._frames.items()}
    first_thumb = frame_bytes(back._low_res)
    first_meta = (meta_of(back), resources_of(back), sheet_of(back))
    regenerated = low != 'NONE' and any((f.width, f.height) == (32, 32) for f in back._frames.values())
    buf = io.BytesIO()
    try:
        back.save(buf, **save_kw)
        again = vm.VTF.read(io.BytesIO(buf.getvalue()))
        again.load()
    except Exception as exc:
        ctx.bad('resave-raises', f'saving/reading the re-read texture raised {type(exc).__name__}: {exc}', phase=phase)
        return
    ctx.run.count('resaves')
    second_meta = (meta_of(again), resources_of(again), sheet_of(again))
    if first_meta != second_meta:
        ctx.bad('resave-metadata-drift', 'metadata changed when the re-read texture was stored again',
                witness=[dict_diff(a, b) for a, b in zip(first_meta, second_meta)], phase=phase)
    if set(first) != set(again._frames):
        ctx.bad('resave-frame-table-drift', 'frame table changed when the re-read texture was stored again',
                witness={'before': len(first), 'after': len(again._frames)}, phase=phase)
    pairs = [(key_json(k), fmt, first[k], frame_bytes(again._frames[k]), again._frames[k].width)
             for k in sorted(set(first) & set(again._frames), key=repr)]
    if low != 'NONE' and not regenerated:
        pairs.append(('thumbnail', low, first_thumb, frame_bytes(again._low_res), 16))
    for where, f, a, b, width in pairs:
        if a == b:
            continue
        if f in G.FAMILY_565 and b == G.swap_rb(a):
            ctx.bad('rgb565-save-channel-swap', f'{f}: storing the re-read pixels again exchanges red and blue once more',
                    witness={'frame': where, 'diff': G.first_pixel_diff(a, b, width)}, phase=phase)
        else:
            ctx.bad('store-not-idempotent', f'{f}: storing the re-read pixels again changed them',
                    witness={'frame': where, 'diff': G.first_pixel_diff(a, b, width)}, phase=phase)


# ------------------------------------------------------------------------------------------------ index bounds

def probe_bounds(ctx: CaseCtx, frame, coords: List[Tuple[int, int]], phase: str) -> None:
    """Frame.__getitem__/__setitem__ against the index-range oracle.  The frame is restored afterwards."""
    run = ctx.run
    w, h = frame.width, frame.height
    before = frame_bytes(frame)
    marker = (17, 34, 51, 68)
    for x, y in coords:
        inside = 0 <= x < w and 0 <= y < h
        # --- read
        try:
            got: Any = ('value', tuple(frame[x, y]))
        except IndexError:
            got = ('IndexError',)
        except Exception as exc:
            got = ('raised', type(exc).__name__, str(exc)[:80])
        run.count('index_probes')
        if inside:
            want = ('value', tuple(before[4 * (y * w + x): 4 * (y * w + x) + 4]))
            if got != want:
                ctx.bad('pixel-index-wrong-value', f'frame[{x}, {y}] of a {w}x{h} frame returned {got}, expected {want}', phase=phase)
        elif got != ('IndexError',):
            ctx.bad('pixel-index-bounds', f'frame[{x}, {y}] of a {w}x{h} frame did not raise IndexError: {got}',
                    witness={'index': [x, y], 'size': [w, h], 'outcome': got, 'access': 'get'}, phase=phase)
        # --- write
        try:
            frame[x, y] = marker
            wrote: Any = ('accepted',)
        except IndexError:
            wrote = ('IndexError',)
        except Exception as exc:
            wrote = ('raised', type(exc).__name__, str(exc)[:80])
        after = frame_bytes(frame)
        if inside:
            off = 4 * (y * w + x)
            want_after = before[:off] + bytes(marker) + before[off + 4:]
            if wrote != ('accepted',) or after != want_after:
                ctx.bad('pixel-index-wrong-value', f'frame[{x}, {y}] = pixel on a {w}x{h} frame: {wrote}, '
                                                   f'{"other pixels changed" if after != want_after else ""}', phase=phase)
        else:
            if wrote != ('IndexError',) or after != before:
                ctx.bad('pixel-index-bounds',
                        f'frame[{x}, {y}] = pixel on a {w}x{h} frame did not raise IndexError: {wrote}'
                        + ('; a pixel inside the image was overwritten' if after != before else ''),
                        witness={'index': [x, y], 'size': [w, h], 'outcome': wrote, 'access': 'set',
                                 'changed': G.first_pixel_diff(before, after, w)}, phase=phase)
        if after != before:
            frame.copy_from(before)


def edge_coords(rng, w: int, h: int, n: int) -> List[Tuple[int, int]]:
    xs = [-w - 1, -w, -1, 0, w - 1, w, w + 1, 2 * w]
    ys = [-h - 1, -h, -1, 0, h - 1, h, h + 1, 2 * h]
    out = [(w, 0), (0, h), (w, h - 1), (w - 1, h), (-1, 0), (0, -1), (-1, -1), (w - 1, h - 1), (0, 0)]
    while len(out) < n:
        out.append((rng.choice(xs), rng.choice(ys)))
    return out


# ------------------------------------------------------------------------------------------------ engines

def run_roundtrip(run, case: dict, engine: str, sample: bool = False) -> None:
    ctx = CaseCtx(run, case, engine)
    vm = _mods()
    try:
        vtf, inputs = build(case)
    except Exception as exc:
        ctx.bad('construct-raises', f'building the texture through the public API raised {type(exc).__name__}: {exc}')
        run.case(case, case['w'] * case['h'] > 1, tag=engine)
        return
    save_kw: Dict[str, Any] = {}
    if case.get('save_minor') is not None:
        save_kw['version'] = (7, case['save_minor'])
    if case.get('sheet'):
        save_kw['sheet_seq_version'] = case['sheet']['version']
    elif case['pix_seed'] & 1:
        save_kw['sheet_seq_version'] = 0

    levels = table_levels(vtf)
    for lv in range(levels):
        k = (0, vm.CubeSide.FRONT if case['cube'] else 0, lv)
        f = vtf._frames.get(k)
        if f is not None and (f.width, f.height) != G.expected_dims(case['w'], case['h'], lv):
            ctx.bad('mipmap-dimensions', f'VTF() built level {lv} as {f.width}x{f.height}', witness={'level': lv})
    miscounted = vtf.mipmap_count != levels
    if miscounted:
        key = 'mipmap-count-off-by-one' if vtf.mipmap_count == levels - 1 else 'mipmap-count-wrong'
        ctx.bad(key, f'VTF({case["w"]}, {case["h"]}) builds {levels} mipmap levels but mipmap_count '
                     f'("the total number of mipmaps") is {vtf.mipmap_count}',
                witness={'levels_built': levels, 'mipmap_count': vtf.mipmap_count}, phase='construct')

    phases = [('as-built', False)]
    if miscounted:
        phases.append(('count-normalised', True))
    back = None
    for phase, normalise in phases:
        if normalise:
            vtf.mipmap_count = levels
        back, _ = one_pass(ctx, vtf, inputs, phase, save_kw)
        if back is not None:
            kw2 = {k: v for k, v in save_kw.items() if k != 'version'}
            idempotence(ctx, back, phase, kw2)
    run.count('roundtrip_cases')
    if case['w'] == 1 or case['h'] == 1:
        run.count('one_wide_textures')
    if case['cube']:
        run.count('cubemaps_with_sphere' if case['minor'] < 5 else 'cubemaps_without_sphere')
    if case['depth'] > 1:
        run.count('volumetric_textures')
    if case['fmt'] not in G.EXACT:
        run.count('reduced_precision_main_format')

    # index probes: one frame of the texture we built, one of the re-read texture
    rng = sub_rng(case['pix_seed'], 'bounds', 0)
    targets = [vtf._frames[min(vtf._frames, key=repr)]]
    if back is not None and back._frames:
        targets.append(back._frames[rng.choice(sorted(back._frames, key=repr))])
    for t in targets:
        probe_bounds(ctx, t, edge_coords(rng, t.width, t.height, 14), 'bounds')

    summary = {k: case[k] for k in ('w', 'h', 'minor', 'cube', 'depth', 'frames', 'fmt', 'thumb', 'pix_mode', 'explicit_mips')}
    summary.update(resources=len(case['resources']), sheet=bool(case['sheet']), levels_built=levels,
                   reread_frames=len(back._frames) if back is not None else None, failed=ctx.failed)
    run.case(case, case['w'] * case['h'] > 1, sample=summary if sample else None, tag=engine)


def engine_random(run, shard, thorough: bool) -> None:
    n = 150000 if thorough else 7000
    for i in range(n):
        if not mine(i, shard):
            continue
        rng = sub_rng(run.seed, 'roundtrip', i)
        # cycle the formats so that every main and thumbnail format is certain to be hit, the rest is random
        fmt = G.WRITABLE[i % len(G.WRITABLE)]
        thumbs = G.WRITABLE + ('NONE',)
        thumb = thumbs[(i // len(G.WRITABLE)) % len(thumbs)] if i % 3 == 0 else None
        case = G.gen_case(rng, fmt=fmt, thumb=thumb, max_size=64)
        if i % 500 == 499:
            # unusual sizes: eight and more mipmap levels, long thin strips (one frame, so that the run stays short)
            case['w'], case['h'] = ((256, 1), (1, 512), (128, 128), (256, 64), (2048, 1), (1, 4096), (128, 2))[(i // 500) % 7]
            case.update(frames=1, depth=1, cube=False, flags=case['flags'] & ~G.ENVMAP)
            run.count('large_textures')
        run_roundtrip(run, case, 'roundtrip', sample=i < 3)


def sweep_case(seed: int, fmt: str, as_thumb: bool, j: int) -> dict:
    rng = sub_rng(seed, 'sweep', hash((fmt, as_thumb, j)) & 0xFFFF if False else j * 64 + G.WRITABLE.index(fmt) * 2 + as_thumb)
    return {
        'engine': 'sweep', 'w': 16, 'h': 16, 'minor': 2 + j % 4, 'cube': False, 'depth': 1, 'frames': 1, 'flags': 0,
        'fmt': 'RGBA8888' if as_thumb else fmt, 'thumb': fmt if as_thumb else 'NONE',
        'ref': [0.0, 0.0, 0.0], 'bump': 1.0, 'first_frame': 0, 'resources': [], 'sheet': None,
        'pix_seed': rng.getrandbits(48), 'pix_mode': 'sweep', 'explicit_mips': False, 'thumb_inject': as_thumb,
        'save_minor': None,
    }


def engine_sweep(run, shard, thorough: bool) -> None:
    reps = 40 if thorough else 4
    idx = 0
    for fmt in G.WRITABLE:
        for as_thumb in (False, True):
            for j in range(reps):
                idx += 1
                if not mine(idx, shard):
                    continue
                run_roundtrip(run, sweep_case(run.seed, fmt, as_thumb, j), 'sweep', sample=idx == 1)
                run.count('sweep_images')


def run_bounds(run, case: dict, engine: str) -> None:
    vm = _mods()
    ctx = CaseCtx(run, case, engine)
    w, h = case['w'], case['h']
    rng = sub_rng(case['pix_seed'], 'grid', 0)
    vtf = vm.VTF(w, h, fmt=vm.ImageFormats.RGBA8888, thumb_fmt=vm.ImageFormats.NONE)
    frame = vtf.get()
    frame.copy_from(rng.randbytes(4 * w * h))
    coords = [(x, y) for y in range(-2 * h - 1, 2 * h + 2) for x in range(-2 * w - 1, 2 * w + 2)]
    probe_bounds(ctx, frame, coords, 'grid')
    run.count('bounds_grids')
    run.case(case, w * h > 1, sample={'w': w, 'h': h, 'probes': len(coords)} if (w, h) == (2, 4) else None, tag=engine)


def engine_bounds(run, shard) -> None:
    idx = 0
    for w in (1, 2, 4, 8):
        for h in (1, 2, 4, 8):
            idx += 1
            if mine(idx, shard):
                run_bounds(run, {'engine': 'bounds', 'w': w, 'h': h, 'pix_seed': run.seed * 100 + idx}, 'bounds')


def gen_handmade(rng) -> dict:
    w, h = rng.choice(G.SIZES[:6]), rng.choice(G.SIZES[:6])
    if rng.random() < 0.4:
        w, h = rng.choice(((1, h), (w, 1), (2, h), (w, 2)))
    full = max(w, h).bit_length()          # levels until both dimensions are 1
    cube = rng.random() < 0.2
    minor = rng.choice((2, 3, 4, 5))
    return {'engine': 'handmade', 'w': w, 'h': h, 'minor': minor, 'cube': cube, 'depth': 1 if cube else rng.choice((1, 1, 2)),
            'frames': rng.choice((1, 2)), 'mips': rng.choice((full, full, full, rng.randint(1, full))),
            'fmt': rng.choice(('RGBA8888', 'BGR888')), 'flags': G.ENVMAP if cube else 0,
            'clear_after': rng.randrange(0, full), 'pix_seed': rng.getrandbits(48)}


def run_handmade(run, case: dict, engine: str, sample: bool = False) -> None:
    vm = _mods()
    ctx = CaseCtx(run, case, engine)
    rng = sub_rng(case['pix_seed'], 'handmade', 0)
    w, h, mips, fmt = case['w'], case['h'], case['mips'], case['fmt']
    faces = (7 if case['minor'] < 5 else 6) if case['cube'] else case['depth']
    sides = list(vm.CubeSide)[:faces] if case['cube'] else list(range(faces))
    images: Dict[Tuple[int, int, int], bytes] = {}
    for lv in range(mips):
        lw, lh = G.expected_dims(w, h, lv)
        for fr in range(case['frames']):
            for sl in range(faces):
                images[fr, sl, lv] = rng.randbytes(4 * lw * lh)
    data = G.handmade_vtf(w, h, case['minor'], case['frames'], case['depth'], case['cube'], mips, fmt, images, case['flags'])
    try:
        vtf = vm.VTF.read(io.BytesIO(data))
        vtf.load()
    except Exception as exc:
        ctx.bad('read-raises', f'VTF.read/load of an independently written file raised {type(exc).__name__}: {exc}', phase='handmade-read')
        run.case(case, w * h > 1, tag=engine)
        return
    run.count('handmade_files_read')
    want_keys = {(fr, sides[sl], lv) for (fr, sl, lv) in images}
    if set(vtf._frames) != want_keys or vtf.mipmap_count != mips:
        ctx.bad('frame-table-mismatch', 'frame table read from an independently written file is wrong',
                witness={'want': len(want_keys), 'got': len(vtf._frames), 'mipmap_count': vtf.mipmap_count, 'mips_in_file': mips},
                phase='handmade-read')
    for (fr, sl, lv), px in images.items():
        f = vtf._frames.get((fr, sides[sl], lv))
        if f is None:
            continue
        if (f.width, f.height) != G.expected_dims(w, h, lv):
            ctx.bad('mipmap-dimensions', f'level {lv} of a {w}x{h} file read as {f.width}x{f.height}', phase='handmade-read')
            continue
        compare_pixels(ctx, fmt, px, frame_bytes(f), f.width, [fr, dkey_json(sides[sl]), lv], 'handmade-read',
                       'pixels of an independently written file')
    # history: read (lazy) -> the caller moves the stream position and reads from it -> frames are loaded one by one in a
    # shuffled order.  Every lazily loaded frame must find its own bytes whatever happened to the stream in between.
    try:
        stream = io.BytesIO(data + b'TRAILING-BYTES-OF-A-CONTAINER' * 3)
        lz = vm.VTF.read(stream)
        stream.seek(0)
        stream.read(7)
        keys = list(lz._frames)
        sub_rng(run.seed, 'lazy-order', len(data)).shuffle(keys)
        for k in keys:
            lz._frames[k].load()
            stream.seek((len(data) * 7 + k[2]) % (len(data) + 1))
        for (fr, sl, lv), px in images.items():
            f = lz._frames.get((fr, sides[sl], lv))
            if f is None or (f.width, f.height) != G.expected_dims(w, h, lv):
                continue
            compare_pixels(ctx, fmt, px, frame_bytes(f), f.width, [fr, dkey_json(sides[sl]), lv], 'lazy-shuffled-load',
                           'pixels of a frame loaded lazily after the stream position was moved')
        run.count('lazy_shuffled_loads')
    except Exception as exc:
        ctx.bad('lazy-load-raises', f'loading lazy frames after the stream was moved raised {type(exc).__name__}: {exc}', phase='lazy-shuffled-load')
    # history: read (lazy) -> a copy_from() that is refused (wrong buffer length, frame of another size), or that copies
    # the frame onto itself -> the frame still holds the file's pixels
    try:
        lz = vm.VTF.read(io.BytesIO(data))
        how_used = set()
        for n_k, k in enumerate(list(lz._frames)):
            f = lz._frames[k]
            how = (n_k + case['w'] + case['frames']) % 4
            how_used.add(how)
            try:
                if how == 0:
                    f.copy_from(f)
                elif how == 1:
                    f.copy_from(bytes(4 * f.width * f.height + 1))
                    ctx.bad('copy-from-accepts-wrong-size', 'copy_from() accepted a buffer one byte too long', phase='lazy-refused-copy')
                elif how == 2:
                    f.copy_from(vm.Frame(f.width + 1, f.height))
                    ctx.bad('copy-from-accepts-wrong-size', 'copy_from() accepted a frame of another size', phase='lazy-refused-copy')
            except ValueError:
                pass
        for (fr, sl, lv), px in images.items():
            f = lz._frames.get((fr, sides[sl], lv))
            if f is None or (f.width, f.height) != G.expected_dims(w, h, lv):
                continue
            compare_pixels(ctx, fmt, px, frame_bytes(f), f.width, [fr, dkey_json(sides[sl]), lv], 'lazy-refused-copy',
                           'pixels of a lazily loaded frame after a refused copy_from() / a copy onto itself')
        if how_used >= {0, 1}:
            run.count('lazy_frames_after_refused_or_self_copy')
    except Exception as exc:
        ctx.bad('lazy-load-raises', f'a refused copy_from() / self copy on lazy frames raised {type(exc).__name__}: {exc}', phase='lazy-refused-copy')
    # history: read -> save straight away (no load(), no pixel access: every frame is still lazy) -> read.
    # The stored images of EVERY level, custom mipmaps included, must come through unchanged.
    try:
        lazy = vm.VTF.read(io.BytesIO(data))
        out = io.BytesIO()
        lazy.save(out)
        again = vm.VTF.read(io.BytesIO(out.getvalue()))
        again.load()
    except Exception as exc:
        ctx.bad('lazy-resave-raises', f'read -> save -> read of an independently written file raised {type(exc).__name__}: {exc}', phase='lazy-resave')
        again = None
    if again is not None:
        run.count('lazy_resaves')
        for (fr, sl, lv), px in images.items():
            f = again._frames.get((fr, sides[sl], lv))
            if f is None:
                ctx.bad('lazy-resave-loses-level', f'level {lv} is missing after read -> save -> read', phase='lazy-resave')
                break
            if (f.width, f.height) != G.expected_dims(w, h, lv):
                continue
            compare_pixels(ctx, fmt, px, frame_bytes(f), f.width, [fr, dkey_json(sides[sl]), lv], 'lazy-resave',
                           'pixels after read -> save (frames never loaded) -> read')
    # clear and regenerate the lower levels
    after = min(case['clear_after'], mips - 1)
    kept = {k: frame_bytes(f) for k, f in vtf._frames.items()}
    filt_i = (case['clear_after'] + case['w'] + 3 * case['mips'] + case['frames']) % 7  # 0-3 the nearest filters, else the default
    try:
        vtf.clear_mipmaps(after=after)
        if filt_i < 4:
            vtf.compute_mipmaps(vm.FilterMode(filt_i))
            run.count('nearest_filter_regenerations')
        else:
            vtf.compute_mipmaps()
    except Exception as exc:
        ctx.bad('compute-mipmaps-raises', f'clear_mipmaps/compute_mipmaps raised {type(exc).__name__}: {exc}', phase='regen')
        run.case(case, w * h > 1, tag=engine)
        return
    for key, f in vtf._frames.items():
        lv = key[2]
        if f._data is None:
            ctx.bad('mipmap-not-generated', f'level {lv} (of {mips}) was cleared and not regenerated by compute_mipmaps()',
                    witness={'frame': key_json(key)}, phase='regen')
            continue
        now = frame_bytes(f)
        if lv <= after:
            if now != kept[key]:
                ctx.bad('clear-mipmaps-touches-kept-level', f'level {lv} <= after={after} changed', phase='regen')
            continue
        pf = vtf._frames[key[0], key[1], lv - 1]
        run.count('generated_mipmaps_checked')
        if lv >= 1 and (pf.width == 1 or pf.height == 1) and (pf.width, pf.height) != (1, 1):
            run.count('clamped_level_regenerations')
        if filt_i < 4:
            bad = G.mip_pick_violation(frame_bytes(pf), pf.width, pf.height, now, f.width, f.height, right=bool(filt_i & 1), lower=bool(filt_i & 2))
            if bad is not None:
                ctx.bad('mipmap-wrong-dimensions' if bad['why'] == 'dimensions' else 'mipmap-nearest-filter-wrong-pixel',
                        f'level {lv} regenerated with {vm.FilterMode(filt_i).name} from level {lv - 1}: {bad["why"]}',
                        witness={'frame': key_json(key), **bad}, phase='regen')
            continue
        bad = G.mip_average_violation(frame_bytes(pf), pf.width, pf.height, now, f.width, f.height)
        if bad is not None:
            ctx.bad('mipmap-not-average', f'regenerated level {lv} is not the average of level {lv - 1}: {bad["why"]}',
                    witness={'frame': key_json(key), **bad}, phase='regen')
    # the regenerated texture must itself survive a library save/read
    inputs = {k: frame_bytes(f) for k, f in vtf._frames.items() if f._data is not None}
    back, _ = one_pass(ctx, vtf, inputs, 'handmade-resave', {})
    if back is not None:
        idempotence(ctx, back, 'handmade-resave', {})
    run.case(case, w * h > 1, sample={k: case[k] for k in ('w', 'h', 'minor', 'cube', 'mips', 'fmt', 'clear_after')} if sample else None,
             tag=engine)


def engine_handmade(run, shard, thorough: bool) -> None:
    n = 30000 if thorough else 1500
    for i in range(n):
        if mine(i, shard):
            run_handmade(run, gen_handmade(sub_rng(run.seed, 'handmade', i)), 'handmade', sample=i < 2)


# ------------------------------------------------------------------------------------------------ entry points

ANCHORS = ('VTF.save', 'VTF.read', 'VTF.compute_mipmaps', 'Frame.__getitem__', 'Frame.__setitem__',
           'SheetSequence.from_resource', 'SheetSequence.make_data')


def _preflight(run):
    vm = _mods()
    import srctools._py_vtf_readwrite as pyrw
    from rv.probes import ReachProbe
    if vm._format_funcs is not pyrw:
        raise Inconclusive('srctools.vtf._format_funcs is not the pure-Python codec')
    why = G.model_self_check()
    if why:
        raise Inconclusive('harness model broken: ' + why)
    missing = [f for f in G.WRITABLE if vm.ImageFormats[f] not in pyrw._SAVE or vm.ImageFormats[f] not in pyrw._LOAD]
    if missing:
        raise Inconclusive(f'formats assumed writable have no codec: {missing}')
    other = sorted(f.name for f in pyrw._SAVE if f.name not in G.WRITABLE)
    if other:
        run.extra['writable_formats_outside_model'] = other
        run.note_inconclusive(f'the codec can write formats the harness has no model for: {other}')
    anchors = {name: (vm, name) for name in ANCHORS}
    anchors.update({'codec.save': (pyrw, 'save'), 'codec.load': (pyrw, 'load'), 'codec.scale_down': (pyrw, 'scale_down')})
    return ReachProbe(anchors)


def main(run, shard=(0, 1)) -> None:
    thorough = run.tier == 'thorough'
    probe = _preflight(run)
    probe.start()
    engine_bounds(run, shard)
    engine_sweep(run, shard, thorough)
    engine_handmade(run, shard, thorough)
    engine_random(run, shard, thorough)
    probe.report(run)
    probe.check_reached(run)
    run.extra['formats'] = list(G.WRITABLE)
    run.require('lazy_shuffled_loads', 'lazy_frames_after_refused_or_self_copy', 'large_textures', 'default_argument_saves', 'saves', 'reads', 'real_file_passes', 'repeated_saves', 'legacy_version_with_resources', 'resaves', 'frames_compared', 'thumbnails_compared', 'generated_mipmaps_checked', 'nearest_filter_regenerations',
                'index_probes', 'resource_sets_compared', 'sheets_compared', 'one_wide_textures', 'cubemaps_with_sphere',
                'cubemaps_without_sphere', 'volumetric_textures', 'reduced_precision_main_format', 'handmade_files_read',
                'sweep_images')


def replay(run, data) -> None:
    _preflight(run)
    case = data['case']
    engine = case.get('engine', 'roundtrip')
    if engine in ('roundtrip', 'sweep'):
        run_roundtrip(run, case, 'replay', sample=True)
    elif engine == 'bounds':
        run_bounds(run, case, 'replay')
    elif engine == 'handmade':
        run_handmade(run, case, 'replay', sample=True)
    else:
        raise Inconclusive(f'unknown engine in replay file: {engine}')
    run.case('pad', True)
    run.case('pad2', True)


# (kept at the end of the file so that the text above stays the description the check was first built to)
RULE += ' ' + 'Later additions: refused copy_from() (wrong length, other size) and a frame copied onto itself on lazily loaded frames; a few large textures (256x1 .. 1x4096, 128x128, 256x64: eight and more mipmap levels). Every saved file is also read with header_only=True: header fields, resources and sheet equal those of the full read. Frames filled with fill() use the usual fill colours (black, white, one channel) with every kind of alpha, positionally and through the defaults.'
