"""C20 Secondary format writers emit files their own readers reproduce.

One engine per format.  Laws, per generated value x (and per sample document):
  L1  read(write(x)) == x           under the harness snapshot comparer (rv.gen_secondary.snap*), never library __eq__
  L2  write(read(write(x))) == write(x)   byte for byte
  L0  write(x) leaves x unchanged (snapshot before/after)
scenes.image additionally: entry table sorted by CRC (checked on the raw bytes) and every entry summary equal to a
harness-side model of its scene (duration, last speak, sounds).
"""
from __future__ import annotations

import copy
import io
import json
import os
import struct
import traceback
from typing import Any, Callable, Dict, List, Optional, Tuple

from rv import gen_secondary as G
from rv.util import mine, sub_rng
from rv.probes import ReachProbe

PROP = 'C20'
LEVEL = 'exploration'
RULE = (
    'seeded generators, one engine per format, values restricted to what the format can carry. '
    'cmdseq: 0-5 sequences x 0-6 commands, every SpecialCommand member, all flags, ensure_file None/str; strings are '
    'ASCII 1..127 (no NUL) of length <= field width (128 name, 260 others) with lengths 0, width-1 and width '
    'over-represented; plus a harness-encoded pre-0.2 file (junk after NUL) read by the real parser. '
    'choreo text (VCD): every EventType/EventFlags/CaptionType/Interpolation, Gesture/Loop/Speak subclasses, all tag '
    'kinds, relative tag, ramps with edges, actors/channels, scalesettings; strings include quote, backslash, TAB, '
    'CR/LF, structure characters and non-ASCII; restrictions: event times have <= 6 decimals and distancetotarget '
    '>= 0 with 2 decimals (format widths of the writer), fps 10..240 (reader clamps), inactive curve edges are the '
    'default edge, use_combined_file only with enabled captions, '
    'tag_name/tag_wav_name both set or both None, time_zoom_lookup empty and text_crc 0 (not part of the text form), '
    'tag values 0..1 (absolute tags 0..16 when the class accepts them; sub-engine abs-tag insists on that range), no flex animation tracks (the text reader raises NotImplementedError for them; a separate '
    'sub-engine vcd-flex reports that as a finding). '
    'choreo binary (BVCD): times/floats are float32, ramp/tag/flex sample values are k/255, absolute tags k/4096 (k <= 65535 '
    'when the class accepts values above 1.0, else k <= 4096), loop_count -128..127, ramp samples carry the default curve type, '
    'TimingTag.locked False, no VCD-only fields. scenes.image: 1-6 scenes from the binary generator with latin-1 '
    'NUL-free strings and times >= 0, unsorted input order, given as list or dict, versions 2 and 3; re-saved both via '
    'the raw-copy path and after every entry was parsed. '
    'sndscript: 1-4 sounds, every Channel/Level/Pitch member or numbers, single values and min/max ranges, 0..4 waves '
    'with sound characters, operator stacks (None, empty, nested); names and wave paths contain no quote, backslash '
    'or line break (written unescaped; whether backslash is an escape is the caller\'s parse option); names unique case-insensitively; volume/pitch enum constants compare by '
    'their numeric value where they are numbers (Pitch); soundentry version 2 == forced or any non-empty stack. '
    'VMT: shader is a bare identifier, 0-6 parameters, 0-2 fallback blocks (nested), 0-3 proxies; strings are '
    'single-line without double quote (VMT has no escapes) but with backslash, TAB, apostrophe, brackets, braces; '
    'parameter names unique case-insensitively and non-empty; no top-level block '
    'named proxies. PCF: 1-4 systems with options/operators of int, float (k/16), bool, ASCII string, vec2/3/4, '
    'color and int/float array attributes with mixed-case names, children referencing systems of the same file; '
    'written through Particle.export -> Element.export_binary (versions 2-5) or export_kv2 and read back with '
    'Particle.parse(file); attribute names avoid the reserved list names and functionName; element UUIDs come from a '
    'harness counter so second-generation bytes are comparable; the reader mirrors each element name into '
    'options["name"], which the comparer treats as derived data. SMD: 1-10 bones (dict order shuffled in half of the '
    'cases), 0-3 frames, 0-5 triangles with 1-4 weight links; floats have <= 6 decimals, rotations are degrees(r) for '
    'a 6-decimal r in [0, 2*pi), single links weigh 1.0, bone names are ASCII without quote # ; / backslash (quote '
    'ends the name, the others start a comment for the reader), materials are ASCII without . # ; // (the reader '
    'drops a file extension and comments), are not "end" and have no edge blanks or trailing slash. '
    'Samples: every .vcd/.bvcd under tests/test_choreo, tests/test_particles/sample.pcf, every .vmt under tests/ '
    '(test_vmt, test_vtf) are parsed, re-exported, re-parsed and compared (no cmdseq, soundscript or SMD sample '
    'exists in the tree). Non-trivial = the value has >= 1 optional block set (tags/ramp/subclass event; ensure_file '
    'or special command; range or stack or rndwave; block or proxy; operator or child; multi-link vertex or > 1 '
    'bone); distinct = distinct snapshot.')
ASSUMPTIONS = [
    'pure-Python srctools from /repo/src', 'PYTHONHASHSEED pinned to VERIF_SEED (set order feeds the SMD bone numbering)',
    'DMX wire-level defects are C14\'s subject: PCF attribute types are limited to those C14 shows sound',
    'srctools.dmx.get_uuid is replaced by a harness counter during PCF writes (UUIDs are random by design)',
    'the VCD text reader is given Tokenizer(text) with default options, as the tree\'s own tests do',
]
JOBS = {'quick': 4, 'thorough': 16}

COUNTS = {  # engine -> (quick, thorough)
    'cmdseq': (1500, 30000), 'cmdseq-legacy': (300, 5000), 'vcd-text': (3000, 80000), 'vcd-flex': (12, 100),
    'abs-tag': (100, 3000), 'bvcd': (3000, 80000), 'scenes-image': (160, 3000), 'sndscript': (3000, 80000),
    'vmt': (3000, 100000), 'pcf': (1500, 40000), 'smd': (3000, 80000),
}


class Failure(Exception):
    """A refuting observation inside an engine: (stage, message, witness)."""

    def __init__(self, stage: str, msg: str, witness: Any = None) -> None:
        super().__init__(msg)
        self.stage = stage
        self.msg = msg
        self.witness = witness


def _call(stage: str, fn: Callable[[], Any], out: Any = None) -> Any:
    try:
        return fn()
    except Failure:
        raise
    except Exception as exc:
        raise Failure(stage, f'{stage} raised {type(exc).__name__}: {exc}',
                      {'traceback': traceback.format_exc()[-1500:], 'output': _show(out)}) from None


def _show(data: Any) -> Any:
    if data is None:
        return None
    if isinstance(data, bytes):
        return data[:600].hex() if not data[:200].isascii() else data[:1200].decode('ascii', 'replace')
    return str(data)[:1500]


def laws(x: Any, write: Callable[[Any], Any], read: Callable[[Any], Any], snapper: Callable[[Any], Any]) -> Tuple[Any, Any]:
    """L0, L1, L2 for one value.  Returns (first output, re-read value)."""
    before = snapper(x)
    w1 = _call('write', lambda: write(x))
    after = snapper(x)
    d = G.first_diff(before, after)
    if d:
        raise Failure('mutate', f'write() changed its input at {d["path"]}', d)
    w1b = _call('write', lambda: write(x))
    if w1b != w1:
        # (PCF element UUIDs come from the harness counter, so this holds there too)
        raise Failure('unstable', 'writing the same value twice gives different output' + _where(w1, w1b),
                      {'first': _show(w1), 'second': _show(w1b)})
    y = _call('read', lambda: read(w1), w1)
    ysnap = _call('read', lambda: snapper(y), w1)
    d = G.first_diff(before, ysnap)
    if d:
        raise Failure('compare', f'read(write(x)) differs from x at {d["path"]}: want {d["want"]!r} got {d["got"]!r}',
                      {'diff': d, 'output': _show(w1)})
    w2 = _call('rewrite', lambda: write(y), w1)
    if w2 != w1:
        raise Failure('idempotence', 'write(read(write(x))) differs from write(x)' + _where(w1, w2),
                      {'first': _show(w1), 'second': _show(w2), 'at': _where(w1, w2)})
    return w1, y


def edit_law(run, y: Any, edit: Callable[[Any], None], write: Callable[[Any], Any], read: Callable[[Any], Any],
             snapper: Callable[[Any], Any]) -> None:
    """History: the value that was read back is edited through its public attributes, written and read again: the output
    describes the value as it is NOW (nothing is remembered from the parse or from the first write)."""
    # the bytes of the unedited value, read once more AFTER the first value read from them was edited: the reader hands out
    # nothing that it shares with a later call
    w0 = _call('write', lambda: write(y))
    y_first = _call('read', lambda: read(w0), w0)
    pristine = snapper(y_first)
    _call('edit', lambda: edit(y_first))
    d0 = G.first_diff(pristine, _call('read-again', lambda: snapper(read(w0)), w0))
    if d0:
        raise Failure('edit', f'reading the same bytes again after the first value read from them was edited gives another value at {d0["path"]}: '
                              f'want {d0["want"]!r} got {d0["got"]!r}', {'diff': d0})
    _call('edit', lambda: edit(y))
    want = snapper(y)
    w = _call('write-after-edit', lambda: write(y))
    z = _call('read-after-edit', lambda: read(w), w)
    d = G.first_diff(want, _call('read-after-edit', lambda: snapper(z), w))
    if d:
        raise Failure('edit', f'after editing the parsed value, read(write(y)) differs from y at {d["path"]}: want {d["want"]!r} got {d["got"]!r}',
                      {'diff': d, 'output': _show(w)})
    run.count('values_rewritten_after_edits')


def _where(a: Any, b: Any) -> str:
    n = next((i for i, (p, q) in enumerate(zip(a, b)) if p != q), min(len(a), len(b)))
    return f' (first difference at offset {n}; lengths {len(a)}/{len(b)})'


# =================================================================================================== cmdseq
def cmdseq_write(seqs) -> bytes:
    from srctools import cmdseq
    buf = io.BytesIO()
    cmdseq.write(seqs, buf)
    return buf.getvalue()


_SRC = [0]


def _bin_source(data: bytes):
    """Readers take any binary file object: mostly BytesIO, every sixth time a real file on disk."""
    _SRC[0] += 1
    if _SRC[0] % 6:
        return io.BytesIO(data)
    import tempfile
    f = tempfile.TemporaryFile('w+b')
    f.write(data)
    f.seek(0)
    return f


def _text_source(text: str):
    _SRC[0] += 1
    if _SRC[0] % 6:
        return text
    import tempfile
    f = tempfile.TemporaryFile('w+', encoding='utf8', errors='surrogatepass', newline='')
    f.write(text)
    f.seek(0)
    return f


def cmdseq_read(data: bytes):
    from srctools import cmdseq
    buf = _bin_source(data)
    out = cmdseq.parse(buf)
    rest = buf.read()
    if rest:
        raise Failure('read', f'{len(rest)} bytes of the writer\'s output were not consumed by the reader')
    return out


def classify_cmdseq(f: Failure) -> str:
    if f.stage == 'compare':
        path = f.witness['diff']['path']
        want = f.witness['diff'].get('want')
        if isinstance(want, str) and isinstance(f.witness['diff'].get('got'), str):
            return 'cmdseq-string-field-altered'
        return 'cmdseq-field-mismatch' + ('' if not path else ':' + path.rsplit('/', 1)[-1])
    return f'cmdseq-{f.stage}-failure'


def eng_cmdseq(run, rng, case) -> Tuple[Any, bool]:
    x = G.gen_cmdseq(rng)
    case['value'] = G.snap_cmdseq(x)
    w1, y = laws(x, cmdseq_write, cmdseq_read, G.snap_cmdseq)

    def edit(seqs) -> None:
        for name, cmds in list(seqs.items())[:2]:
            for c in cmds[:2]:
                c.enabled = not c.enabled
                c.args = (c.args + ' -edited')[:200]
                c.ensure_file = None if c.ensure_file is not None else 'out.bsp'
            if cmds:
                cmds.append(copy.copy(cmds[0]))
                del cmds[0]
        if seqs:
            first = next(iter(seqs))
            seqs[first[:100] + ' 2'] = seqs.pop(first)
    if rng.random() < 0.5:
        edit_law(run, y, edit, cmdseq_write, cmdseq_read, G.snap_cmdseq)
    n_cmds = sum(len(c) for c in x.values())
    if len(w1) != 31 + 4 + 4 + 132 * len(x) + struct.calcsize('Bi260s260sii260sii') * n_cmds:
        raise Failure('layout', f'output is {len(w1)} bytes for {len(x)} sequences / {n_cmds} commands')
    run.count('cmdseq_commands', n_cmds)
    return case['value'], G.cmdseq_nontrivial(x)


def eng_cmdseq_legacy(run, rng, case) -> Tuple[Any, bool]:
    """A pre-0.2 document built by the harness's own encoder: parse, re-export, re-parse, compare."""
    x = G.gen_cmdseq(rng)
    for cmds in x.values():
        for c in cmds:
            c.no_wait = False  # not part of the old layout
    case['value'] = G.snap_cmdseq(x)
    doc = G.encode_cmdseq_legacy(rng, x)
    y = _call('read-legacy', lambda: cmdseq_read(doc), doc)
    d = G.first_diff(case['value'], G.snap_cmdseq(y))
    if d:
        raise Failure('compare', f'legacy document read differs at {d["path"]}: want {d["want"]!r} got {d["got"]!r}',
                      {'diff': d})
    laws(y, cmdseq_write, cmdseq_read, G.snap_cmdseq)
    return case['value'], G.cmdseq_nontrivial(x)


# =================================================================================================== choreo
def vcd_write(scene) -> str:
    buf = io.StringIO()
    scene.export_text(buf)
    return buf.getvalue()


def vcd_read(text: str):
    from srctools.choreo import Scene
    from srctools.tokenizer import Tokenizer
    return Scene.parse_text(Tokenizer(text))


def bvcd_write(scene) -> bytes:
    """BVCD bytes with the string pool prepended as JSON (the pool is part of the written form)."""
    from srctools import binformat
    pool: List[str] = []
    data = scene.export_binary(binformat.find_or_insert(pool, lambda s: s))
    return json.dumps(pool).encode('ascii') + b'\n' + data


def bvcd_read(blob: bytes):
    from srctools.choreo import Scene
    head, data = blob.split(b'\n', 1)
    pool = json.loads(head)
    buf = io.BytesIO(data)
    scene = Scene.parse_binary(buf, pool)
    rest = buf.read()
    if rest:
        raise Failure('read', f'{len(rest)} bytes of the writer\'s output were not consumed by the reader',
                      {'output': _show(data)})
    return scene


VCD_UNESCAPED_FIELDS = ('cc_token', 'scale_settings')


def _vcd_strip_unescaped(scene) -> None:
    """Ablation: remove escape-set characters from the two strings the text writer emits without escape_text."""
    def clean(s: str) -> str:
        return ''.join(c for c in s if c not in G.ESCAPES)
    scene.scale_settings = {clean(k): v for k, v in scene.scale_settings.items()}
    for ev in scene.iter_events():
        if hasattr(ev, 'cc_token'):
            ev.cc_token = clean(ev.cc_token)


def classify_vcd(f: Failure, text: Optional[str], regen: Optional[Callable[[], Any]] = None) -> str:
    blob = json.dumps(f.witness, default=repr) if f.witness is not None else ''
    if 'NotImplementedError' in f.msg or ('NotImplementedError' in blob and 'flexanimations' in blob):
        return 'vcd-text-flexanimations-reader-unimplemented'
    if f.stage == 'compare':
        d = f.witness['diff']
        field = next((p for p in reversed(d['path'].split('/')) if p and not p.isdigit() and p != '__dict__'), '')
        want = d.get('want')
        import re
        if re.search(r'/events/\d+/ramp/(left|right)/active$', d['path']) and want is True and d.get('got') is False:
            return 'vcd-text-event-ramp-edges-dropped'
        if field in VCD_UNESCAPED_FIELDS and isinstance(want, str) and any(c in want for c in G.ESCAPES):
            return 'vcd-text-string-unescaped'
        if field in VCD_UNESCAPED_FIELDS and d.get('got') == '<missing>':
            return 'vcd-text-string-unescaped'
        return 'vcd-text-field-mismatch:' + field
    if f.stage in ('read', 'idempotence') and regen is not None:
        # Ablation: does the failure vanish once the two unescaped strings hold no escape-set character?
        x = regen()
        _vcd_strip_unescaped(x)
        try:
            laws(x, vcd_write, vcd_read, G.snap)
            return 'vcd-text-string-unescaped'
        except Failure as f2:
            if f2.stage not in ('read', 'idempotence'):
                return 'vcd-text-string-unescaped'
    if f.stage == 'read':
        return 'vcd-text-reader-rejects-writer-output'
    return f'vcd-text-{f.stage}-failure'


def eng_vcd_text(run, rng, case) -> Tuple[Any, bool]:
    x = G.gen_scene(rng, 'text')
    case['value'] = G.snap(x)
    laws(x, vcd_write, vcd_read, G.snap)
    run.count('vcd_events', sum(1 for _ in x.iter_events()))
    return case['value'], G.scene_nontrivial(x)


def eng_vcd_flex(run, rng, case) -> Tuple[Any, bool]:
    """Text scenes WITH flex animation tracks (the text form has a flexanimations block)."""
    from srctools import choreo
    x = G.gen_scene(rng, 'text', flex=True)
    if not any(ev.flex_anim_tracks for ev in x.iter_events()):
        ev = G.gen_event(rng, 'text', lambda: 'flex', True)
        ev.flex_anim_tracks.append(choreo.FlexAnimTrack('lid_raiser', True, 0.0, 1.0,
                                                        [choreo.ExpressionSample(0.5, 0.25)], None))
        x.events.append(ev)
    case['value'] = G.snap(x)
    laws(x, vcd_write, vcd_read, G.snap)
    return case['value'], True


def eng_abs_tag(run, rng, case) -> Tuple[Any, bool]:
    """Absolute tags beyond 1.0 (the 16-bit field and the class docstring give them the range [0, 16))."""
    from srctools import choreo
    mode = rng.choice(('text', 'bin'))
    x = G.gen_scene(rng, mode)
    ev = G.gen_event(rng, mode, lambda: 'abs', False)
    vals = [G.abs_value(rng, mode, True) for _ in range(rng.choice((1, 2, 3)))] + [rng.uniform(1.0, 15.9) if mode == 'text' else rng.randrange(4097, 65536) / 4096.0]
    case['value'] = {'mode': mode, 'absolute_tag_values': vals}
    tags = _call('construct', lambda: [choreo.AbsoluteTag(f't{i}', v) for i, v in enumerate(vals)])
    (ev.absolute_playback_tags if rng.random() < 0.5 else ev.absolute_shifted_tags).extend(tags)
    x.events.append(ev)
    case['value']['scene'] = G.snap(x)
    if mode == 'text':
        laws(x, vcd_write, vcd_read, G.snap)
    else:
        laws(x, bvcd_write, bvcd_read, G.snap)
    return case['value'], True


def classify_abs_tag(f: Failure) -> str:
    if f.stage == 'construct' and "'value' must be <= 1.0" in f.msg:
        return 'choreo-absolute-tag-range-capped-at-1'
    return f'choreo-abs-tag-{f.stage}-failure'


BVCD_ABLATIONS: List[Tuple[str, Callable[[Any], None]]] = [
    ('bvcd-relative-tag-extra-byte', lambda ev: (setattr(ev, 'tag_name', None), setattr(ev, 'tag_wav_name', None))),
    ('bvcd-flex-track-mismatch', lambda ev: ev.flex_anim_tracks.clear()),
    ('bvcd-tag-list-mismatch', lambda ev: (ev.relative_tags.clear(), ev.timing_tags.clear(),
                                           ev.absolute_playback_tags.clear(), ev.absolute_shifted_tags.clear())),
    ('bvcd-ramp-mismatch', lambda ev: ev.ramp.ramp.clear()),
]


def classify_bvcd(f: Failure, regen: Callable[[], Any]) -> str:
    """Feature ablation on a regenerated copy: the first optional block whose removal makes the laws hold names the
    mechanism (deterministic: fixed order, same value)."""
    for key, strip in BVCD_ABLATIONS:
        x = regen()
        for ev in x.iter_events():
            strip(ev)
        try:
            laws(x, bvcd_write, bvcd_read, G.snap)
        except Failure:
            continue
        return key
    if f.stage == 'compare':
        d = f.witness['diff']
        field = next((p for p in reversed(d['path'].split('/')) if p and not p.isdigit()), '')
        return 'bvcd-field-mismatch:' + field
    return f'bvcd-{f.stage}-failure'


def eng_bvcd(run, rng, case) -> Tuple[Any, bool]:
    x = G.gen_scene(rng, 'bin')
    case['value'] = G.snap(x)
    laws(x, bvcd_write, bvcd_read, G.snap)
    run.count('bvcd_events', sum(1 for _ in x.iter_events()))
    return case['value'], G.scene_nontrivial(x)


# ------------------------------------------------------------------------------------------- scenes.image
def image_table(data: bytes) -> List[int]:
    """CRC column of the entry table, decoded by the harness straight from the bytes."""
    magic, version, count, nstr, off = struct.unpack_from('<4s4i', data, 0)
    if magic != b'VSIF':
        raise Failure('layout', 'scenes.image does not start with VSIF')
    return [struct.unpack_from('<Iiii', data, off + 16 * i)[0] for i in range(count)]


def snap_image(entries: Dict[int, Any], version: int) -> Any:
    out = []
    for crc in sorted(entries):
        e = entries[crc]
        out.append({'crc': int(e.checksum), 'key': int(crc), 'duration_ms': e.duration_ms,
                    'last_speak_ms': e.last_speak_ms if version == 3 else e.duration_ms,
                    'sounds': list(e.sounds), 'scene': G.snap(e.data)})
    return out


def gen_image(rng) -> Tuple[List[Tuple[str, Any]], int, bool]:
    scenes = []
    seen = set()
    from srctools.choreo import checksum_filename
    for _ in range(rng.choice((1, 2, 3, 6))):
        fn = rng.choice(('scenes/', 'Scenes\\', '')) + rng.choice(('npc/a', 'intro', 'x/y/z', 'B')) + str(rng.randrange(1000)) + '.vcd'
        crc = checksum_filename(fn)
        if crc in seen:
            continue
        seen.add(crc)
        scenes.append((fn, G.gen_scene(rng, 'image')))
    return scenes, rng.choice((2, 3)), rng.random() < 0.5


class _NoRun:
    def count(self, *a, **k) -> None:
        pass


def classify_image(f: Failure, regen: Callable[[], Any]) -> str:
    if f.stage in ('read', 'compare', 'rewrite', 'write'):
        # Is it a defect of the embedded BVCD writer/reader?  Same ablation as the bvcd engine.
        for key, strip in BVCD_ABLATIONS:
            scenes, version, as_dict = regen()
            for _, sc in scenes:
                for ev in sc.iter_events():
                    strip(ev)
            try:
                image_laws(_NoRun(), scenes, version, as_dict)
            except Failure as f2:
                if f2.stage in ('read', 'compare', 'rewrite', 'write'):
                    continue
            return key
    if f.stage == 'sorted':
        return 'image-entries-not-sorted'
    if f.stage == 'summary':
        return 'image-summary-inconsistent'
    if f.stage == 'idempotence-reparsed':
        return 'image-pool-order-depends-on-input-order'
    if f.stage == 'compare':
        d = f.witness['diff']
        field = next((p for p in reversed(d['path'].split('/')) if p and not p.isdigit()), '')
        return 'image-field-mismatch:' + field
    return f'image-{f.stage}-failure'


def eng_image(run, rng, case) -> Tuple[Any, bool]:
    scenes, version, as_dict = gen_image(rng)
    case['value'] = {'version': version, 'as_dict': as_dict, 'files': [fn for fn, _ in scenes],
                     'scenes': [G.snap(s) for _, s in scenes]}
    image_laws(run, scenes, version, as_dict)
    # history: two images written separately, parsed (entries keep their raw bytes and EACH image's own string pool),
    # merged into one mapping and saved as one image
    from srctools.choreo import checksum_filename
    have = {checksum_filename(fn) for fn, _ in scenes}
    scenes2 = [(fn, sc) for fn, sc in gen_image(rng)[0] if checksum_filename(fn) not in have]
    if scenes2:
        image_merge_law(run, scenes, scenes2, version, touch_first=rng.random() < 0.5)
    return case['value'], any(G.scene_nontrivial(s) for _, s in scenes)


def image_merge_law(run, scenes_a, scenes_b, version: int, touch_first: bool) -> None:
    from srctools import choreo

    def save(ents) -> bytes:
        buf = io.BytesIO()
        choreo.save_scenes_image_sync(buf, ents, version=version)
        return buf.getvalue()
    ents_a = [choreo.Entry.from_scene(fn, sc) for fn, sc in scenes_a]
    ents_b = [choreo.Entry.from_scene(fn, sc) for fn, sc in scenes_b]
    want = snap_image({e.checksum: e for e in ents_a + ents_b}, version)
    wa = _call('write', lambda: save(ents_a))
    wb = _call('write', lambda: save(ents_b))
    ya = _call('read', lambda: choreo.parse_scenes_image(io.BytesIO(wa)), wa)
    yb = _call('read', lambda: choreo.parse_scenes_image(io.BytesIO(wb)), wb)
    if touch_first:
        for e in list(ya.values())[:1]:
            e.data  # one entry is decoded before the merge, the others stay raw
    merged = dict(ya)
    merged.update(yb)
    wm = _call('rewrite', lambda: save(merged), wa)
    table = image_table(wm)
    if table != sorted(table) or sorted(table) != sorted(int(e.checksum) for e in merged.values()):
        raise Failure('sorted', 'entry table of an image merged from two parsed images is not the sorted CRCs of its entries', {'table': table})
    z = _call('read', lambda: choreo.parse_scenes_image(io.BytesIO(wm)), wm)
    d = G.first_diff(want, _call('read', lambda: snap_image(z, version), wm))
    if d:
        raise Failure('compare', f'image merged from two parsed images: entry differs at {d["path"]}: want {d["want"]!r} got {d["got"]!r}', {'diff': d})
    run.count('image_merges')


def image_laws(run, scenes, version: int, as_dict: bool) -> None:
    from srctools import choreo

    def build() -> Any:
        ents = [choreo.Entry.from_scene(fn, sc) for fn, sc in scenes]
        return {e.checksum: e for e in ents} if as_dict else ents

    def save(ents) -> bytes:
        buf = io.BytesIO()
        choreo.save_scenes_image_sync(buf, ents, version=version)
        return buf.getvalue()

    x = build()
    xlist = list(x.values()) if as_dict else x
    want = snap_image({e.checksum: e for e in xlist}, version)
    w1 = _call('write', lambda: save(x))
    d = G.first_diff(want, snap_image({e.checksum: e for e in xlist}, version))
    if d:
        raise Failure('mutate', f'save changed its input at {d["path"]}', d)
    table = image_table(w1)
    run.count('image_entries', len(table))
    if table != sorted(table):
        raise Failure('sorted', 'entry table is not sorted by CRC', {'table': table})
    if sorted(table) != sorted(int(e.checksum) for e in xlist):
        raise Failure('sorted', 'entry table CRCs differ from the input entries', {'table': table})
    y = _call('read', lambda: choreo.parse_scenes_image(io.BytesIO(w1)), w1)
    if [int(k) for k in y] != table:
        raise Failure('sorted', 'reader returns entries in another order than the table', {'table': table})
    # second generation, raw-copy path (entries still hold their bytes + shared pool)
    w2 = _call('rewrite', lambda: save(y), w1)
    if w2 != w1:
        raise Failure('idempotence', 'save(parse(save(x))) differs (raw-copy path)' + _where(w1, w2))
    ysnap = _call('read', lambda: snap_image(y, version), w1)
    d = G.first_diff(want, ysnap)
    if d:
        raise Failure('compare', f'parse(save(x)) differs from x at {d["path"]}: want {d["want"]!r} got {d["got"]!r}',
                      {'diff': d})
    # summaries against the harness model of the scene that was read back
    for crc, e in y.items():
        dur, speak, sounds = G.model_summary(e.data)
        bad = None
        if abs(e.duration_ms - dur * 1000.0) > 0.5 + 1e-6:
            bad = ('duration_ms', e.duration_ms, dur * 1000.0)
        elif version == 3 and abs(e.last_speak_ms - speak * 1000.0) > 0.5 + 1e-6:
            bad = ('last_speak_ms', e.last_speak_ms, speak * 1000.0)
        elif list(e.sounds) != sounds:
            bad = ('sounds', list(e.sounds), sounds)
        if bad:
            raise Failure('summary', f'entry {crc:#x}: {bad[0]} is {bad[1]!r}, its scene says {bad[2]!r}', {'entry': int(crc)})
        run.count('image_summaries_checked')
    # second generation again, now that every entry has been parsed (re-export path, fresh pool)
    w3 = _call('rewrite', lambda: save(y), w1)
    if w3 != w1:
        raise Failure('idempotence-reparsed', 'save(parse(save(x))) differs once the entries were parsed' + _where(w1, w3),
                      {'input_order': [int(e.checksum) for e in xlist], 'table': table})


    # multi-step history: rename entries of the parsed mapping in place.  The filename setter recomputes the entry's
    # checksum, so the mapping keys are stale now; the container must still be sorted by the entries' checksums.
    for i, e in enumerate(list(y.values())):
        if i % 2 == 0:
            e.filename = f'renamed/{i}_' + e.filename.replace('\\', '/').split('/')[-1]
    crcs = [int(e.checksum) for e in y.values()]
    if len(set(crcs)) == len(crcs):
        w4 = _call('rewrite', lambda: save(y), w1)
        table4 = image_table(w4)
        run.count('image_renamed_resaves')
        if table4 != sorted(table4):
            raise Failure('sorted', 'entry table is not sorted by CRC after entries were renamed in place (stale mapping keys)',
                          {'table': table4, 'keys': [int(k) for k in y]})
        if sorted(table4) != sorted(crcs):
            raise Failure('sorted', 'entry table CRCs differ from the renamed entries', {'table': table4})
        z = _call('read', lambda: choreo.parse_scenes_image(io.BytesIO(w4)), w4)
        w5 = _call('rewrite', lambda: save(z), w4)
        if w5 != w4:
            raise Failure('idempotence', 'save(parse(save(renamed))) differs' + _where(w4, w5))


# =================================================================================================== sndscript
def snd_write(sounds) -> str:
    buf = io.StringIO()
    for s in sounds:
        s.export(buf)
    return buf.getvalue()


def snd_read(text: str):
    from srctools.keyvalues import Keyvalues
    from srctools.sndscript import Sound
    return list(Sound.parse(Keyvalues.parse(text)).values())


def snap_sounds(sounds) -> Any:
    return [G.snap_sound(s) for s in sounds]


def classify_snd(f: Failure, text: Optional[str]) -> str:
    if f.stage == 'read' and 'Unexpected ","' in f.msg:
        return 'sndscript-range-unquoted'
    if f.stage == 'compare':
        d = f.witness['diff']
        field = next((p for p in reversed(d['path'].split('/')) if p and not p.isdigit()), '')
        return 'sndscript-field-mismatch:' + field
    return f'sndscript-{f.stage}-failure'


def eng_snd(run, rng, case) -> Tuple[Any, bool]:
    x = G.gen_sounds(rng)
    case['value'] = snap_sounds(x)
    _, y = laws(x, snd_write, snd_read, snap_sounds)

    def edit(sounds) -> None:
        from srctools.keyvalues import Keyvalues
        for s_ in sounds[:2]:
            s_.volume = (0.25, 0.75)
            s_.pitch = (s_.pitch[1], s_.pitch[1])
            s_.sounds.append('edited/added.wav')
            if len(s_.sounds) > 2:
                del s_.sounds[0]
            s_.stack_update = Keyvalues('', [Keyvalues('edited_op', [Keyvalues('input', '1.0')])])
            s_.stack_start = Keyvalues('', [])
    if rng.random() < 0.5:
        edit_law(run, y, edit, snd_write, snd_read, snap_sounds)
    if any(s.volume[0] != s.volume[1] or s.level[0] != s.level[1] or s.pitch[0] != s.pitch[1] for s in x):
        run.count('sndscript_ranges')
    return case['value'], any(G.sound_nontrivial(s) for s in x)


# =================================================================================================== VMT
def vmt_write(mat) -> str:
    buf = io.StringIO()
    mat.export(buf)
    return buf.getvalue()


def vmt_read(text: str):
    from srctools.vmt import Material
    return Material.parse(_text_source(text))


def _vmt_bare_special(text: str) -> bool:
    """Does the written material hold a top-level parameter whose BARE name or value starts with / or # ?"""
    import re
    return any(re.match(r'^\t(?:[/#]|(?:"[^"]*"|[^\s"]+) [/#])', line) for line in text.splitlines()[2:])


def classify_vmt(f: Failure) -> str:
    text = (f.witness.get('output') if isinstance(f.witness, dict) else None) or ''
    if f.stage == 'compare':
        d = f.witness['diff']
        top = d['path'].split('/')[1] if '/' in d['path'] else ''
        want, got = d.get('want'), d.get('got')
        if top in ('blocks', 'proxies') and isinstance(want, str) and isinstance(got, str) \
                and any(c in want for c in '\\\t\'') and len(got) > len(want):
            return 'vmt-block-strings-escaped-but-read-verbatim'
        if top == 'params' and _vmt_bare_special(text):
            return 'vmt-bare-string-special-first-char'
        return 'vmt-field-mismatch:' + top
    if f.stage == 'read' and _vmt_bare_special(text):
        return 'vmt-bare-string-special-first-char'
    return f'vmt-{f.stage}-failure'


def eng_vmt(run, rng, case) -> Tuple[Any, bool]:
    x = G.gen_material(rng)
    case['value'] = G.snap_material(x)
    _, y = laws(x, vmt_write, vmt_read, G.snap_material)

    def edit(mat) -> None:
        from srctools.keyvalues import Keyvalues
        keys = list(mat)
        if keys:
            mat[keys[0].upper()] = 'edited value'      # an existing parameter, addressed in another letter case
        if len(keys) > 1:
            del mat[keys[-1]]
        mat['$edited_param'] = '[1 0 0]'
        mat.shader = mat.shader + 'Edited' if mat.shader.isidentifier() else 'EditedShader'
        mat.blocks.append(Keyvalues('edited_block', [Keyvalues('$k', 'v')]))
        if mat.proxies:
            del mat.proxies[0]
    if rng.random() < 0.5:
        edit_law(run, y, edit, vmt_write, vmt_read, G.snap_material)
    return case['value'], bool(x.blocks or x.proxies)


# =================================================================================================== PCF
class _Uuids:
    """Deterministic stand-in for uuid4 inside srctools.dmx while a PCF is written."""

    def __init__(self) -> None:
        self.n = 0

    def __call__(self):
        import uuid
        self.n += 1
        return uuid.UUID(int=(0xC20 << 96) | self.n)


_PCF_FORMS = [0]


def pcf_codec(encoding: str, fmt_ver: int) -> Tuple[Callable[[Any], bytes], Callable[[bytes], Any]]:
    import srctools.dmx as dmx
    from srctools.particles import Particle

    def write(parts) -> bytes:
        real = dmx.get_uuid
        dmx.get_uuid = _Uuids()
        try:
            # "particles: Iterable[Particle]": a list, a tuple, a one-shot iterator and a dict view are all iterables
            _PCF_FORMS[0] += 1
            form = _PCF_FORMS[0] % 4
            given = parts if form == 0 else tuple(parts) if form == 1 else iter(list(parts)) if form == 2 else {id(p): p for p in parts}.values()
            root = Particle.export(given)
            buf = io.BytesIO()
            if encoding == 'kv2':
                root.export_kv2(buf, 'pcf', fmt_ver)
            else:
                root.export_binary(buf, int(encoding), 'pcf', fmt_ver)
            return buf.getvalue()
        finally:
            dmx.get_uuid = real

    def read(data: bytes):
        return list(Particle.parse(_bin_source(data)).values())
    return write, read


def snap_particles(parts) -> Any:
    return [G.snap_particle(p) for p in parts]


def classify_pcf(f: Failure) -> str:
    if f.stage == 'compare':
        d = f.witness['diff']
        want, got = d.get('want'), d.get('got')
        if d['path'].endswith('/name') and isinstance(want, str) and isinstance(got, str) \
                and want != got and want.casefold() == got.casefold():
            return 'pcf-attribute-name-casefolded'
        field = next((p for p in reversed(d['path'].split('/')) if p and not p.isdigit()), '')
        return 'pcf-field-mismatch:' + field
    return f'pcf-{f.stage}-failure'


def eng_pcf(run, rng, case) -> Tuple[Any, bool]:
    x = G.gen_particles(rng)
    encoding = rng.choice(('2', '3', '4', '5', '5', 'kv2'))
    fmt_ver = rng.choice((1, 2))
    case['value'] = {'encoding': encoding, 'fmt_ver': fmt_ver, 'particles': snap_particles(x)}
    write, read = pcf_codec(encoding, fmt_ver)
    laws(x, write, read, snap_particles)
    # also the direct Element path (no bytes): Particle.parse(Particle.export(x))
    from srctools.particles import Particle
    y = _call('read-element', lambda: list(Particle.parse(Particle.export(x), fmt_ver).values()))
    d = G.first_diff(snap_particles(x), snap_particles(y))
    if d:
        raise Failure('compare', f'parse(export(x)) (Element path) differs at {d["path"]}: want {d["want"]!r} got {d["got"]!r}',
                      {'diff': d})
    # multi-step history: rename parsed systems and operators, write, read: the new names must arrive
    if y and not any(p.children for p in y):
        for k, p in enumerate(y):
            p.name = f'renamed_{k}_' + p.name
            for kind in ('renderers', 'operators', 'initializers', 'emitters', 'forces', 'constraints'):
                for j, op in enumerate(getattr(p, kind)):
                    op.name = f'op{j}_' + op.name
        want = snap_particles(y)
        z = _call('read', lambda: read(write(y)))
        d = G.first_diff(want, snap_particles(z))
        run.count('pcf_rename_histories')
        if d:
            raise Failure('compare', f'parse -> rename -> write -> read differs at {d["path"]}: want {d["want"]!r} got {d["got"]!r}', {'diff': d})
    run.count('pcf_' + ('kv2' if encoding == 'kv2' else 'binary'))
    return case['value'], any(p.children or any(getattr(p, k) for k in ('renderers', 'operators', 'initializers', 'emitters', 'forces', 'constraints')) for p in x)


# =================================================================================================== SMD
def smd_write(mesh) -> bytes:
    buf = io.BytesIO()
    mesh.export(buf)
    return buf.getvalue()


def smd_read(data: bytes):
    from srctools.smd import Mesh
    return Mesh.parse_smd(_bin_source(data))


def classify_smd(f: Failure) -> str:
    if f.stage == 'read' and 'Extra weight number' in f.msg:
        return 'smd-link-count-glued-to-uv'
    if f.stage == 'idempotence':
        first, second = f.witness.get('first') or '', f.witness.get('second') or ''
        a, b = first.split('skeleton')[0], second.split('skeleton')[0]
        if a != b and sorted(l.split(' ', 1)[1].rsplit(' ', 1)[0] for l in a.splitlines()[2:-1]) == \
                sorted(l.split(' ', 1)[1].rsplit(' ', 1)[0] for l in b.splitlines()[2:-1]):
            return 'smd-bone-numbering-not-stable'
    if f.stage == 'compare':
        d = f.witness['diff']
        field = next((p for p in reversed(d['path'].split('/')) if p and not p.isdigit()), '')
        return 'smd-field-mismatch:' + field
    return f'smd-{f.stage}-failure'


def eng_smd(run, rng, case) -> Tuple[Any, bool]:
    x = G.gen_mesh(rng)
    case['value'] = G.snap_mesh(x)
    _, y = laws(x, smd_write, smd_read, G.snap_mesh)

    def edit(mesh) -> None:
        for tri in mesh.triangles[:2]:
            tri.mat = 'edited/material'
            for v in tri:
                v.pos.x = round(v.pos.x + 8.0, 3)
                v.tex_u = 0.25
        if len(mesh.triangles) > 2:
            del mesh.triangles[-1]
        for frame in mesh.animation.values():
            for pose in frame[:1]:
                pose.position.z = round(pose.position.z + 4.0, 3)
    if rng.random() < 0.5:
        edit_law(run, y, edit, smd_write, smd_read, G.snap_mesh)
    if any(len(v.links) > 1 for t in x.triangles for v in t):
        run.count('smd_multilink_meshes')
    return case['value'], G.mesh_nontrivial(x)


# =================================================================================================== samples
def sample_docs() -> List[Tuple[str, str]]:
    """(kind, path) for every sample document of these formats under <repo>/tests."""
    from rv import bootstrap
    root = os.path.join(bootstrap.REPO, 'tests')
    out: List[Tuple[str, str]] = []
    for dirpath, _, files in sorted(os.walk(root)):
        for fn in sorted(files):
            ext = os.path.splitext(fn)[1].lower()
            kind = {'.vcd': 'vcd', '.bvcd': 'bvcd', '.pcf': 'pcf', '.vmt': 'vmt', '.smd': 'smd', '.wc': 'cmdseq',
                    '.image': 'image'}.get(ext)
            if kind:
                out.append((kind, os.path.join(dirpath, fn)))
    return out


def seed_laws(y: Any, write, read, snapper) -> None:
    """For a parsed sample y: write, re-read, compare with y, write again."""
    laws(y, write, read, snapper)


def eng_sample(run, kind: str, path: str) -> None:
    from srctools import choreo
    if kind == 'vcd':
        with open(path, encoding='utf8') as f:
            text = f.read()
        y = _call('read-sample', lambda: vcd_read(text))
        seed_laws(y, vcd_write, vcd_read, G.snap)
        # the same scene through the binary form: compare the binary image of it with itself
        yb = _call('read', lambda: bvcd_read(bvcd_write(y)))
        seed_laws(yb, bvcd_write, bvcd_read, G.snap)
        # and through a one-entry scenes.image in both versions
        for version in (2, 3):
            buf = io.BytesIO()
            ent = choreo.Entry.from_scene('scenes/sample.vcd', yb)
            _call('write', lambda: choreo.save_scenes_image_sync(buf, [ent], version=version))
            got = _call('read', lambda: choreo.parse_scenes_image(io.BytesIO(buf.getvalue())))
            [e2] = got.values()
            d = G.first_diff(G.snap(yb), G.snap(e2.data))
            if d or e2.duration_ms != ent.duration_ms or list(e2.sounds) != list(ent.sounds):
                raise Failure('compare', f'sample scene through scenes.image v{version} differs', {'diff': d})
            run.count('image_summaries_checked')
    elif kind == 'bvcd':
        with open(path, 'rb') as f:
            raw = f.read()
        pool, end = json.JSONDecoder().raw_decode(raw.decode('latin1'))
        blob = json.dumps(pool).encode('ascii') + b'\n' + raw[end:]
        y = _call('read-sample', lambda: bvcd_read(blob))
        seed_laws(y, bvcd_write, bvcd_read, G.snap)
    elif kind == 'pcf':
        from srctools.particles import Particle
        with open(path, 'rb') as f:
            raw = f.read()
        y = _call('read-sample', lambda: list(Particle.parse(io.BytesIO(raw)).values()))
        for enc in ('2', '5', 'kv2'):
            write, read = pcf_codec(enc, 2)
            seed_laws(y, write, read, snap_particles)
    elif kind == 'vmt':
        with open(path, encoding='utf8') as f:
            text = f.read()
        y = _call('read-sample', lambda: vmt_read(text))
        seed_laws(y, vmt_write, vmt_read, G.snap_material)
    elif kind == 'smd':
        with open(path, 'rb') as f:
            raw = f.read()
        y = _call('read-sample', lambda: smd_read(raw))
        seed_laws(y, smd_write, smd_read, G.snap_mesh)
    elif kind == 'cmdseq':
        with open(path, 'rb') as f:
            raw = f.read()
        y = _call('read-sample', lambda: cmdseq_read(raw))
        seed_laws(y, cmdseq_write, cmdseq_read, G.snap_cmdseq)
    elif kind == 'image':
        with open(path, 'rb') as f:
            raw = f.read()
        y = _call('read-sample', lambda: choreo.parse_scenes_image(io.BytesIO(raw)))
        buf = io.BytesIO()
        choreo.save_scenes_image_sync(buf, y)
        if buf.getvalue() != raw and image_table(buf.getvalue()) != sorted(image_table(raw)):
            raise Failure('sorted', 're-saved sample image has another entry table')


# =================================================================================================== driver
ENGINES: Dict[str, Callable] = {
    'cmdseq': eng_cmdseq, 'cmdseq-legacy': eng_cmdseq_legacy, 'vcd-text': eng_vcd_text, 'vcd-flex': eng_vcd_flex,
    'abs-tag': eng_abs_tag, 'bvcd': eng_bvcd, 'scenes-image': eng_image, 'sndscript': eng_snd, 'vmt': eng_vmt, 'pcf': eng_pcf, 'smd': eng_smd,
}


def classify(engine: str, f: Failure, seed: int, index: int) -> str:
    if f.stage == 'mutate':
        return f'{engine}-write-mutates-input'
    text = None
    if isinstance(f.witness, dict):
        text = f.witness.get('output')
    if engine in ('cmdseq', 'cmdseq-legacy'):
        return classify_cmdseq(f)
    if engine == 'vcd-text':
        return classify_vcd(f, text, lambda: G.gen_scene(sub_rng(seed, engine, index), 'text'))
    if engine == 'vcd-flex':
        return classify_vcd(f, text)
    if engine == 'abs-tag':
        return classify_abs_tag(f)
    if engine == 'bvcd':
        return classify_bvcd(f, lambda: G.gen_scene(sub_rng(seed, engine, index), 'bin'))
    if engine == 'scenes-image':
        return classify_image(f, lambda: gen_image(sub_rng(seed, engine, index)))
    if engine == 'sndscript':
        return classify_snd(f, text)
    if engine == 'vmt':
        return classify_vmt(f)
    if engine == 'pcf':
        return classify_pcf(f)
    if engine == 'smd':
        return classify_smd(f)
    return f'{engine}-{f.stage}-failure'


SAMPLE_CLASSIFIERS = {'vcd': 'vcd-text', 'bvcd': 'bvcd', 'pcf': 'pcf', 'vmt': 'vmt', 'smd': 'smd', 'cmdseq': 'cmdseq',
                      'image': 'scenes-image'}



def run_case(run, engine: str, seed: int, index: int) -> None:
    rng = sub_rng(seed, engine, index)
    case: Dict[str, Any] = {'engine': engine, 'seed': seed, 'index': index}  # small: the replay key
    info: Dict[str, Any] = {}  # engines put the generated value's snapshot here
    try:
        key, nontrivial = ENGINES[engine](run, rng, info)
    except Failure as f:
        mech = classify(engine, f, seed, index)
        wit = f.witness if isinstance(f.witness, dict) else {'detail': f.witness}
        wit = dict(wit)
        wit['value'] = _show(json.dumps(info.get('value'), default=repr))
        run.violation(f.msg, witness=wit, key=mech, engine=engine, case=case)
        key, nontrivial = info.get('value', [engine, index]), True
    run.count('cases_' + engine)
    run.case([engine, key], nontrivial, sample=info.get('value') if index < 1 else None, tag=engine)


def run_sample(run, kind: str, path: str) -> None:
    case = {'engine': 'samples', 'kind': kind, 'file': path}
    try:
        eng_sample(run, kind, path)
    except Failure as f:
        eng = SAMPLE_CLASSIFIERS[kind]
        if eng in ('bvcd', 'scenes-image'):
            mech = eng + '-sample-' + f.stage
        else:
            mech = classify(eng, f, 0, 0)
        run.violation(f'{os.path.basename(path)}: {f.msg}', witness=f.witness, key=mech, engine='samples', case=case)
    run.count('sample_documents')
    run.count('sample_' + kind)
    run.case(['samples', path], True, sample={'kind': kind, 'file': os.path.relpath(path, '/')}, tag='samples')


def anchors() -> Dict[str, Any]:
    from srctools import cmdseq, choreo, sndscript, vmt, particles, smd
    return {
        'cmdseq.write': (cmdseq, 'write'), 'cmdseq.parse': (cmdseq, 'parse'),
        'Scene.export_text': (choreo, 'Scene.export_text'), 'Scene.parse_text': (choreo, 'Scene.parse_text'),
        'Scene.export_binary': (choreo, 'Scene.export_binary'), 'Scene.parse_binary': (choreo, 'Scene.parse_binary'),
        'save_scenes_image_sync': (choreo, 'save_scenes_image_sync'), 'parse_scenes_image': (choreo, 'parse_scenes_image'),
        'Sound.export': (sndscript, 'Sound.export'), 'Sound.parse': (sndscript, 'Sound.parse'),
        'Material.export': (vmt, 'Material.export'), 'Material.parse': (vmt, 'Material.parse'),
        'Particle.export': (particles, 'Particle.export'), 'Particle.parse': (particles, 'Particle.parse'),
        'Mesh.export': (smd, 'Mesh.export'), 'Mesh.parse_smd': (smd, 'Mesh.parse_smd'),
    }


def main(run, shard=(0, 1)) -> None:
    thorough = run.tier == 'thorough'
    probe = ReachProbe(anchors())
    probe.start()
    gidx = 0
    for kind, path in sample_docs():
        gidx += 1
        if mine(gidx, shard):
            run_sample(run, kind, path)
    for engine, (nq, nt) in COUNTS.items():
        for i in range(nt if thorough else nq):
            gidx += 1
            if not mine(gidx, shard):
                continue
            run_case(run, engine, run.seed, i)
    probe.report(run)
    probe.check_reached(run)
    run.require(*('cases_' + e for e in ENGINES))
    run.require('sample_documents', 'image_summaries_checked', 'sndscript_ranges', 'smd_multilink_meshes', 'image_entries', 'image_merges', 'values_rewritten_after_edits')
    run.extra['restrictions'] = 'see rule'


def replay(run, data) -> None:
    case = data['case']
    if case.get('engine') == 'samples':
        run_sample(run, case['kind'], case['file'])
    else:
        run_case(run, case['engine'], int(case.get('seed', data.get('seed', 0))), int(case['index']))
    run.case('pad', True)
    run.case('pad2', True)


# (kept at the end of the file so that the text above stays the description the check was first built to)
RULE += ' ' + 'Later additions: Particle.export() given a list / tuple / one-shot iterator / dict view; shader names that need quoting; the value that was read back is edited through its public attributes, written and read again (cmdseq, soundscripts, VMT, SMD). SMD vertex normals are not always unit vectors (components up to 1000 with six decimals).'
