"""C06 VMF export/parse round trip is a fixed point and loses no map content."""
from __future__ import annotations

import glob
import io
import os
import pathlib
import tempfile
import re
import traceback
from typing import Any, Dict, Optional

from rv import bootstrap
from rv.util import mine, sub_rng
from rv.probes import ReachProbe
from rv import gen_vmf

PROP = 'C06'
LEVEL = 'exploration'
RULE = ('maps built through the public API by rv/gen_vmf.py (entity keys/values with every special character, outputs '
        'with comma and ESC separators and instance: forms, fixups incl. colliding indexes, hidden entities/brushes, '
        'brush entities, prisms and arbitrary faces, Strata point data, displacements of power 1-4 with random vertex '
        'data with and without multiblend, nested visgroups, groups, cameras, cordons, Strata 2D/3D viewports) under '
        'export options minimal / disp_multiblend and parse option preserve_ids, plus every .vmf under tests/. Laws: '
        'parse accepts the writer output; every field of the re-parsed graph equals the original (strings exact; '
        'coordinates and texture axes 5e-7+1e-12|x|; rotation/delay/multiblend six significant digits; repr-written '
        'floats exact); export(parse(export(m))) == export(m) textually (modulo a consistent ID bijection). '
        'Generator restrictions are listed at the top of rv/gen_vmf.py. Non-trivial = map with >= 1 brush, output or '
        'fixup; distinct = distinct first export text.')
ASSUMPTIONS = ['PYTHONHASHSEED pinned to VERIF_SEED (set iteration order of visgroup ids influences export text)',
               'inc_version=False for the fixed-point comparison (export documents bumping map_ver)',
               'restrictions at the top of rv/gen_vmf.py (what the VMF grammar cannot carry)']
JOBS = {'quick': 4, 'thorough': 16}


def strip_multiblend(desc: Any) -> None:
    """Expected description when exporting with disp_multiblend=False: multiblend data is documented as stripped."""
    if isinstance(desc, dict):
        if 'multi_blend' in desc:
            desc['multi_blend'] = [('g', 0.0)] * 4
            desc['multi_alpha'] = [('g', 0.0)] * 4
            desc['multi_colors'] = None
        for v in desc.values():
            strip_multiblend(v)
    elif isinstance(desc, list):
        for v in desc:
            strip_multiblend(v)


def has_multiblend(desc: Any) -> bool:
    if isinstance(desc, dict):
        if 'multi_blend' in desc and any(t[1] for t in desc['multi_blend']):
            return True
        return any(has_multiblend(v) for v in desc.values())
    if isinstance(desc, list):
        return any(has_multiblend(v) for v in desc)
    return False


def normalise_multicolors(desc: Any, present: bool) -> None:
    """A displacement exported with multiblend re-reads every vertex with a colour list; a vertex whose colours were
    None is written as the default (1 1 1), so None and the default are the same observable value."""
    if isinstance(desc, dict):
        if 'verts' in desc:
            any_blend = any(any(t[1] for t in v['multi_blend']) for v in desc['verts'])
            for v in desc['verts']:
                if any_blend and v['multi_colors'] is None:
                    v['multi_colors'] = [[('c', 1.0), ('c', 1.0), ('c', 1.0)] for _ in range(4)]
                if not any_blend:
                    v['multi_colors'] = None
                    v['multi_alpha'] = [('g', 0.0)] * 4
        for v in desc.values():
            normalise_multicolors(v, present)
    elif isinstance(desc, list):
        for v in desc:
            normalise_multicolors(v, present)


MINUS_ZERO = re.compile(r'(?<![\d.])-0(?![\d.])')


def classify(err: Optional[str], d: Optional[dict], text1: str = '', text2: str = '') -> str:
    if err:
        if 'triangle_tags' in err or 'triangle tags' in err:
            return 'disp-triangle-tags-shape'
        if 'Multiple axes' in err or 'No axis for 2D' in err:
            return 'strata-2d-viewport-axis'
        if 'multiblend' in err:
            return 'disp-multiblend-color-arity'
        if 'KeyValError' in err or 'TokenSyntaxError' in err:
            return 'unescaped-string-field'
        return 'parse-rejects-own-output'
    if d:
        p = d['path']
        if '/multi_' in p:
            return 'disp-multiblend-outside-dispinfo'
        if p.endswith('/group_id') or '/groups' in p and '/entities/' in p:
            return 'groupid-key-mismatch'
        if p.endswith('/auto_shown'):
            return 'group-autoshown-key-typo'
        if '/entities/len' in p or ('/entities/' in p and p.endswith('/hidden')):
            return 'hidden-entity-order'
        return 'field-mismatch:' + re.sub(r'/\d+', '/*', p)[:60]
    if text1 and text2:
        if MINUS_ZERO.sub('0', text1) == MINUS_ZERO.sub('0', text2):
            return 'minus-zero-text-not-fixed-point'
    return 'text-not-fixed-point'


_FN = [0]


def roundtrip(run, vmf, opts: Dict[str, bool], engine: str, case: Any, features: Dict[str, int]) -> Optional[str]:
    from srctools.vmf import VMF
    from srctools.keyvalues import Keyvalues
    minimal, multiblend, preserve = opts['minimal'], opts['disp_multiblend'], opts['preserve_ids']
    try:
        before = gen_vmf.describe_map(vmf, minimal)
        text1 = vmf.export(inc_version=False, minimal=minimal, disp_multiblend=multiblend)
    except Exception as exc:
        run.violation(f'export raised {exc!r}', witness=traceback.format_exc()[-1500:], case=case, engine=engine, key='export-raises')
        return None
    run.count('exports')
    # the same object exported again, this time into a file object: the identical text (export is not allowed to depend
    # on how its output is collected or on having been run before), and nothing is returned
    try:
        buf = io.StringIO()
        ret = vmf.export(buf, inc_version=False, minimal=minimal, disp_multiblend=multiblend)
        if ret is not None or buf.getvalue() != text1:
            k = next((i for i, (a, b) in enumerate(zip(text1, buf.getvalue())) if a != b), min(len(text1), len(buf.getvalue())))
            run.violation('export into a file object differs from the text export() returned just before'
                          + ('' if ret is None else ' (and returned a value)'),
                          witness={'returned_text': text1[max(0, k - 150):k + 150], 'file_text': buf.getvalue()[max(0, k - 150):k + 150]},
                          case=case, engine=engine, key='export-file-form-differs')
        run.count('file_form_exports')
    except Exception as exc:
        run.violation(f'export(file) raised {exc!r}', witness=traceback.format_exc()[-1500:], case=case, engine=engine, key='export-raises')
    # the default export bumps the map version first; apart from that it is the same text, and the bump is visible on the
    # object (so a following export without the bump prints exactly what the bumping one printed)
    if engine == 'generated' and len(text1) % 3 == 0:
        try:
            v0 = vmf.map_ver
            bumped = vmf.export(minimal=minimal, disp_multiblend=multiblend)
            again = vmf.export(inc_version=False, minimal=minimal, disp_multiblend=multiblend)
            run.count('version_bumping_exports')
            if vmf.map_ver != v0 + 1 or bumped != again:
                run.violation(f'export() with the default inc_version: map_ver went {v0} -> {vmf.map_ver}, and the text '
                              + ('equals' if bumped == again else 'differs from') + ' a following export(inc_version=False)',
                              case=case, engine=engine, key='inc-version-export-differs')
            before = gen_vmf.describe_map(vmf, minimal)
            text1 = again
        except Exception as exc:
            run.violation(f'export() with the default inc_version raised {exc!r}', witness=traceback.format_exc()[-1500:], case=case,
                          engine=engine, key='export-raises')
            return None
    if not multiblend:
        strip_multiblend(before)
    normalise_multicolors(before, True)
    try:
        vmf2 = VMF.parse(Keyvalues.parse(text1), preserve_ids=preserve)
    except Exception as exc:
        err = f'{type(exc).__name__}: {exc}'
        run.violation(f'parse rejected the exported text: {err[:300]}', witness={'trace': traceback.format_exc()[-1200:], 'text_head': text1[:600]},
                      case=case, engine=engine, key=classify(err, None))
        return text1
    run.count('parses')
    after = gen_vmf.describe_map(vmf2, minimal)
    normalise_multicolors(after, True)
    d = gen_vmf.diff(before, after)
    if d is not None:
        run.violation(f're-parsed map differs at {d["path"]}: want {d["want"]!r} got {d["got"]!r}',
                      witness={'diff': d, 'opts': opts}, case=case, engine=engine, key=classify(None, d))
    # the same text handed to VMF.parse as a file name (str and os.PathLike) instead of a parsed tree - the library then
    # reads the file itself, as cp1251; only done for texts that encoding can carry
    try:
        raw = text1.encode('cp1251')
    except UnicodeEncodeError:
        raw = None
    if raw is not None and b'\r' not in raw:
        fd, path = tempfile.mkstemp(prefix='rv-c06-', suffix='.vmf')
        try:
            with os.fdopen(fd, 'wb') as f:
                f.write(raw)
            _FN[0] += 1
            arg: Any = pathlib.Path(path) if _FN[0] % 2 else path
            vmf3 = VMF.parse(arg, preserve_ids=preserve)
            from_file = gen_vmf.describe_map(vmf3, minimal)
            normalise_multicolors(from_file, True)
            run.count('parses_from_file_name')
            d3 = gen_vmf.diff(after, from_file)
            if d3 is not None:
                run.violation(f'VMF.parse(file name) differs from VMF.parse(tree of the same text) at {d3["path"]}: {d3["want"]!r} vs {d3["got"]!r}',
                              witness={'diff': d3, 'opts': opts, 'given_as': type(arg).__name__}, case=case, engine=engine,
                              key='parse-from-filename-differs')
        except Exception as exc:
            run.violation(f'VMF.parse(file name) raised {type(exc).__name__}: {exc}', witness=traceback.format_exc()[-1200:], case=case,
                          engine=engine, key='parse-from-filename-differs')
        finally:
            os.unlink(path)
    try:
        text2 = vmf2.export(inc_version=False, minimal=minimal, disp_multiblend=multiblend)
    except Exception as exc:
        run.violation(f'second export raised {exc!r}', case=case, engine=engine, key='export-raises')
        return text1
    if text2 != text1:
        # Decide which documented/known normalisations are needed to make the two texts equal:
        #  ids      - consistent renumbering, only allowed when IDs are not preserved
        #  minus0   - known finding: a coordinate in (-5e-7, 0) prints as "-0" and re-reads as 0 -> "0"
        #  ang360   - known finding: an angle in (359.9999995, 360) prints as "360" and re-reads as 0 -> "0"
        def blank(t: str) -> str:
            return re.sub(r'"(id|groupid|visgroupid)" "\d+"', r'"\1" "#"', t)

        def ang(t: str) -> str:
            return re.sub(r'^(\s*"angle" "\[)([^\]]*)(\]")$', lambda m: m.group(1) + re.sub(r'(?<![\d.])360(?![\d.])', '0', m.group(2)) + m.group(3), t, flags=re.M)
        steps = []
        t1, t2 = text1, text2
        if not preserve and blank(t1) == blank(t2):
            t1 = t2 = ''
        for name, fn in (('minus-zero-text-not-fixed-point', lambda t: MINUS_ZERO.sub('0', t)), ('angle-360-text-not-fixed-point', ang)):
            if t1 != t2:
                n1, n2 = fn(t1), fn(t2)
                if (n1 != t1 or n2 != t2) and (n1, n2) != (t1, t2):
                    before_bad = sum(1 for x, y in zip(t1.splitlines(), t2.splitlines()) if x != y)
                    after_bad = sum(1 for x, y in zip(n1.splitlines(), n2.splitlines()) if x != y)
                    if after_bad < before_bad:
                        steps.append(name)
                    t1, t2 = n1, n2
            if not preserve and t1 != t2 and blank(t1) == blank(t2):
                t1 = t2 = ''
        if t1 == t2:
            for name in steps:
                run.violation('export(parse(export(m))) differs from export(m) only by ' + name, case=case, engine=engine, key=name)
        else:
            if not preserve:
                t1, t2 = blank(t1), blank(t2)
            l1, l2 = t1.splitlines(), t2.splitlines()
            k = next((i for i, (x, y) in enumerate(zip(l1, l2)) if x != y), min(len(l1), len(l2)))
            run.violation(f'export(parse(export(m))) differs from export(m) at line {k + 1} (after id/known normalisation)',
                          witness={'first': l1[max(0, k - 3):k + 2], 'second': l2[max(0, k - 3):k + 2], 'opts': opts},
                          case=case, engine=engine, key='text-not-fixed-point')
    # history: the map parsed from the text is edited in place (moved brushes, shifted texture axes, renamed entities, ...)
    # and dropped, and the SAME text is parsed again - the second map is what the text says, whatever happened to the first
    if len(text1) % 3 == 0:
        try:
            import random as _random
            scratch = vmf2   # the FIRST map ever parsed from this text; it is not needed any more
            edit_map(scratch, _random.Random(len(text1)))
            for sol in list(scratch.brushes) + [s_ for e_ in scratch.entities for s_ in e_.solids]:
                for f_ in sol.sides:
                    f_.uaxis.offset += 3.5
                    f_.vaxis.scale *= 2.0
                    f_.planes[0].x += 64.0
            again = gen_vmf.describe_map(VMF.parse(Keyvalues.parse(text1), preserve_ids=preserve), minimal)
            normalise_multicolors(again, True)
            run.count('texts_parsed_again_after_the_first_map_was_edited')
            d_again = gen_vmf.diff(after, again)
            if d_again is not None:
                run.violation(f'the same text parsed a second time (after the first map was edited in place) differs at {d_again["path"]}: '
                              f'{d_again["want"]!r} vs {d_again["got"]!r}', witness={'diff': d_again, 'opts': opts}, case=case, engine=engine,
                              key='parse-depends-on-earlier-parse')
        except Exception as exc:
            run.violation(f'parsing the same text a second time raised {type(exc).__name__}: {exc}', witness=traceback.format_exc()[-1200:], case=case,
                          engine=engine, key='parse-depends-on-earlier-parse')
    return text1


def main(run, shard=(0, 1)) -> None:
    import srctools.vmf as vm
    probe = ReachProbe({
        'VMF.export': (vm, 'VMF.export'), 'VMF.parse': (vm, 'VMF.parse'), 'Entity.export': (vm, 'Entity.export'),
        'Entity.parse': (vm, 'Entity.parse'), 'Solid.export': (vm, 'Solid.export'), 'Solid.parse': (vm, 'Solid.parse'),
        'Side.export': (vm, 'Side.export'), 'Side.parse': (vm, 'Side.parse'),
        'Side._export_displacement': (vm, 'Side._export_displacement'),
        'Side._parse_displacement_data': (vm, 'Side._parse_displacement_data'),
        'Output.as_keyvalue': (vm, 'Output.as_keyvalue'), 'Output.parse': (vm, 'Output.parse'),
        'EntityGroup.export': (vm, 'EntityGroup.export'), 'EntityGroup.parse': (vm, 'EntityGroup.parse'),
        'VisGroup.parse': (vm, 'VisGroup.parse'), 'Camera.parse': (vm, 'Camera.parse'), 'Cordon.parse': (vm, 'Cordon.parse'),
    })
    probe.start()
    thorough = run.tier == 'thorough'
    n = 40000 if thorough else 1000
    hist: Dict[str, int] = {}
    for i in range(n):
        if not mine(i, shard):
            continue
        rng = sub_rng(run.seed, 'map', i)
        vmf, features = gen_vmf.gen_map(rng, size=rng.choice(('small', 'normal', 'normal', 'big')))
        opts = {'minimal': rng.random() < 0.25, 'disp_multiblend': rng.random() < 0.8, 'preserve_ids': rng.random() < 0.4}
        for k, v in features.items():
            hist[k] = hist.get(k, 0) + 1
        if features.get('fixup_index_3_digits'):
            run.count('maps_with_three_digit_fixup_indexes')
        case = {'id': i, 'opts': opts}
        text = roundtrip(run, vmf, opts, 'generated', case, features)
        if text is not None and i % 5 == 0:
            dup_ids_case(run, text, i)
        if text is not None and i % 3 == 0 and not opts['minimal']:
            foreign_numbering_case(run, text, i)
        if text is not None and i % 4 == 1:
            # history: the map that has just been exported is edited through the public API and goes through all the laws
            # again (nothing about an object may be remembered from an earlier export)
            try:
                n_edits = edit_map(vmf, rng)
            except Exception as exc:
                run.violation(f'editing an exported map raised {type(exc).__name__}: {exc}', witness=traceback.format_exc()[-1200:],
                              case=dict(case, after_edit=True), engine='after-edit', key='edit-raises')
                n_edits = 0
            if n_edits:
                run.count('maps_re_exported_after_edits')
                roundtrip(run, vmf, opts, 'after-edit', dict(case, after_edit=True), features)
        nontrivial = bool(features.get('brush') or features.get('output') or features.get('fixup'))
        run.case(text if text is not None else ['noexport', i], nontrivial,
                 sample={'id': i, 'opts': opts, 'features': features, 'text_bytes': len(text or '')} if i < 3 else None, tag='generated')
    run.extra['feature_histogram_maps'] = hist
    # seed documents shipped with the repository
    files = sorted(glob.glob(os.path.join(bootstrap.REPO, 'tests', '**', '*.vmf'), recursive=True))
    from srctools.vmf import VMF
    from srctools.keyvalues import Keyvalues
    for j, path in enumerate(files):
        if not mine(j, shard):
            continue
        try:
            with open(path, encoding='cp1251') as f:
                kv = Keyvalues.parse(f)
            for preserve in (True, False):
                vmf = VMF.parse(kv, preserve_ids=preserve)
                roundtrip(run, vmf, {'minimal': False, 'disp_multiblend': True, 'preserve_ids': preserve}, 'tests-vmf',
                          {'file': os.path.relpath(path, bootstrap.REPO), 'preserve_ids': preserve}, {})
            run.count('seed_documents')
            run.case(['file', path], True, sample={'file': os.path.relpath(path, bootstrap.REPO)} if j < 2 else None, tag='tests-vmf')
        except Exception as exc:
            run.note_inconclusive(f'could not load seed document {path}: {exc!r}')
    probe.report(run)
    probe.check_reached(run)
    run.require('exports', 'parses', 'file_form_exports', 'parses_from_file_name', 'colliding_id_documents', 'maps_re_exported_after_edits', 'version_bumping_exports',
                'maps_with_three_digit_fixup_indexes', 'texts_parsed_again_after_the_first_map_was_edited')


def edit_map(vmf, rng) -> int:
    """In-place edits of every kind of object in the map, through the public API."""
    from srctools.vmf import Output
    from srctools.math import Vec
    n = 0
    ents = list(vmf.entities)
    for e in rng.sample(ents, min(len(ents), 3)):
        e['edited_key'] = rng.choice(('v', '', 'with "quote"', '1 2 3'))
        if 'targetname' in e:
            e['targetname'] = e['targetname'] + '_e'
        e.add_out(Output('OnEdited', 'tgt_e', 'Fire', rng.choice(('', 'p')), delay=rng.choice((0.0, 1.5))))
        e.hidden = not e.hidden
        e.comments = e.comments + ' edited'
        if e.fixup:
            for var in list(e.fixup)[:1]:
                e.fixup[var] = 'edited'
        n += 1
    solids = list(vmf.brushes) + [sol for e in ents for sol in e.solids]
    for sol in rng.sample(solids, min(len(solids), 3)):
        sol.translate(Vec(16, -8, 4))
        for f in sol.sides[:2]:
            f.mat = f.mat + '_e'
            f.lightmap = 32
            f.uaxis.offset += 1.25
        n += 1
    vmf.spawn['edited_world_key'] = 'w'
    for cam in list(vmf.cameras)[:1]:
        cam.pos += (1, 2, 3)
        n += 1
    return n + 1


def foreign_numbering_case(run, text: str, i: int) -> None:
    """The same map as another editor numbers it: groups and visgroups both count from 1 (the two kinds of ID are independent
    in the format, so equal numbers are the normal case in Hammer's own files), every reference renumbered along.  Read with
    and without preserve_ids it is the same map: same groups, same visgroups, same membership."""
    from srctools.vmf import VMF
    from srctools.keyvalues import Keyvalues
    tree = Keyvalues.parse(text)
    gmap: Dict[str, str] = {}
    vmap: Dict[str, str] = {}
    for blk in tree.iter_tree(blocks=True):
        if not blk.has_children():
            continue
        if blk.name == 'group':
            for ch in blk:
                if ch.name == 'id' and not ch.has_children():
                    gmap.setdefault(ch.value, str(len(gmap) + 1))
        elif blk.name == 'visgroup':
            for ch in blk:
                if ch.name == 'visgroupid' and not ch.has_children():
                    vmap.setdefault(ch.value, str(len(vmap) + 1))
    if not gmap or not vmap or not all(k.isdecimal() and k.isascii() for k in list(gmap) + list(vmap)):
        return
    # (order-preserving, so that descriptions which list groups by ascending ID keep their order)
    gmap = {k: str(n + 1) for n, k in enumerate(sorted(gmap, key=int))}
    vmap = {k: str(n + 1) for n, k in enumerate(sorted(vmap, key=int))}
    for blk in tree.iter_tree(blocks=True):
        if not blk.has_children():
            continue
        for ch in blk:
            if ch.has_children():
                continue
            if blk.name == 'group' and ch.name == 'id':
                ch.value = gmap[ch.value]
            elif blk.name == 'visgroup' and ch.name == 'visgroupid':
                ch.value = vmap[ch.value]
            elif blk.name == 'editor' and ch.name == 'groupid' and ch.value in gmap:
                ch.value = gmap[ch.value]
            elif blk.name == 'editor' and ch.name == 'visgroupid' and ch.value in vmap:
                ch.value = vmap[ch.value]
    renumbered = tree.serialise()
    try:
        ref = gen_vmf.describe_map(VMF.parse(Keyvalues.parse(text), preserve_ids=True))
    except Exception:
        return  # the unchanged text is judged by the round-trip laws, not here
    for preserve in (False, True):
        case = {'id': i, 'foreign_numbering': True, 'preserve_ids': preserve}
        try:
            got = gen_vmf.describe_map(VMF.parse(Keyvalues.parse(renumbered), preserve_ids=preserve))
        except Exception as exc:
            run.violation(f'a map whose groups and visgroups are both numbered from 1 does not parse (preserve_ids={preserve}): '
                          f'{type(exc).__name__}: {exc}', case=case, engine='foreign-numbering', key='foreign-numbering-raises')
            continue
        run.count('maps_renumbered_like_another_editor')
        d = gen_vmf.diff(ref, got)
        if d is not None:
            run.violation(f'a map whose groups and visgroups are both numbered from 1 ({len(gmap)} groups, {len(vmap)} visgroups) is read '
                          f'as a different map with preserve_ids={preserve}: {d}', witness={'diff': d, 'group_numbers': gmap,
                                                                                          'visgroup_numbers': vmap},
                          case=case, engine='foreign-numbering', key='group-and-visgroup-numbers-interfere')


def dup_ids_case(run, text: str, i: int) -> None:
    """A file whose brush, face and entity IDs collide (as third-party tools write them), opened with preserve_ids=True: "IDs
    preserved when asked" - the text must then be a fixed point with exactly those IDs, however the file reaches the parser."""
    from srctools.vmf import VMF
    from srctools.keyvalues import Keyvalues
    tree = Keyvalues.parse(text)
    n = 0
    for blk in tree.iter_tree(blocks=True):
        if blk.has_children() and blk.name in ('solid', 'side', 'entity'):
            for child in blk:
                if child.name == 'id' and not child.has_children() and child.value.isdecimal() and child.value.isascii():
                    child.value = str(int(child.value) % 3 + 1)
                    n += 1
    if n < 2:
        return
    try:
        vmf = VMF.parse(tree, preserve_ids=True)
    except Exception as exc:
        run.violation(f'VMF.parse(preserve_ids=True) of a file with colliding IDs raised {type(exc).__name__}: {exc}',
                      case={'id': i, 'dup_ids': True}, engine='dup-ids', key='parse-rejects-colliding-ids')
        return
    run.count('colliding_id_documents')
    roundtrip(run, vmf, {'minimal': False, 'disp_multiblend': True, 'preserve_ids': True}, 'dup-ids', {'id': i, 'dup_ids': True}, {})


def replay(run, data) -> None:
    case = data['case']
    if case.get('after_edit'):
        rng = sub_rng(run.seed, 'map', case['id'])
        vmf, features = gen_vmf.gen_map(rng, size=rng.choice(('small', 'normal', 'normal', 'big')))
        _ = (rng.random(), rng.random(), rng.random())
        roundtrip(run, vmf, case['opts'], 'replay', case, features)
        edit_map(vmf, rng)
        roundtrip(run, vmf, case['opts'], 'replay-after-edit', case, features)
    elif case.get('dup_ids'):
        rng = sub_rng(run.seed, 'map', case['id'])
        vmf, features = gen_vmf.gen_map(rng, size=rng.choice(('small', 'normal', 'normal', 'big')))
        opts = {'minimal': rng.random() < 0.25, 'disp_multiblend': rng.random() < 0.8, 'preserve_ids': rng.random() < 0.4}
        text = vmf.export(inc_version=False, minimal=opts['minimal'], disp_multiblend=opts['disp_multiblend'])
        dup_ids_case(run, text, case['id'])
    elif 'file' in case:
        from srctools.vmf import VMF
        from srctools.keyvalues import Keyvalues
        with open(os.path.join(bootstrap.REPO, case['file']), encoding='cp1251') as f:
            vmf = VMF.parse(Keyvalues.parse(f), preserve_ids=case['preserve_ids'])
        roundtrip(run, vmf, {'minimal': False, 'disp_multiblend': True, 'preserve_ids': case['preserve_ids']}, 'replay', case, {})
    else:
        rng = sub_rng(run.seed, 'map', case['id'])
        vmf, features = gen_vmf.gen_map(rng, size=rng.choice(('small', 'normal', 'normal', 'big')))
        _ = (rng.random(), rng.random(), rng.random())
        roundtrip(run, vmf, case['opts'], 'replay', case, features)
    run.case(case, True, sample=case, tag='replay')
    run.case('pad', True)


# (kept at the end of the file so that the text above stays the description the check was first built to)
RULE += ' ' + 'Later additions: entities with 98-112 fixups and explicit three-digit replaceNN indexes; viewport roll; world brushes in several visgroups; all 16 displacement flag values; worldspawn with a targetname and fixups; 0 / 1 / 12 Strata points. A third of the exported texts are renumbered the way another editor numbers them (groups and visgroups both from 1, references along) and must read as the same map with and without preserve_ids.'
