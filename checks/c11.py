"""C11 Every BSP lump writer is the inverse of its reader.

A base file is synthesised from a world W1 (rv/gen_bsp.py), read with the library, then parsed views are REPLACED by
values built from a second generated world W2 (real srctools objects with shared sub-objects, empty lists, every
enum/flag, float32-exact numbers), the file is saved, re-read from disk and compared field by field with what was
assigned.  Engines:
  replace-all  every view replaced; the re-read file must equal expected(W2) (index-canonical content)
  single       1-3 views replaced (their references partly aimed at objects of the base file, so the writers must insert
               into and search the shared tables); compared by deep content with shared-object numbering
  fit          one field of a valid value is made too large for its on-disk field: save must raise
  rle          runlength_encode/decode against an independent codec, zero runs around 255/256/510
"""
from __future__ import annotations

import io
import os
import re
import shutil
import tempfile
import traceback
import weakref
import zipfile
from typing import Any, Callable, Dict, List, Optional, Tuple

from rv import gen_bsp as G
from rv.probes import ReachProbe
from rv.util import mine, quiet_stdout, sub_rng
from checks import c10

PROP = 'C11'
LEVEL = 'exploration'
RULE = ('base file = synthesised world W1 on layouts v19/v20/v21/v21-L4D2/INFRA/Chaos/VitaminSource (with and without LZMA lumps); assigned '
        'values = srctools objects built from a second world W2 (lists of length 0..n, shared planes/texinfo/vertices/edges/'
        'primitives/leafs, all 6 plane types, random 31-bit contents and surface flags, all leaf flags, 3 detail orientations, '
        'model/sprite/both shape detail props, static props in the 13 writer versions V4..V13/lightmap/Mesa with only the '
        'fields the version stores, entity lump with either output separator and values containing quotes, backslashes, '
        'tabs, CR, newlines, high bytes, commas; RLE visibility rows incl. 2100-cluster rows with zero runs around 255/256/'
        '510); a share of the cases assigns values with REPEATED ENTRIES (equal-but-distinct planes, vertexes, equal and '
        'reversed edges, texinfo, texdata on one material, texture names equal / equal up to case, faces, primitives, brushes '
        'with equal or nested side runs, leafs with shared/nested face and brush runs, equal visibility rows, static props '
        'with equal model names and leaf lists, equal detail props and dictionary entries, copied entities, cubemaps, '
        'overlays); save; re-read; compare. Engine fit: out-of-range integers, over-long names (texture, static/detail prop '
        'model), 65 overlay faces must raise. Non-trivial = at least one assigned view is non-empty; distinct = distinct '
        '(W1, W2, view set). Restrictions: as C10, plus hammer ids of one face list are all set or all None (FACEIDS cannot '
        'mix), HDR-face hammer ids compared only when every view is replaced, original-face texinfo/hammer id not compared '
        '(reader documents overwriting them), static-prop fields a version does not store are not compared, node/leaf '
        'bounds integral on integer layouts, material names compared case-insensitively when only some views are replaced '
        '(the texture table is documented as case-insensitive), output delays short decimals (text field), static prop version taken from '
        'the base file (props are read before being replaced); on VitaminSource only the fields that layout stores are '
        'generated (no side/on_node/fog/styles/light offset/area/primitives/smoothing/original face/Hammer id on faces; leaf '
        'bounds non-negative) and fit mutations are limited to fields it writes.')
ASSUMPTIONS = list(c10.ASSUMPTIONS) + ['"does not fit" is asserted for integer range, name length and overlay face count only']
JOBS = {'quick': 4, 'thorough': 16}


# ------------------------------------------------------------------------------------------------ W -> srctools objects
def materialise(W: dict, rng: Any = None, pool: Optional[Dict[str, list]] = None) -> Dict[str, Any]:
    """Build the object graph of every view from a world.  With a pool, some references are redirected to objects that
    already exist in the base file's views (so writers have to find them instead of appending)."""
    import srctools.bsp as bm
    from srctools.math import Vec, Angle
    from srctools.const import SurfFlags
    from srctools.vmf import VMF, Entity, Output
    from srctools.keyvalues import Keyvalues

    def pick(kind: str, own: list, idx: int) -> Any:
        if pool and rng is not None and pool.get(kind) and rng.random() < 0.3:
            return rng.choice(pool[kind])
        return own[idx]

    V: Dict[str, Any] = {}
    vit = G.LAYOUTS[W['layout']]['kind'] == 'vitamin'
    planes = [bm.Plane(Vec(p['normal']), p['dist'], bm.PlaneType(p['type'])) for p in W['planes']]
    verts = [Vec(v) for v in W['vertexes']]
    edges = [bm.Edge(pick('vertexes', verts, a), pick('vertexes', verts, b)) for a, b in W['edges']]
    surf = [edges[s] if s >= 0 else edges[-s].opposite for s in W['surfedges']]
    textures = list(W['texstrings'])
    texdata = [bm.TexData(W['texstrings'][t['name']], Vec(t['refl']), t['w'], t['h']) for t in W['texdata']]
    texinfo = [bm.TexInfo(Vec(t['s'][:3]), t['s'][3], Vec(t['t'][:3]), t['t'][3], Vec(t['ls'][:3]), t['ls'][3],
                          Vec(t['lt'][:3]), t['lt'][3], SurfFlags(t['flags']), texdata[t['texdata']]) for t in W['texinfo']]
    prims = [bm.Primitive(p['type'], list(p['indices']), [Vec(v) for v in p['verts']]) for p in W['primitives']]

    def face(f: dict, kind: str, i: int, origs: list) -> Any:
        split = kind != 'orig'
        hid = None
        if split and i < len(W['faceids']) and not vit:
            hid = W['faceids'][i]
        return bm.Face(
            pick('planes', planes, f['plane']), bool(f['side']), bool(f['on_node']),
            surf[f['first_edge']:f['first_edge'] + f['num_edges']], pick('texinfo', texinfo, f['texinfo']) if split else None,
            f['dispinfo'], f['fog'], f['styles'], f['lightofs'], f['area'], tuple(f['lm_mins']), tuple(f['lm_size']),
            origs[f['orig']] if split and not vit else None, prims[f['first_prim']:f['first_prim'] + f['num_prims']], bool(f['dyn']),
            f['smooth'], hid, f.get('vflags', 0))
    orig_faces = [face(f, 'orig', i, []) for i, f in enumerate(W['orig_faces'])]
    faces = [face(f, 'ldr', i, orig_faces) for i, f in enumerate(W['faces'])]
    hdr_faces = [face(f, 'hdr', i, orig_faces) for i, f in enumerate(W['hdr_faces'])]
    sides = [bm.BrushSide(pick('planes', planes, s['plane']), pick('texinfo', texinfo, s['texinfo']), s['dispinfo'],
                          bool(s['bevel'] & 1), s['extra'] if vit else s['bevel'] & ~1) for s in W['brushsides']]
    brushes = [bm.Brush(bm.BrushContents(b['contents']), sides[b['first_side']:b['first_side'] + b['num_sides']])
               for b in W['brushes']]
    leafs = [bm.VisLeaf(bm.BrushContents(lf['contents']), lf['cluster'], lf['area'], bm.VisLeafFlags(lf['flags']),
                        Vec(lf['mins']), Vec(lf['maxs']),
                        [faces[k] for k in W['leaffaces'][lf['first_face']:lf['first_face'] + lf['num_faces']]],
                        [brushes[k] for k in W['leafbrushes'][lf['first_brush']:lf['first_brush'] + lf['num_brushes']]],
                        lf['water_id'], lf['ambient'], lf['mindist']) for lf in W['leafs']]
    water = [bm.LeafWaterInfo(w['surface_z'], w['min_z'], pick('texinfo', texinfo, w['texinfo'])) for w in W['waterdata']]
    nodes = [bm.VisTree(pick('planes', planes, n['plane']), Vec(n['mins']), Vec(n['maxs']),
                        faces[n['first_face']:n['first_face'] + n['num_faces']], n['area']) for n in W['nodes']]
    for node, n in zip(nodes, W['nodes']):
        kids = [nodes[c] if c >= 0 else leafs[-1 - c] for c in n['children']]
        node.child_neg, node.child_pos = kids
    vis = W['visibility']
    if vis is None:
        visibility = None
    else:
        rows: Dict[bytes, bytearray] = {}
        # identical rows are one shared bytearray object
        visibility = bm.Visibility([rows.setdefault(r, bytearray(r)) for r in vis['pvs']],
                                   [rows.setdefault(r, bytearray(r)) for r in vis['pas']])
    # entities + brush models
    vmf = VMF()
    phys = {ph['model']: ph for ph in W['phys']}
    bmodel_objs: Dict[int, Any] = {}

    def bmodel(ref: int) -> Any:
        if ref not in bmodel_objs:
            m = W['models'][ref]
            ph = phys.get(ref)
            kv = None
            solids: List[bytes] = []
            if ph is not None:
                kv = Keyvalues.root(*[Keyvalues(name, [Keyvalues(k, v) for k, v in kids]) for name, kids in ph['kv_tree']])
                solids = list(ph['solids'])
            bmodel_objs[ref] = bm.BModel(Vec(m['mins']), Vec(m['maxs']), Vec(m['origin']), nodes[m['headnode']],
                                         faces[m['first_face']:m['first_face'] + m['num_faces']], kv, solids)
        return bmodel_objs[ref]
    bmodels: Any = weakref.WeakKeyDictionary()
    for ei, ent in enumerate(W['ents']):
        ref: Optional[int] = 0 if ei == 0 else None
        if ei == 0:
            e = vmf.spawn
        else:
            e = Entity(vmf)
        for k, v in ent['keys']:
            if ei and k.casefold() == 'model' and v.startswith('*'):
                ref = int(v[1:])
                continue
            e[k] = v
        for o in ent['outs']:
            # An Output object carries a separator flag of its own (one parsed from a comma-separated string has it set).  The
            # entity-lump writer imposes the map's separator, so in a 0x1B map the flag of the assigned object must not matter.
            # (only there: a map without any output has no separator of its own and keeps each object's flag)
            own_flag = o['comma'] or (W.get('base_sep') == 'esc' and (len(o['params']) + len(o['target'])) % 2 == 1)
            e.add_out(Output(o['out'], o['target'], o['inp'], o['params'], o['delay'], times=o['times'], inst_out=o['inst_out'],
                             inst_in=o['inst_in'], comma_sep=own_flag))
        if ei:
            vmf.add_ent(e)
        if ref is not None:
            bmodels[e] = bmodel(ref)
    cubemaps = [bm.Cubemap(Vec(c['origin']), c['size']) for c in W['cubemaps']]
    overlays = [bm.Overlay(o['id'], Vec(o['origin']), Vec(o['normal']), pick('texinfo', texinfo, o['texinfo']), len(o['faces']),
                           list(o['faces']), o['render_order'], o['u_min'], o['u_max'], o['v_min'], o['v_max'], Vec(o['uv1']),
                           Vec(o['uv2']), Vec(o['uv3']), Vec(o['uv4']), o['fade_min'], o['fade_max'], o['min_cpu'], o['max_cpu'],
                           o['min_gpu'], o['max_gpu']) for o in W['overlays']]
    props = []
    for p in W['sprp']['props']:
        x = G.exp_prop(W['sprp'], p)
        scaling: Any = Vec(x['scaling'])
        if x['scaling'][0] == x['scaling'][1] == x['scaling'][2] and rng is not None and rng.random() < 0.5:
            scaling = x['scaling'][0]
        props.append(bm.StaticProp(x['model'], Vec(x['origin']), Angle(x['angles']), scaling, {leafs[k] for k in x['leafs']},
                                   x['solidity'], bm.StaticPropFlags(x['flags']), x['skin'], x['min_fade'], x['max_fade'],
                                   Vec(x['lighting']), x['fade_scale'], x['min_dx'], x['max_dx'], x['min_cpu'], x['max_cpu'],
                                   x['min_gpu'], x['max_gpu'], Vec(x['tint']), x['renderfx'], x['xbox'], x['lm_x'], x['lm_y']))
    details = []
    for p in W['dprp']['props']:
        x = G.exp_detail(W['dprp'], p)
        common = (Vec(x['origin']), Angle(x['angles']), bm.DetailPropOrientation(x['orient']), x['leaf'], tuple(x['lighting']),
                  tuple(x['styles']), x['sway'])
        if x['kind'] == 'model':
            details.append(bm.DetailPropModel(*common, x['model']))
        elif x['kind'] == 'sprite':
            details.append(bm.DetailPropSprite(*common, x['scale'], tuple(x['ul']), tuple(x['lr']), tuple(x['tul']), tuple(x['tlr'])))
        else:
            details.append(bm.DetailPropShape(*common, x['scale'], tuple(x['ul']), tuple(x['lr']), tuple(x['tul']), tuple(x['tlr']),
                                              x['cross'], x['shape_angle'], x['shape_size']))
    zf = zipfile.ZipFile(io.BytesIO(), 'a', zipfile.ZIP_STORED)
    for name, data in W['pak']:
        zf.writestr(zipfile.ZipInfo(name, (2004, 11, 16, 12, 0, 0)), data)
    V.update(pakfile=zf, ents=vmf, textures=textures, texinfo=texinfo, cubemaps=cubemaps, overlays=overlays, bmodels=bmodels,
             brushes=brushes, visleafs=leafs, water_leaf_info=water, nodes=nodes, visibility=visibility, vertexes=verts,
             surfedges=surf, planes=planes, faces=faces, orig_faces=orig_faces, hdr_faces=hdr_faces, primitives=prims,
             props=props, detail_props=details)
    return V


# ------------------------------------------------------------------------------------------------ deep content dump
class Deep:
    """Content of a view with references expanded; objects are numbered per kind by first appearance so that sharing
    (two faces on one plane, two edges on one vertex, ...) is part of the compared value but lump indices are not."""

    def __init__(self) -> None:
        self.memo: Dict[int, int] = {}
        self.count: Dict[str, int] = {}
        self.keep: List[Any] = []

    # Runs of these are placed with find_or_extend, which may store a run twice when two runs overlap: their identity
    # is not part of the value, only their content (everything they reference is still tracked).
    NO_SHARE = ('split', 'face', 'edge', 'primitive', 'side')

    def ref(self, kind: str, obj: Any, fn: Callable[[Any], Any]) -> Any:
        if kind in self.NO_SHARE:
            return ['val', kind, fn(obj)]
        key = id(obj)
        if key in self.memo:
            return ['ref', kind, self.memo[key]]
        n = self.count.get(kind, 0)
        self.count[kind] = n + 1
        self.memo[key] = n
        self.keep.append(obj)
        return ['def', kind, n, fn(obj)]

    def vert(self, v: Any) -> Any:
        return self.ref('vertex', v, G._v)

    def plane(self, p: Any) -> Any:
        return self.ref('plane', p, lambda p: [*G._v(p.normal), p.dist, p.type.value])

    def texinfo(self, t: Any) -> Any:
        def body(t: Any) -> Any:
            td = t._info
            return {'s': G._v(t.s_off) + [t.s_shift], 't': G._v(t.t_off) + [t.t_shift], 'ls': G._v(t.lightmap_s_off) + [t.lightmap_s_shift],
                    'lt': G._v(t.lightmap_t_off) + [t.lightmap_t_shift], 'flags': t.flags.value,
                    'texdata': self.ref('texdata', td, lambda d: [d.mat.casefold(), G._v(d.reflectivity), d.width, d.height])}
        return self.ref('texinfo', t, body)

    def edge(self, e: Any) -> Any:
        rev = type(e).__name__ == 'RevEdge'
        base = e.opposite if rev else e
        return [rev, self.ref('edge', base, lambda b: [self.vert(b.a), self.vert(b.b)])]

    def prim(self, p: Any) -> Any:
        return self.ref('primitive', p, lambda p: [int(p.is_tristrip), list(p.indexed_verts), [G._v(v) for v in p.verts]])

    def face(self, f: Any, hammer: bool = True) -> Any:
        def body(f: Any) -> Any:
            d = {'plane': self.plane(f.plane), 'side': bool(f.same_dir_as_plane), 'on_node': bool(f.on_node),
                 'edges': [self.edge(e) for e in f.edges], 'dispinfo': f._dispinfo_ind, 'fog': f.surf_fog_volume_id,
                 'styles': bytes(f.light_styles).hex(), 'lightofs': f._lightmap_off, 'area': float(f.area),
                 'lm_mins': list(f.lightmap_mins), 'lm_size': list(f.lightmap_size), 'prims': [self.prim(p) for p in f.primitives],
                 'dyn': bool(f.dynamic_shadows), 'smooth': f.smoothing_groups}
            return d
        return self.ref('face', f, body)

    def split_face(self, f: Any, hammer: bool) -> Any:
        def body(f: Any) -> Any:
            inner = self.face(f)
            d = {'geom': inner, 'texinfo': None if f.texinfo is None else self.texinfo(f.texinfo),
                 'orig': None if f.orig_face is None else self.face(f.orig_face)}
            if hammer:
                d['hammer_id'] = f.hammer_id or 0  # the writer documents 0 as the dummy for "not set"
            return d
        return self.ref('split', f, body)

    def brush(self, b: Any) -> Any:
        return self.ref('brush', b, lambda b: [b.contents.value, [self.ref('side', s, lambda s: [
            self.plane(s.plane), self.texinfo(s.texinfo), s._dispinfo, bool(s.is_bevel_plane), s._unknown_bevel_bits]) for s in b.sides]])

    def leaf(self, lf: Any) -> Any:
        return self.ref('leaf', lf, lambda lf: {
            'contents': lf.contents.value, 'cluster': lf.cluster_id, 'area': lf.area, 'flags': lf.flags.value, 'mins': G._v(lf.mins),
            'maxes': G._v(lf.maxes), 'faces': [self.split_face(f, False) for f in lf.faces], 'brushes': [self.brush(b) for b in lf.brushes],
            'water_id': lf.water_id, 'ambient': bytes(lf._ambient).hex(), 'mindist': lf.min_water_dist})

    def node(self, n: Any) -> Any:
        def child(c: Any) -> Any:
            return self.leaf(c) if type(c).__name__ == 'VisLeaf' else self.node(c)
        return self.ref('node', n, lambda n: {'plane': self.plane(n.plane), 'mins': G._v(n.mins), 'maxes': G._v(n.maxes),
                                              'faces': [self.split_face(f, False) for f in n.faces], 'area': n.area_ind,
                                              'neg': child(n.child_neg), 'pos': child(n.child_pos)})


def deep_view(view: str, value: Any, ents_for_bmodels: Any = None, ambient: bool = True) -> Any:
    """Deep content of one view value."""
    D = Deep()
    if view == 'textures':
        return list(value)
    if view == 'texinfo':
        return [D.texinfo(t) for t in value]
    if view == 'planes':
        return [D.plane(p) for p in value]
    if view == 'vertexes':
        return [G._v(v) for v in value]
    if view == 'surfedges':
        return [D.edge(e) for e in value]
    if view == 'primitives':
        return [D.prim(p) for p in value]
    if view == 'orig_faces':
        return [D.face(f) for f in value]
    if view == 'faces':
        return [D.split_face(f, True) for f in value]
    if view == 'hdr_faces':
        return [D.split_face(f, False) for f in value]
    if view == 'brushes':
        return [D.brush(b) for b in value]
    if view == 'visleafs':
        return [D.leaf(lf) for lf in value]
    if view == 'water_leaf_info':
        return [[w.surface_z, w.min_z, D.texinfo(w.surface_texinfo)] for w in value]
    if view == 'nodes':
        return [D.node(n) for n in value]
    if view == 'visibility':
        return None if value is None else {'pvs': [bytes(r).hex() for r in value.potentially_visible],
                                           'pas': [bytes(r).hex() for r in value.potentially_audible]}
    if view == 'ents':
        return [G.dump_ent(e) for e in [value.spawn] + list(value.entities)]
    if view == 'bmodels':
        vmf = ents_for_bmodels
        out = []
        for e in [vmf.spawn] + list(vmf.entities):
            m = value.get(e)
            out.append(None if m is None else {
                'mins': G._v(m.mins), 'maxes': G._v(m.maxes), 'origin': G._v(m.origin), 'node': D.node(m.node),
                'faces': [D.split_face(f, False) for f in m.faces], 'kv': G.kv_tree(m.phys_keyvalues),
                'solids': [bytes(s).hex() for s in m._phys_solids]})
        return out
    if view == 'cubemaps':
        return [[G._v(c.origin), c.size] for c in value]
    if view == 'overlays':
        return [{'id': o.id, 'origin': G._v(o.origin), 'normal': G._v(o.normal), 'texinfo': D.texinfo(o.texture), 'faces': list(o.faces),
                 'render_order': o.render_order, 'uv': [o.u_min, o.u_max, o.v_min, o.v_max], 'uv1': G._v(o.uv1), 'uv2': G._v(o.uv2),
                 'uv3': G._v(o.uv3), 'uv4': G._v(o.uv4), 'fade': [o.fade_min_sq, o.fade_max_sq],
                 'levels': [o.min_cpu, o.max_cpu, o.min_gpu, o.max_gpu]} for o in value]
    if view == 'props':
        out = []
        for p in value:
            d = G.dump_prop(p, {})
            d['leafs'] = sorted(repr(Deep().leaf(lf)) for lf in p.visleafs)
            out.append(d)
        return out
    if view == 'detail_props':
        return [G.dump_detail(p) for p in value]
    if view == 'pakfile':
        return [[i.filename, value.read(i).hex()] for i in value.infolist()]
    raise KeyError(view)


# ------------------------------------------------------------------------------------------------ engines
def classify(view: str, d: dict) -> str:
    key = c10.classify('content', dict(d, path='/' + view + d['path']))
    return key


def base_world(seed: int, ci: int, layout: str, sprp: Optional[str] = None, lzma: Optional[bool] = None, dups: bool = False) -> dict:
    rng = sub_rng(seed, 'c11-base', ci)
    opts: Dict[str, Any] = {'sprp_props': rng.choice((0, 1, 2)), 'scale': rng.choice((0, 1, 2)), 'four_commas': False}
    if dups:
        opts.update(dups=True, scale=2)
    if sprp:
        opts['sprp'] = sprp
    if lzma is not None:
        opts['lzma'] = lzma
        opts['lzma_share'] = 0.35
    return G.gen_world(rng, layout, **opts)


def value_world(seed: int, ci: int, W1: dict, **extra: Any) -> dict:
    rng = sub_rng(seed, 'c11-value', ci)
    opts: Dict[str, Any] = {'sprp': W1['sprp']['version'], 'ent_extra': '\r', 'lzma': False, 'lzma_game': False}
    if W1['sep'] != 'none':
        opts['sep'] = W1['sep']
    opts.update(extra)
    W2 = G.gen_world(rng, W1['layout'], **opts)
    return W2


def find_garbage_lumps(base_raw: dict, g: Any) -> List[str]:
    """Lumps that were LZMA-flagged in the base file and now hold a raw LZMA header although not flagged."""
    out = []
    for lump in g.lumps.values():
        was = base_raw['lumps'][lump.type.name][1]
        if was and not lump.is_compressed and bytes(lump.data[:4]) == b'LZMA':
            out.append(lump.type.name)
    return out


def assign_and_reread(run, W1: dict, W2: dict, views: List[str], tmp: str, engine: str, case: dict, rng: Any,
                      mutate: Optional[Callable[[Dict[str, Any]], bool]] = None) -> Optional[Tuple[Any, Dict[str, Any], Any]]:
    """Returns (before-dumps, assigned values, re-read BSP) or None when the case ended early."""
    from srctools.bsp import BSP
    path = os.path.join(tmp, 'base.bsp')
    with open(path, 'wb') as f:
        f.write(G.build_file(W1))
    b = BSP(path)
    base_raw = c10.snapshot(b)
    if 'props' in views:
        b.props  # the static prop version is detected by reading the base lump (restriction, see RULE)
        if not W1['sprp']['props'] and mutate is None:
            run.count('props_assigned_over_an_empty_prop_lump')   # the version then comes from the lump's number alone
    pool = None
    if engine == 'single':
        # Parse every view of the base file first: its cross references are then object references, so replacing one
        # table keeps the rest of the file consistent (the writers re-insert what the other views still point to).
        for name in G.TOUCH_ORDER:
            getattr(b, name)
        pool = {'planes': list(b.planes), 'texinfo': list(b.texinfo), 'vertexes': list(b.vertexes)}
    # which separator the writer will impose is public state of the object (detected when the base entity lump was parsed;
    # None = never parsed or no output seen: each Output object then keeps its own flag)
    W2 = dict(W2, base_sep={False: 'esc', True: 'comma', None: 'none'}[b.out_comma_sep])
    vals = materialise(W2, rng, pool)
    if mutate is not None:
        try:
            if not mutate(vals):
                return None
        except (ValueError, TypeError, OverflowError):
            run.count('fit_rejected_at_assignment')
            return 'rejected', {}, None  # type: ignore[return-value]
    before = {}
    if mutate is None:
        for v in views:
            before[v] = deep_view(v, vals[v], vals['ents'])
        if 'ents' in before and W2['base_sep'] != 'none':
            # what the file can say about an output's separator is the one separator the map uses
            for ent in before['ents']:
                for out in ent.get('outs', []):
                    out[8] = W2['base_sep'] == 'comma'
    for v in views:
        setattr(b, v, vals[v])
    gpath = os.path.join(tmp, 'out.bsp')
    try:
        with quiet_stdout():
            b.save(gpath)
    except Exception as exc:
        if mutate is not None:
            # a refused save is a handled error: the object still holds every value that was assigned (what was parsed is all
            # there is - the raw lumps were emptied when the views were read)
            run.count('objects_inspected_after_a_refused_save')
            for v in views:
                try:
                    now = getattr(b, v)
                    lost = hasattr(vals[v], '__len__') and hasattr(now, '__len__') and not hasattr(now, 'namelist') and len(now) != len(vals[v])
                except Exception as exc2:
                    lost, now = True, f'<{type(exc2).__name__}: {exc2}>'
                if lost:
                    run.violation(f'{engine} {W1["layout"]}: after save() refused a value ({type(exc).__name__}), the view {v} of the object no longer holds what was assigned '
                                  f'({len(vals[v])} items before, now {len(now) if hasattr(now, "__len__") else now})',
                                  key='refused-save-loses-view', engine=engine, case=case)
                    break
            return 'rejected', {}, None  # type: ignore[return-value]
        run.violation(f'{engine} {W1["layout"]} views={views}: save raised {type(exc).__name__}: {str(exc)[:200]}',
                      witness=traceback.format_exc()[-1800:], key=f'save-raises-{type(exc).__name__}', engine=engine, case=case)
        return None
    run.count('saves')
    try:
        g = BSP(gpath)
        garbage = find_garbage_lumps(base_raw, g)
        if garbage:
            run.violation(f'{engine} {W1["layout"]} views={views}: lumps {garbage} became empty, were written "compressed" with '
                          f'size 0 and come back as raw LZMA bytes', witness={'lumps': garbage}, key='empty-compressed-lump',
                          engine=engine, case=case)
            return None
        return before, vals, g
    except Exception as exc:
        run.violation(f'{engine} {W1["layout"]} views={views}: re-reading the saved file raised {type(exc).__name__}: {exc}',
                      witness=traceback.format_exc()[-1800:], key=f'reread-raises-{type(exc).__name__}', engine=engine, case=case)
        return None


def engine_replace_all(run, seed: int, ci: int, layout: str, tmp: str, sprp: str, lzma: bool, wide_vis: bool,
                       dups: bool = False) -> None:
    case = {'engine': 'replace-all', 'ci': ci, 'layout': layout, 'sprp': sprp, 'lzma': lzma, 'wide': wide_vis, 'dups': dups}
    W1 = base_world(seed, ci, layout, sprp, lzma)
    extra: Dict[str, Any] = {}
    if wide_vis:
        extra = {'vis': 'wide', 'scale': 3}
    if dups:
        extra = {'dups': True, 'scale': 2 + ci % 2, 'sprp_props': 3}
    W2 = value_world(seed, ci, W1, **extra)
    rng = sub_rng(seed, 'c11-mat', ci)
    res = assign_and_reread(run, W1, W2, list(G.VIEWS), tmp, 'replace-all', case, rng)
    nontrivial = any(W2[k] for k in ('faces', 'brushes', 'overlays', 'cubemaps', 'primitives')) or len(W2['ents']) > 1
    run.case(['replace-all', ci, layout], nontrivial,
             sample={'layout': layout, 'sprp': sprp, 'base_compressed': len(W1['compressed']),
                     'sizes': {k: len(W2[k]) for k in ('planes', 'faces', 'hdr_faces', 'brushes', 'leafs', 'nodes', 'models', 'ents')}}
             if ci % 23 == 0 else None, tag='replace-all')
    if res is None:
        return
    _before, _vals, g = res
    try:
        got = G.dump_bsp(g)
    except Exception as exc:
        run.violation(f'replace-all {layout}: parsing the saved file raised {type(exc).__name__}: {exc}',
                      witness=traceback.format_exc()[-1800:], key=f'reparse-raises-{type(exc).__name__}', engine='replace-all', case=case)
        return
    want = G.expected(W2)
    want['version'], want['revision'] = W1['version'], W1['revision']
    ids_present = bool(W2['faceids'])
    for d in G.view_diffs(want, got):
        d['faceids_present'] = ids_present
        run.violation(f'replace-all {layout} sprp={sprp}: re-read differs from the assigned value at {d["path"]}: want '
                      f'{G.safe(d["want"])} got {G.safe(d["got"])}', witness=d, key=c10.classify('content', d),
                      engine='replace-all', case=case)
    run.count('replace_all_compared')
    run.count('layout_' + layout)
    if W2.get('dups'):
        run.count('c11_values_with_dups')
        run.count('c11_replace_all_with_dups')
        run.count('dups_' + layout)
    run.count('sprp_' + sprp)
    if W2['sprp']['props']:
        run.count('static_props_roundtripped', len(W2['sprp']['props']))
    if any(p['type'] >= 2 for p in W2['dprp']['props']):
        run.count('detail_shapes_assigned')
    if W2['sep'] == 'comma' and any(e['outs'] for e in W2['ents']):
        run.count('ents_comma_outputs')
    if W2['sep'] == 'esc' and any(e['outs'] for e in W2['ents']):
        run.count('ents_esc_outputs')
    if wide_vis and W2['visibility'] is not None:
        run.count('wide_visibility_rows', W2['visibility']['clusters'])


def engine_single(run, seed: int, ci: int, layout: str, tmp: str, dups: bool = False) -> None:
    rng = sub_rng(seed, 'c11-single', ci)
    W1 = base_world(seed, ci, layout, None, rng.random() < 0.3, dups=dups and ci % 2 == 0)
    vopts: Dict[str, Any] = {'scale': rng.choice((0, 1, 2, 3))}
    if dups:
        vopts.update(dups=True, scale=2 + ci % 2, sprp_props=3)
    W2 = value_world(seed, ci, W1, **vopts)
    k = rng.choice((1, 1, 1, 2, 3))
    views = rng.sample(G.VIEWS, k)
    # brush models are keyed by the entities of the entity lump: the two are only consistent when replaced together
    if 'bmodels' in views and 'ents' not in views:
        views.append('ents')
    if 'ents' in views and 'bmodels' not in views:
        views.append('bmodels')
    case = {'engine': 'single', 'ci': ci, 'layout': layout, 'views': views, 'dups': dups}
    res = assign_and_reread(run, W1, W2, views, tmp, 'single', case, rng)
    if res is None:
        run.case(['single', ci, layout, views], True, tag='single')
        return
    before, vals, g = res
    nontrivial = False
    if 'ents' in views:
        try:
            g.bmodels  # resolves (and removes) the "*N" model keys, as in the assigned entity lump
        except Exception:
            pass  # reported through the bmodels view below
    for v in views:
        try:
            after = deep_view(v, getattr(g, v), g.ents)
        except Exception as exc:
            run.violation(f'single {layout} views={views}: parsing view {v} of the saved file raised {type(exc).__name__}: {exc}',
                          witness=traceback.format_exc()[-1800:], key=f'reparse-raises-{type(exc).__name__}', engine='single', case=case)
            continue
        nontrivial = nontrivial or bool(before[v])
        if v in TABLE_VIEWS and isinstance(after, list) and len(after) > len(before[v]):
            after = after[:len(before[v])]  # other views may have appended what they still reference
            run.count('tables_extended_by_other_writers')
        d = G.first_diff(before[v], after)
        if d is not None:
            run.violation(f'single {layout} views={views}: view {v} re-read differs from the assigned value at {d["path"]}: want '
                          f'{G.safe(d["want"])} got {G.safe(d["got"])}', witness=dict(d, view=v), key=classify_deep(v, d),
                          engine='single', case=case)
        run.count('single_views_compared')
        run.count('layout_' + layout)
        if W2.get('dups'):
            run.count('c11_values_with_dups')
            run.count('c11_single_views_with_dups')
            run.count('dups_' + layout)
        run.count('view_' + v)
    try:
        G.dump_bsp(g)  # the whole file must still be parseable (bystander views consistent)
    except Exception as exc:
        run.violation(f'single {layout} views={views}: the saved file is no longer fully parseable: {type(exc).__name__}: {exc}',
                      witness=traceback.format_exc()[-1800:], key=f'bystander-reparse-raises-{type(exc).__name__}', engine='single', case=case)
    run.case(['single', ci, layout, views], nontrivial, sample={'layout': layout, 'views': views} if ci % 31 == 0 else None, tag='single')


TABLE_VIEWS = ('textures', 'texinfo', 'planes', 'vertexes', 'surfedges', 'primitives', 'orig_faces', 'faces', 'brushes',
               'visleafs', 'nodes')


def classify_deep(view: str, d: dict) -> str:
    path = d['path'].strip('/').split('/')
    last = next((p for p in reversed(path) if not p.isdigit()), '')
    if last == 'hammer_id' and d['want'] is None and d['got'] == 0:
        return 'faceids-zero-filled'
    if last == 'hammer_id':
        return 'faceids-clobbered-by-hdr'
    if view == 'detail_props' and d['want'] == 'shape' and d['got'] == 'sprite':
        return 'detail-shape-written-as-sprite'
    if view == 'water_leaf_info' and d.get('len_got') == 0:
        return 'water-leaf-writer-rereads-view'
    if view == 'vertexes' and d.get('len_got') == (d.get('len_want') or 0) + 1:
        return 'surfedges-appends-zero-vertex'
    if 'edges' in path or 'prims' in path:
        return 'find-or-extend-partial-tail-match'  # a run of edges/primitives was located at a place that does not hold it
    if view == 'props' and 'leafs' in path and isinstance(d['want'], str) and isinstance(d['got'], str):
        num = re.compile(r'-?\d+\.\d+(?:e[-+]?\d+)?')
        wn, gn = num.findall(d['want']), num.findall(d['got'])
        if len(wn) == len(gn) and num.sub('#', d['want']) == num.sub('#', d['got']) \
                and all(float(g) in (float(w), float(int(float(w)))) for w, g in zip(wn, gn)):
            return 'chaos-bounds-truncated'  # the leafs a prop sits in differ only by bounds cut to integers
    if last in ('mins', 'maxes') and isinstance(d['want'], float) and d['want'] != int(d['want']) and d['got'] == float(int(d['want'])):
        return 'chaos-bounds-truncated'
    if view == 'ents' and len(path) > 1:
        last = path[1] if not path[1].isdigit() else (path[2] if len(path) > 2 else '')
    return f'content-{view}-{last or "length"}'


def fit_mutations(layout: str, sprp: str) -> List[Tuple[str, Callable[[Dict[str, Any]], bool]]]:
    """(name, mutation) - each makes exactly one field too large for its on-disk slot; returns False when not applicable."""
    from srctools.math import Vec
    from srctools.const import SurfFlags
    import srctools.bsp as bm
    wide = layout == 'chaos'
    vit = layout == 'vitamin'
    big16 = (1 << 31) if wide else 40000
    ubig16 = (1 << 32) if wide else 70000
    lightmap = sprp.startswith('V_LIGHTMAP')
    num = 7 if lightmap else G.SPRP_VERSIONS[sprp][0]

    def setter(view: str, attr: str, value: Any, pred: Callable[[Any], bool] = lambda o: True) -> Callable[[Dict[str, Any]], bool]:
        def mut(vals: Dict[str, Any]) -> bool:
            for obj in vals[view]:
                if pred(obj):
                    setattr(obj, attr, value)
                    return True
            return False
        return mut

    def texname(vals: Dict[str, Any]) -> bool:
        vals['textures'].append('x' * 128)
        return True

    def texwidth(vals: Dict[str, Any]) -> bool:
        vals['texinfo'][0]._info.width = 1 << 31
        return True

    def primindex(vals: Dict[str, Any]) -> bool:
        for p in vals['primitives']:
            p.indexed_verts.append(ubig16)
            return True
        return False

    def overlay65(vals: Dict[str, Any]) -> bool:
        for o in vals['overlays']:
            o.faces = list(range(65))
            return True
        return False

    muts: List[Tuple[str, Callable[[Dict[str, Any]], bool]]] = [
        ('texture-name-128-chars', texname),
        ('texdata-width', texwidth),
        ('static-prop-model-name', setter('props', 'model', 'models/' + 'm' * 130 + '.mdl')),
        ('detail-prop-model-name', setter('detail_props', 'model', 'models/' + 'd' * 130 + '.mdl', lambda o: hasattr(o, 'model'))),
        ('overlay-65-faces', overlay65),
        ('overlay-id', setter('overlays', 'id', 1 << 31)),
        ('face-smoothing-groups', setter('faces', 'smoothing_groups', 1 << 32)),
        ('face-dispinfo', setter('faces', '_dispinfo_ind', (1 << 31) if vit else big16)),
        ('face-lightmap-mins', setter('faces' if vit else 'orig_faces', 'lightmap_mins', (1 << 31, 0))),
        ('leaf-cluster', setter('visleafs', 'cluster_id', big16)),
        ('leaf-min-water-dist', setter('visleafs', 'min_water_dist', 70000)),
        ('leaf-area', setter('visleafs', 'area', (1 << 16) if wide else 40000 if vit else 600)),
        ('leaf-water-id', setter('visleafs', 'water_id', big16)),
        ('node-area', setter('nodes', 'area_ind', 40000)),
        ('cubemap-size', setter('cubemaps', 'size', 1 << 31)),
        ('cubemap-origin', setter('cubemaps', 'origin', Vec(3e9, 0, 0))),
        ('static-prop-skin', setter('props', 'skin', 1 << 31)),
        ('static-prop-solidity', setter('props', 'solidity', 256)),
        ('detail-prop-leaf', setter('detail_props', 'leaf', 70000)),
        ('detail-prop-sway', setter('detail_props', 'sway_amount', 256)),
        ('primitive-index', primindex),
        ('brush-contents', setter('brushes', 'contents', bm.BrushContents(0xFFFFFFFF))),
        ('texinfo-flags', setter('texinfo', 'flags', SurfFlags(0xFFFFFFFF))),
        ('overlay-render-order', setter('overlays', 'render_order', 4)),
        ('face-light-styles-5-bytes', setter('faces' if vit else 'orig_faces', 'light_styles', b'\x00\x01\x02\x03\x04')),
    ]
    if vit:
        # fields the vitamin layout does not store cannot overflow; its own widths differ
        muts = [m for m in muts if m[0] not in ('face-smoothing-groups', 'primitive-index', 'face-light-styles-5-bytes')]
        muts.append(('node-mins', setter('nodes', 'mins', Vec(float(1 << 31), 0, 0))))
        muts.append(('leaf-maxes', setter('visleafs', 'maxes', Vec(0, float(1 << 32), 0))))
        muts.append(('leaf-mins-negative', setter('visleafs', 'mins', Vec(-1, 0, 0))))
        muts.append(('face-vitamin-flags', setter('faces', 'vitamin_flags', 256)))
        muts.append(('brushside-extra-byte', lambda vals: next((setattr(sd, '_unknown_bevel_bits', 256) or True
                                                                 for b in vals['brushes'] for sd in b.sides), False)))
    elif not wide:
        muts.append(('node-mins', setter('nodes', 'mins', Vec(40000, 0, 0))))
        muts.append(('leaf-maxes', setter('visleafs', 'maxes', Vec(0, -40000, 0))))
    if num >= 7 and sprp not in ('V_LIGHTMAP_v7', 'V_LIGHTMAP_v10'):
        muts.append(('static-prop-renderfx', setter('props', 'renderfx', 256)))
        muts.append(('static-prop-tint', setter('props', 'tint', Vec(256, 0, 0))))
    if lightmap:
        muts.append(('static-prop-lightmap-res', setter('props', 'lightmap_x', 70000)))
    if num >= 8:
        muts.append(('static-prop-cpu-level', setter('props', 'max_cpu_level', 256)))
    if num in (6, 7):
        muts.append(('static-prop-dx-level', setter('props', 'max_dx_level', 70000)))
    return muts


def engine_fit(run, seed: int, ci: int, layout: str, tmp: str, k: int = 0) -> None:
    rng = sub_rng(seed, 'c11-fit', ci)
    sprp = rng.choice(G.sprp_versions_for(layout))
    W1 = base_world(seed, ci, layout, sprp, False)
    W2 = value_world(seed, ci, W1, scale=rng.choice((2, 3)), sprp_props=2)
    muts = fit_mutations(layout, sprp)
    name, mut = muts[(k // 6) % len(muts)]
    case = {'engine': 'fit', 'ci': ci, 'layout': layout, 'sprp': sprp, 'field': name, 'k': k}
    res = assign_and_reread(run, W1, W2, list(G.VIEWS), tmp, 'fit', case, rng, mutate=mut)
    if res is None:
        run.count('fit_not_applicable')
        return
    if res[0] == 'rejected':
        run.count('fit_rejected')
        run.count('fit_' + name)
        run.count('layout_' + layout)
    else:
        run.violation(f'fit {layout} sprp={sprp}: a value too large for the on-disk field "{name}" was saved without an error',
                      witness={'field': name}, key='model-name-truncated' if name.endswith('model-name') else 'silently-truncated-' + name, engine='fit', case=case)
    run.case(['fit', ci, layout, name], True, sample={'layout': layout, 'field': name} if ci % 29 == 0 else None, tag='fit')


def engine_rle(run, seed: int, ci: int) -> None:
    import srctools.bsp as bm
    rng = sub_rng(seed, 'c11-rle', ci)
    n = rng.choice((1, 2, 8, 31, 254, 255, 256, 257, 300, 509, 510, 511, 512, 600, 766, 1030))
    row = bytearray(n)
    style = rng.randrange(4)
    if style == 1:
        for i in range(n):
            row[i] = rng.randrange(256)
    elif style >= 2:
        i = 0
        while i < n:
            i += rng.choice((0, 1, 2, 253, 254, 255, 256, 257, 509, 510, 511, 512, 765))
            for _ in range(rng.randint(1, 2)):
                if i < n:
                    row[i] = rng.randrange(1, 256)
                    i += 1
    row_b = bytes(row)
    case = {'engine': 'rle', 'ci': ci, 'row_hex': row_b.hex() if n <= 64 else None, 'n': n}
    enc = bytes(bm.runlength_encode(row_b if rng.random() < 0.5 else bytearray(row_b)))
    prefix = G.rbytes(rng, rng.randrange(0, 9))
    # what follows a row in a real lump is another row; it never ends in a lone zero byte (a zero is always followed by
    # its repeat count), so the trailing bytes here are non-zero
    suffix = bytes(rng.randrange(1, 256) for _ in range(rng.randrange(0, 9)))
    try:
        checks = [
            ('decode(encode(row))', bytes(bm.runlength_decode(prefix + enc + suffix, len(prefix), n * 8))),
            ('independent_decode(encode(row))', G.rle_decode(enc, 0, n)),
            ('decode(independent_encode(row))', bytes(bm.runlength_decode(prefix + G.rle_encode(row_b, rng) + suffix, len(prefix), n * 8))),
        ]
    except Exception as exc:
        run.violation(f'rle: decoding a row of length {n} raised {type(exc).__name__}: {exc}', witness=traceback.format_exc()[-1200:],
                      key=f'rle-raises-{type(exc).__name__}', engine='rle', case=case)
        checks = []
    for label, got in checks:
        if got != row_b:
            first = next((i for i, (x, y) in enumerate(zip(got, row_b)) if x != y), min(len(got), len(row_b)))
            run.violation(f'rle: {label} differs from the row (length {n}) at byte {first}', witness={'n': n, 'first': first,
                          'got_len': len(got)}, key='rle-' + label.split('(')[0], engine='rle', case=case)
    run.count('rle_rows')
    if n >= 510:
        run.count('rle_rows_510_plus')
    run.case(['rle', row_b.hex()], any(row_b), tag='rle')


def main(run, shard=(0, 1)) -> None:
    import srctools.bsp as bm
    import srctools.binformat as bf
    c10.LUMP_NAME.update({l.value: l.name for l in bm.BSP_LUMPS})
    anchors = {'runlength_encode': (bm, 'runlength_encode'), 'runlength_decode': (bm, 'runlength_decode'),
               'find_or_insert': (bf, 'find_or_insert'), 'find_or_extend': (bf, 'find_or_extend'),
               'BSP.write_ent_data': (bm, 'BSP.write_ent_data'), 'ParsedLump.__set__': (bm, 'ParsedLump.__set__')}
    for name in vars(bm.BSP):
        if name.startswith('_lmp_write_') or name.startswith('_lmp_read_'):
            anchors['BSP.' + name] = (bm, 'BSP.' + name)
    probe = ReachProbe(anchors)
    probe.start()
    thorough = run.tier == 'thorough'
    tmp = tempfile.mkdtemp(prefix='rv-c11-', dir=os.environ.get('VERIF_WORK') or None)
    layouts = [name for name in G.LAYOUTS if name != 'vitamin']
    ci = 0
    try:
        # replace-all: cycle layouts x static prop versions so that every writer version is exercised
        combos = [(lay, ver) for lay in layouts for ver in G.sprp_versions_for(lay)]
        n_all = len(combos) * (30 if thorough else 3)
        for k in range(n_all):
            ci += 1
            if mine(ci, shard):
                lay, ver = combos[k % len(combos)]
                engine_replace_all(run, run.seed, ci, lay, tmp, ver, lzma=(k % 3 == 0), wide_vis=(k % 17 == 5))
        for k in range(14000 if thorough else 500):
            ci += 1
            if mine(ci, shard):
                engine_single(run, run.seed, ci, layouts[k % len(layouts)], tmp)
        for k in range(6000 if thorough else 420):
            ci += 1
            if mine(ci, shard):
                engine_fit(run, run.seed, ci, layouts[k % len(layouts)], tmp, k)
        for k in range(100000 if thorough else 2000):
            ci += 1
            if mine(ci, shard):
                engine_rle(run, run.seed, ci)
        # VitaminSource, appended so that the cases of the other layouts keep their numbers
        vit_vers = G.sprp_versions_for('vitamin')
        for k in range(len(vit_vers) * (10 if thorough else 1)):
            ci += 1
            if mine(ci, shard):
                engine_replace_all(run, run.seed, ci, 'vitamin', tmp, vit_vers[k % len(vit_vers)], lzma=(k % 3 == 0), wide_vis=False)
        for k in range(2400 if thorough else 80):
            ci += 1
            if mine(ci, shard):
                engine_single(run, run.seed, ci, 'vitamin', tmp)
        for k in range(1500 if thorough else 70):
            ci += 1
            if mine(ci, shard):
                engine_fit(run, run.seed, ci, 'vitamin', tmp, k * 6)
        # repeated / identical entries in the assigned values (gen_bsp.apply_dups), again appended
        all_layouts = list(G.LAYOUTS)
        for k in range(len(all_layouts) * (60 if thorough else 6)):
            ci += 1
            if mine(ci, shard):
                lay = all_layouts[k % len(all_layouts)]
                vers = G.sprp_versions_for(lay)
                engine_replace_all(run, run.seed, ci, lay, tmp, vers[(k // len(all_layouts)) % len(vers)], lzma=(k % 5 == 0),
                                   wide_vis=False, dups=True)
        for k in range(len(all_layouts) * (700 if thorough else 40)):
            ci += 1
            if mine(ci, shard):
                engine_single(run, run.seed, ci, all_layouts[k % len(all_layouts)], tmp, dups=True)
    finally:
        shutil.rmtree(tmp, ignore_errors=True)
    probe.report(run)
    if shard[1] == 1:
        probe.check_reached(run)
    run.require('saves', 'props_assigned_over_an_empty_prop_lump', 'objects_inspected_after_a_refused_save', 'replace_all_compared', 'single_views_compared', 'fit_rejected', 'rle_rows', 'rle_rows_510_plus',
                'static_props_roundtripped', 'ents_comma_outputs', 'ents_esc_outputs', 'c11_values_with_dups',
                'c11_replace_all_with_dups', 'c11_single_views_with_dups')


def replay(run, data) -> None:
    import srctools.bsp as bm
    c10.LUMP_NAME.update({l.value: l.name for l in bm.BSP_LUMPS})
    case = data['case']
    tmp = tempfile.mkdtemp(prefix='rv-c11-')
    try:
        eng = case['engine']
        if eng == 'replace-all':
            engine_replace_all(run, run.seed, case['ci'], case['layout'], tmp, case['sprp'], case['lzma'], case['wide'],
                               case.get('dups', False))
        elif eng == 'single':
            engine_single(run, run.seed, case['ci'], case['layout'], tmp, case.get('dups', False))
        elif eng == 'fit':
            engine_fit(run, run.seed, case['ci'], case['layout'], tmp, case.get('k', 0))
        else:
            engine_rle(run, run.seed, case['ci'])
    finally:
        shutil.rmtree(tmp, ignore_errors=True)
    run.case('pad', True)
    run.case('pad2', True)


# (kept at the end of the file so that the text above stays the description the check was first built to)
RULE += ' ' + 'Later additions: props assigned over a base file whose prop lump is empty (standard layouts); entity keys that need escaping; light_styles longer than the 4-byte field in the fit engine.'
