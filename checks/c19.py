"""C19 All filesystem backends resolve names alike; chains honour priority.

Differential + model.  One generated file set is loaded into VirtualFileSystem, ZipFileSystem (zip written by stdlib
zipfile), VPKFileSystem (written by the library's VPK writer, numeric preload limit + numbered archive only - the
placements C13 shows sound) and RawFileSystem (a real temp directory).  A reference model over '/'-normalised,
casefolded names says which names exist, what a folder contains (whole path components) and what a chain must return.

What is demanded (and nothing more):
  * lookup: for every stored name and every spelling that differs only in letter case, slash kind or redundant "./"
    segments: `name in fs`, `fs[name].open_bin().read()`, `fs.open_bin(name)`, `fs.open_str(name)`; for names that are
    not stored (truncated names, folder names, `materials/x` beside `materials/x.vmt`): not found in every backend;
  * walk_folder(p): the listed files are exactly the files inside p ('' = all; `mat` does not contain `mat2/d.txt`;
    a folder that does not exist lists nothing), each once; File.path is NOT compared as text: it only has to be
    look-up-able in the same filesystem and to yield the bytes of the file it stands for; iter(fs) == walk_folder('');
  * chain: lookup = first member that has the name (prefixed members addressed relative to their subfolder),
    walk_folder lists every name once and its File yields the highest-priority content, walk_folder_repeat lists what
    each member lists.
RawFileSystem is driven with exact-case, '/'-separated spellings only when used directly (POSIX: case-sensitive, and a
backslash is an ordinary filename character - same assumption as C18); inside a chain the chain itself converts
backslashes, so there backslash spellings are used too.
"""
from __future__ import annotations

import os
import posixpath
import random
import shutil
import tempfile
import traceback
import zipfile
from typing import Any, Dict, List, Optional, Tuple

from rv.util import mine, sub_rng
from rv.probes import ReachProbe

PROP = 'C19'
LEVEL = 'exploration'
RULE = ('seeded file sets of 3..14 files: folders drawn from a pool built around prefix relations (mat, mat2, materials, '
        'materials/models, mat/sub, mat/sub2, a, a/b, a/bc, ...), base names likewise (x, x.vmt, x.vmt.bak, a.txt, a2.txt, '
        '...), every path component in random letter case (so one folder may be spelled Mat and mat by two files); '
        'casefolded names are unique and no file path is a folder of another (not storable on disk). Loaded into '
        'Virtual (bytes or str values; sometimes keys stored with backslashes), Zip, VPK, Raw. Queries: every stored name '
        'in 6+ spellings (exact, lower, upper, random case, backslashes, mixed slashes, "./" prefix, "/./" infix), '
        'generated misses, every folder prefix incl. "" plus non-folders (ma, mat3, partial components) in spellings '
        '(stored case, lower, upper, trailing "/" or "\\\\", backslash separators, "./" prefix, "."). '
        'Engine casedup: names differing only in case are loaded where the constructors accept them (Virtual mapping, '
        'zip, VPK - all keep one of the twins silently); only per-backend self-consistency is demanded there (one listing '
        'entry per folded name, every spelling resolves to the same bytes as the listed File), no cross-backend winner. '
        'Engine chain: 1..4 members (any backend, own file subsets with member-specific content, optional subfolder '
        'prefix in any case/slash spelling), built by constructor order and add_sys(priority=True). '
        'Non-trivial = the set has a mixed-case name or a name/folder that is a string prefix of another; '
        'distinct = distinct (file set, backend options, chain layout).')
ASSUMPTIONS = ['ASCII names (the VPK format carries nothing else); "letter case" = str.casefold on ASCII',
               'POSIX host: RawFileSystem is case-sensitive and treats a backslash as a filename character, so it is compared '
               'for exact-case "/"-separated spellings only (directly), as the statement allows',
               'VPK backend written with dir_data_limit=1024 / arch_index=0 only (placements C13 shows sound on the unchanged tree)',
               'File.path spelling is free as long as it is look-up-able']
JOBS = {'quick': 4, 'thorough': 16}

FOLDERS = ['', '', 'mat', 'mat', 'mat2', 'materials', 'materials/models', 'mat/sub', 'mat/sub2', 'scripts', 'a', 'a/b',
           'a/bc', 'sound/vo', 'materials/models/props', 'long/' + 'd' * 140, 'a/' + 'q' * 200 + '/z']
BASES = ['x', 'x.vmt', 'x.vmt.bak', 'a.txt', 'a2.txt', 'd.txt', 'readme', 'b.txt', 'bc', 'models.txt', 'sub.txt', 'mat.txt',
         'my file.txt', 'x_y-z.vtf', 'n' * 180 + '.txt', 'e.' + 'x' * 130]
NON_FOLDERS = ['ma', 'mat3', 'materials/mod', 'mat/su', 'nothere', 'a/b/c/d', 'scripts2']


# ------------------------------------------------------------------------------------------------- reference model
def norm(path: str) -> str:
    p = posixpath.normpath(path.replace('\\', '/'))
    return '' if p == '.' else p


def inside(key: str, folder: str) -> bool:
    return folder == '' or key.startswith(folder + '/')


class Ref:
    """Reference model of one backend: normalised key -> (stored name, bytes)."""

    def __init__(self, files: Dict[str, bytes], fold: bool) -> None:
        self.fold = fold
        self.by_key: Dict[str, Tuple[str, bytes]] = {}
        for n, d in files.items():
            self.by_key[self.key(n)] = (n, d)

    def key(self, q: str) -> str:
        k = norm(q)
        return k.casefold() if self.fold else k

    def lookup(self, q: str) -> Optional[bytes]:
        ent = self.by_key.get(self.key(q))
        return ent[1] if ent else None

    def walk(self, p: str) -> List[str]:
        pk = self.key(p)
        return [k for k in self.by_key if inside(k, pk)]


def text_of(data: bytes) -> str:
    return data.decode('utf8').replace('\r\n', '\n').replace('\r', '\n')


# -------------------------------------------------------------------------------------------------------- generator
def rand_case(rng: random.Random, s: str) -> str:
    r = rng.random()
    if r < 0.35:
        return s
    if r < 0.5:
        return s.upper()
    if r < 0.65:
        return s.title()
    return ''.join(c.upper() if rng.random() < 0.5 else c for c in s)


# letters whose lower-case form is not their case-folded form (and 'ß', whose upper-case form is two letters): names the
# zip, virtual and directory back ends can carry (a VPK cannot: ASCII only)
UNI_FOLDERS = ['sound/straße', 'µ', 'mat/ſub']
UNI_BASES = ['straße.txt', 'ς.vmt', 'ſet.txt', 'µ.txt', 'Ωmega.vtf', 'ǅ.txt']


def gen_fileset(rng: random.Random, n_min: int = 3, n_max: int = 14, tag: str = '', unicode_names: bool = False) -> Dict[str, bytes]:
    files: Dict[str, bytes] = {}
    keys: set = set()
    want = rng.randint(n_min, n_max)
    tries = 0
    while len(files) < want and tries < 200:
        tries += 1
        folder = rng.choice(FOLDERS + UNI_FOLDERS) if unicode_names else rng.choice(FOLDERS)
        base = rng.choice(BASES + UNI_BASES * 2) if unicode_names else rng.choice(BASES)
        name = '/'.join(rand_case(rng, c) for c in (folder.split('/') if folder else []) + [base])
        k = name.casefold()
        if k in keys:
            continue
        # a file may not be a folder of another file, nor the other way round
        if any(o.startswith(k + '/') or k.startswith(o + '/') for o in keys):
            continue
        keys.add(k)
        body = f'{tag}|{name}|{rng.randrange(10**6)}'
        r = rng.random()
        if r < 0.25:
            body += '\r\nsecond line\rthird\n'
        elif r < 0.35:
            body = ''
        elif r < 0.45:
            body += 'x' * rng.randint(1000, 3000)   # crosses the VPK preload limit
        files[name] = body.encode('utf8')
    return files


def spellings(rng: random.Random, name: str, backslash: bool = True, case: bool = True, dots: bool = True) -> List[Tuple[str, str]]:
    """(kind, spelling) pairs differing from `name` only in case / slash kind / './' segments."""
    out = [('exact', name)]
    if case:
        out += [('case', name.lower()), ('case', name.upper()), ('case', rand_case(rng, name.lower()))]
    if backslash and '/' in name:
        out.append(('slash', name.replace('/', '\\')))
        out.append(('slash+case' if case else 'slash', ''.join('\\' if c == '/' and rng.random() < 0.5 else c for c in (name.swapcase() if case else name))))
    if dots:
        out.append(('dot', './' + name))
        if '/' in name:
            out.append(('dot', name.replace('/', '/./', 1)))
        if backslash and case:
            out.append(('dot+slash+case', '.\\' + name.upper().replace('/', '\\')))
    return out


def strip_dots_keep(s: str) -> str:
    """Remove '.' segments only; slash kinds and everything else stay as spelled."""
    out = s
    for sep in ('/', '\\'):
        while out.startswith('.' + sep):
            out = out[2:]
        out = out.replace(sep + '.' + sep, sep)
    return '' if out == '.' else out


def collapse_slashes(s: str) -> str:
    """'a\\/b' and 'a//b' -> one separator (what os.path.join leaves behind for a prefix ending in a backslash)."""
    out = s.replace('\\/', '/')
    while '//' in out:
        out = out.replace('//', '/')
    return out


def strip_dots(s: str) -> str:
    parts = [p for p in s.replace('\\', '/').split('/') if p != '.']
    return '/'.join(parts)


def folder_queries(rng: random.Random, files: Dict[str, bytes], exact_only: bool = False) -> List[Tuple[str, str]]:
    stored: List[str] = ['']
    for n in files:
        comps = n.split('/')[:-1]
        for i in range(1, len(comps) + 1):
            p = '/'.join(comps[:i])
            if p not in stored:
                stored.append(p)
    out: List[Tuple[str, str]] = []
    for p in stored:
        out.append(('exact', p))
        if p:
            out.append(('trail', p + '/'))
            out.append(('dot', './' + p))
        else:
            out.append(('dot', '.'))
            out.append(('dot', './'))
        if exact_only:
            continue
        if p:
            out.append(('case', p.lower()))
            out.append(('case', p.upper()))
            out.append(('case+trail', rand_case(rng, p.lower()) + '/'))
            out.append(('slash+trail', p.replace('/', '\\') + '\\'))
            if '/' in p:
                out.append(('slash+case', p.swapcase().replace('/', '\\')))
            out.append(('dot+case', './' + p.swapcase()))
    for p in NON_FOLDERS:
        out.append(('nonfolder', p))
        if not exact_only:
            out.append(('nonfolder', p.upper()))
    return out


def miss_queries(files: Dict[str, bytes]) -> List[str]:
    keys = {n.casefold() for n in files}
    out = ['nothere.txt', 'mat', 'materials/x', 'a/b', 'zzz/a.txt']
    for n in files:
        out += [n[:-1], n + 'x', n.rsplit('.', 1)[0], n.split('/')[0], 'q/' + n]
    seen = set()
    res = []
    for q in out:
        if q and q.casefold() not in keys and q not in seen and norm(q).casefold() not in keys:
            seen.add(q)
            res.append(q)
    return res


# ---------------------------------------------------------------------------------------------------------- builders
_CASE_SENSITIVE: Optional[bool] = None


def fs_case_sensitive(base: str) -> bool:
    global _CASE_SENSITIVE
    if _CASE_SENSITIVE is None:
        p = os.path.join(base, 'CaseProbe')
        open(p, 'w').close()
        _CASE_SENSITIVE = not os.path.exists(os.path.join(base, 'caseprobe'))
        os.remove(p)
    return _CASE_SENSITIVE


class Built:
    def __init__(self, kind: str, fs: Any, ref: Ref, opts: dict) -> None:
        self.kind, self.fs, self.ref, self.opts = kind, fs, ref, opts

    def close(self) -> None:
        z = getattr(self.fs, 'zip', None)
        if z is not None:
            z.close()


def build(kind: str, files: Dict[str, bytes], work: str, tag: str, rng: random.Random) -> Built:
    from srctools.filesys import VirtualFileSystem, ZipFileSystem, VPKFileSystem, RawFileSystem
    from srctools.vpk import VPK
    opts: dict = {}
    if kind == 'virtual':
        mapping: Dict[str, Any] = {}
        bs = rng.random() < 0.25
        as_str = rng.random() < 0.4
        opts = {'backslash_keys': bs, 'str_values': as_str, 'keys': {}}
        for n, d in files.items():
            key = n.replace('/', '\\') if bs and rng.random() < 0.6 else n
            opts['keys'][n] = key
            # a str value is only equivalent to the bytes when it has no CR (open_bin re-encodes the str as is)
            mapping[key] = d.decode('utf8') if as_str and b'\r' not in d else d
        return Built(kind, VirtualFileSystem(mapping), Ref(files, True), opts)
    if kind == 'zip':
        path = os.path.join(work, f'{tag}.zip')
        with zipfile.ZipFile(path, 'w', zipfile.ZIP_DEFLATED if rng.random() < 0.5 else zipfile.ZIP_STORED) as z:
            dirs = rng.random() < 0.3
            made = set()
            for n, d in files.items():
                if dirs and '/' in n and n.rsplit('/', 1)[0] not in made:  # some zips carry directory entries
                    made.add(n.rsplit('/', 1)[0])
                    z.writestr(n.rsplit('/', 1)[0] + '/', b'')
                z.writestr(n, d)
        return Built(kind, ZipFileSystem(path), Ref(files, True), {'dir_entries': dirs})
    if kind == 'vpk':
        path = os.path.join(work, f'{tag}_dir.vpk')
        with VPK(path, mode='w', dir_data_limit=1024) as v:
            for n, d in files.items():
                v.add_file(n, d, arch_index=0)
        return Built(kind, VPKFileSystem(path), Ref(files, True), opts)
    if kind == 'raw':
        root = os.path.join(work, f'{tag}_raw')
        for n, d in files.items():
            full = os.path.join(root, n)
            os.makedirs(os.path.dirname(full), exist_ok=True)
            with open(full, 'wb') as f:
                f.write(d)
        os.makedirs(root, exist_ok=True)
        return Built(kind, RawFileSystem(root), Ref(files, not fs_case_sensitive(work)), opts)
    raise ValueError(kind)


# ----------------------------------------------------------------------------------------------------------- checker
class Checker:
    def __init__(self, run, engine: str, case: dict) -> None:
        self.run, self.engine, self.case = run, engine, case
        self.reported: set = set()

    def fail(self, key: str, what: str, witness: Any = None, scope: str = '') -> None:
        # one report per (mechanism, backend) and case keeps the violation list readable
        if (key, scope) in self.reported:
            self.run.count('suppressed_repeat_observations')
            return
        self.reported.add((key, scope))
        self.run.violation(what, witness=witness, key=key, engine=self.engine, case=self.case)

    # ---- lookups
    def try_lookup(self, fs: Any, q: str) -> Tuple[Optional[bytes], Optional[str]]:
        """(bytes or None when reported missing, error text for anything else)."""
        try:
            present = q in fs
        except Exception as exc:
            return None, f'`in` raised {type(exc).__name__}: {exc}'
        try:
            f = fs[q]
        except FileNotFoundError:
            if present:
                return None, '`in` is True but indexing raises FileNotFoundError'
            return None, None
        except Exception as exc:
            return None, f'indexing raised {type(exc).__name__}: {exc}'
        if not present:
            return None, '`in` is False but indexing finds the file'
        try:
            with f.open_bin() as fh:
                a = fh.read()
            with fs.open_bin(q) as fh:
                b = fh.read()
            with fs.open_str(q) as fh:
                t = fh.read()
            with f.open_str() as fh:
                t2 = fh.read()
        except Exception as exc:
            return None, f'opening a found file raised {type(exc).__name__}: {exc}'
        if a != b:
            return a, 'File.open_bin() and fs.open_bin(name) return different bytes'
        try:
            if t != text_of(a) or t2 != t:
                return a, 'open_str() is not the universal-newline decoding of open_bin()'
        except UnicodeDecodeError:
            pass
        return a, None

    def classify_lookup(self, fs: Any, q: str, want: Optional[bytes], got: Optional[bytes], err: Optional[str]) -> str:
        """A spelling feature (dot segment, doubled slash) is the mechanism exactly when removing it changes the answer."""
        prev, prev_ans = q, (got, err)
        for simplify, key in ((strip_dots_keep, 'dot-segment-not-normalised'), (collapse_slashes, 'doubled-slash-not-normalised')):
            simpler = simplify(prev)
            if simpler != prev:
                ans = self.try_lookup(fs, simpler)
                if ans != prev_ans:
                    return key
                prev = simpler
        if want is None and got is not None:
            return 'lookup-finds-unstored-name'
        return 'lookup-mismatch'

    def check_lookup(self, b: Built, kind: str, q: str, want: Optional[bytes], scope: str) -> bool:
        got, err = self.try_lookup(b.fs, q)
        self.run.count('lookups')
        if err is None and got == want:
            return True
        key = self.classify_lookup(b.fs, q, want, got, err)
        self.fail(key, f'{scope}: lookup of {q!r} ({kind} spelling) ' +
                  (err or (f'is reported missing, the file is stored' if got is None else f'returns {got[:40]!r}, expected {None if want is None else want[:40]!r}')),
                  {'backend': scope, 'options': {k: v for k, v in b.opts.items() if k != 'keys'}, 'stored': sorted(n for n, _ in b.ref.by_key.values())[:20]}, scope=scope)
        return False

    # ---- walks
    def listing(self, b: Built, p: str, scope: str, it: Any = None) -> Optional[List[str]]:
        """Walk, identify every listed File through its path and its bytes; returns normalised keys."""
        try:
            files = list(b.fs.walk_folder(p) if it is None else it)
        except Exception as exc:
            self.fail('walk-raises', f'{scope}: walk_folder({p!r}) raised {type(exc).__name__}: {exc}', traceback.format_exc()[-1200:], scope=scope)
            return None
        keys = []
        for f in files:
            k = b.ref.key(f.path)
            keys.append(k)
            ent = b.ref.by_key.get(k)
            if ent is None:
                continue  # reported by the caller as an extra entry, with the mechanism
            try:
                with f.open_bin() as fh:
                    own = fh.read()
                via, err = self.try_lookup(b.fs, f.path)
            except Exception as exc:
                self.fail('listed-file-unreadable', f'{scope}: File {f.path!r} listed by walk_folder({p!r}) cannot be opened: {exc!r}', scope=scope)
                continue
            self.run.count('listed_names_looked_up')
            if err is not None or via != ent[1] or own != ent[1]:
                self.fail('listed-name-not-lookupable', f'{scope}: walk_folder({p!r}) lists {f.path!r}; looking that name up ' +
                          (err or f'gives {None if via is None else via[:30]!r}') + f', File.open_bin gives {own[:30]!r}, stored {ent[1][:30]!r}', scope=scope)
        return keys

    def classify_walk(self, b: Built, kind: str, p: str, want: List[str], got: List[str]) -> str:
        """Mechanism of a wrong listing.  A spelling feature (dot segment, trailing slash) is the mechanism exactly
        when removing it changes the answer; otherwise the answer is judged as for the plain spelling."""
        if len(got) != len(set(got)):
            return 'walk-lists-twice'
        prev, prev_ans = p, sorted(got)
        for simplify, key in ((strip_dots_keep, 'dot-segment-not-normalised'), (collapse_slashes, 'doubled-slash-not-normalised'),
                              (lambda x: x.rstrip('/\\'), f'{b.kind}-walk-trailing-slash')):
            simpler = simplify(prev)
            if simpler != prev:
                again = self.quiet_walk(b, simpler)
                if again is not None and sorted(again) != prev_ans:
                    return key
                prev = simpler
        extra = [k for k in got if k not in want]
        missing = [k for k in want if k not in got]
        pk = b.ref.key(p)
        if b.kind == 'virtual' and pk == '' and not got and want:
            return 'virtual-walk-root-empty'
        if missing:
            # does the stored spelling of the missing files differ in case (or slash kind) from what is compared?
            stored = [b.ref.by_key[k][0] for k in missing]
            # Virtual: the key as stored in the mapping is not in the cleaned (folded, '/') form the folder is compared in
            if b.kind == 'virtual' and all(b.opts['keys'][s] != norm(b.opts['keys'][s]).casefold() for s in stored):
                return 'virtual-walk-case'
            pn = norm(p)
            if b.kind == 'vpk' and all(not inside(s, pn) and inside(s.casefold(), pn.casefold()) for s in stored):
                return 'vpk-walk-case'
            return 'walk-mismatch'
        if extra and all(k in b.ref.by_key and k.startswith(pk) for k in extra):
            return 'walk-prefix-not-folder'
        return 'walk-mismatch'

    def quiet_walk(self, b: Built, p: str) -> Optional[List[str]]:
        try:
            return [b.ref.key(f.path) for f in b.fs.walk_folder(p)]
        except Exception:
            return None

    def check_walk(self, b: Built, kind: str, p: str, scope: str) -> None:
        want = b.ref.walk(p)
        got = self.listing(b, p, scope)
        self.run.count('walks')
        if got is None or sorted(got) == sorted(want):
            return
        key = self.classify_walk(b, kind, p, want, got)
        self.fail(key, f'{scope}: walk_folder({p!r}) ({kind} spelling) lists {sorted(got)[:8]}, the folder contains {sorted(want)[:8]}',
                  {'extra': sorted(set(got) - set(want))[:8], 'missing': sorted(set(want) - set(got))[:8], 'options': {k: v for k, v in b.opts.items() if k != 'keys'},
                   'stored': sorted(n for n, _ in b.ref.by_key.values())[:20]}, scope=scope)

    def check_iter(self, b: Built, scope: str) -> None:
        try:
            a = sorted(b.ref.key(f.path) for f in b.fs)
            w = sorted(b.ref.key(f.path) for f in b.fs.walk_folder(''))
        except Exception as exc:
            self.fail('walk-raises', f'{scope}: iteration raised {exc!r}', scope=scope)
            return
        if a != w:
            self.fail('iter-differs-from-walk-root', f'{scope}: iter(fs) lists {a[:6]}, walk_folder("") lists {w[:6]}', scope=scope)


# ------------------------------------------------------------------------------------------------- engine: backends
def nontrivial_set(files: Dict[str, bytes]) -> bool:
    names = list(files)
    if any(n != n.casefold() for n in names):
        return True
    return any(a != b and b.startswith(a) for a in names for b in names)


def engine_backends(run, rng: random.Random, base: str, case_id: Any, sample: bool) -> None:
    uni = isinstance(case_id, int) and case_id % 4 == 3
    files = gen_fileset(rng, unicode_names=uni)
    case = {'regen': ['backends', case_id], 'files': sorted(files)}
    ck = Checker(run, 'backends', case)
    work = tempfile.mkdtemp(prefix='b-', dir=base)
    built: List[Built] = []
    try:
        try:
            for kind in ('virtual', 'zip', 'raw') if uni else ('virtual', 'zip', 'vpk', 'raw'):
                built.append(build(kind, files, work, 'set', rng))
            if uni and any(not n.isascii() for n in files):
                run.count('file_sets_with_non_ascii_names')
        except Exception:
            run.violation('building a backend from the file set failed', witness=traceback.format_exc()[-2000:],
                          key='backend-constructor-raises', engine='backends', case=case)
            return
        exact_raw = not built[-1].ref.fold
        fq = folder_queries(rng, files)
        fq_raw = folder_queries(rng, files, exact_only=True) if exact_raw else fq
        misses = miss_queries(files)
        for b in built:
            raw = b.kind == 'raw'
            for n, d in files.items():
                for kind, q in spellings(rng, n, backslash=not (raw and exact_raw), case=not (raw and exact_raw)):
                    ck.check_lookup(b, kind, q, d, b.kind)
            for q in misses:
                ck.check_lookup(b, 'miss', q, None, b.kind)
                if not raw or not exact_raw:
                    ck.check_lookup(b, 'miss', q.upper().replace('/', '\\'), None, b.kind)
            for kind, p in (fq_raw if raw else fq):
                ck.check_walk(b, kind, p, b.kind)
            ck.check_iter(b, b.kind)
            run.count(f'backend_{b.kind}')
    finally:
        for b in built:
            b.close()
        shutil.rmtree(work, ignore_errors=True)
    run.case(case['files'] + [repr(sorted(b.opts.items(), key=str)) for b in built], nontrivial_set(files),
             sample={'files': sorted(files)[:10], 'virtual': {k: v for k, v in built[0].opts.items() if k != 'keys'} if built else None} if sample else None,
             tag='backends')


# -------------------------------------------------------------------------------------------------- engine: casedup
def engine_casedup(run, rng: random.Random, base: str, case_id: Any, sample: bool) -> None:
    files = gen_fileset(rng, 2, 6)
    twins: Dict[str, bytes] = {}
    for n in rng.sample(sorted(files), k=min(len(files), rng.randint(1, 2))):
        t = n.swapcase() if n.swapcase() != n else n.upper()
        if t not in files:
            twins[t] = b'TWIN|' + t.encode()
    ordered = list(files.items()) + list(twins.items())
    rng.shuffle(ordered)
    allfiles = dict(ordered)
    case = {'regen': ['casedup', case_id], 'files': list(allfiles)}
    ck = Checker(run, 'casedup', case)
    work = tempfile.mkdtemp(prefix='d-', dir=base)
    built: List[Built] = []
    try:
        for kind in ('virtual', 'zip', 'vpk'):
            try:
                built.append(build(kind, allfiles, work, 'dup', rng))
            except Exception as exc:
                run.count(f'casedup_constructor_refused_{kind}')  # a refusal is acceptable: nothing to compare then
                continue
        for b in built:
            scope = b.kind
            folded: Dict[str, List[bytes]] = {}
            for n, d in allfiles.items():
                folded.setdefault(norm(n).casefold(), []).append(d)
            try:
                listed = list(b.fs.walk_folder(''))
            except Exception as exc:
                ck.fail('walk-raises', f'{scope}: walk_folder("") raised {exc!r}', scope=scope)
                continue
            keys = [norm(f.path).casefold() for f in listed]
            if b.kind == 'virtual' and not keys:
                ck.fail('virtual-walk-root-empty', f'{scope}: walk_folder("") lists nothing', scope=scope)
            elif sorted(keys) != sorted(folded):
                ck.fail('walk-lists-twice' if len(keys) != len(set(keys)) else 'walk-mismatch',
                        f'{scope}: with case twins walk_folder("") lists {sorted(keys)[:8]}, one entry per folded name {sorted(folded)[:8]} expected', scope=scope)
            by_key = {}
            for f in listed:
                with f.open_bin() as fh:
                    by_key[norm(f.path).casefold()] = fh.read()
            for k, cands in folded.items():
                seen = set()
                for n in [x for x in allfiles if norm(x).casefold() == k]:
                    for kind, q in spellings(rng, n, dots=False):
                        got, err = ck.try_lookup(b.fs, q)
                        run.count('lookups')
                        if err or got not in cands:
                            ck.fail('lookup-mismatch', f'{scope}: {q!r} ' + (err or f'returns {got!r}, not one of the twins'), scope=scope)
                        else:
                            seen.add(got)
                if len(seen) > 1:
                    ck.fail('case-twins-resolve-inconsistently', f'{scope}: spellings of {k!r} resolve to different twins', scope=scope)
                if k in by_key and seen and by_key[k] not in seen:
                    ck.fail('listed-name-not-lookupable', f'{scope}: the File listed for {k!r} holds other bytes than a lookup of the name', scope=scope)
            run.count('casedup_backends_checked')
    finally:
        for b in built:
            b.close()
        shutil.rmtree(work, ignore_errors=True)
    run.case(case['files'], True, sample={'files': list(allfiles)[:8]} if sample else None, tag='casedup')


# ---------------------------------------------------------------------------------------------------- engine: chain
def spell_prefix(rng: random.Random, p: str, exact: bool) -> str:
    if not p:
        return ''
    if not exact:
        p = rand_case(rng, p)
        if rng.random() < 0.3:
            p = p.replace('/', '\\')
    r = rng.random()
    if r < 0.2:
        p += '/'
    elif r < 0.3 and not exact:
        p += '\\'
    return p


def engine_chain(run, rng: random.Random, base: str, case_id: Any, sample: bool) -> None:
    from srctools.filesys import FileSystemChain
    n_members = rng.randint(1, 4)
    work = tempfile.mkdtemp(prefix='c-', dir=base)
    case = {'regen': ['chain', case_id]}
    ck = Checker(run, 'chain', case)
    members: List[Tuple[Built, str, str]] = []  # (built, prefix spelling, stored prefix)
    try:
        shared = gen_fileset(rng, 3, 8, tag='shared')
        for m in range(n_members):
            kind = rng.choice(('virtual', 'zip', 'vpk', 'raw'))
            own = gen_fileset(rng, 1, 5, tag=f'm{m}')
            files: Dict[str, bytes] = {}
            # overlapping names with member-specific content; the folded names stay unique inside one member
            for n, d in list(shared.items()) + list(own.items()):
                if rng.random() < 0.65:
                    nm = n if rng.random() < 0.6 else '/'.join(rand_case(rng, c.lower()) for c in n.split('/'))
                    k = nm.casefold()
                    if any(o.casefold() == k or o.casefold().startswith(k + '/') or k.startswith(o.casefold() + '/') for o in files):
                        continue
                    files[nm] = f'member{m}|'.encode() + d
            if not files:
                files = {'only.txt': f'member{m}|only'.encode()}
            b = build(kind, files, work, f'm{m}', rng)
            stored_prefix = ''
            if rng.random() < 0.5:
                folders = sorted({'/'.join(n.split('/')[:i]) for n in files for i in range(1, len(n.split('/')))})
                if folders:
                    stored_prefix = rng.choice(folders)
                elif rng.random() < 0.3:
                    stored_prefix = 'nothere'
            exact = kind == 'raw' and not b.ref.fold
            members.append((b, spell_prefix(rng, stored_prefix, exact), stored_prefix))
        # the same filesystem object mounted a second time (usually under another subfolder), as one does with a VPK
        if len(members) < 4 and rng.random() < 0.25:
            b0, _, _ = rng.choice(members)
            names0 = [n for n, _ in b0.ref.by_key.values()]
            folders0 = sorted({'/'.join(n.split('/')[:i]) for n in names0 for i in range(1, len(n.split('/')))})
            stored2 = rng.choice(folders0) if folders0 and rng.random() < 0.8 else ''
            exact2 = b0.kind == 'raw' and not b0.ref.fold
            members.append((b0, spell_prefix(rng, stored2, exact2), stored2))
            n_members = len(members)
            run.count('chains_with_member_mounted_twice')
        # assemble: constructor arguments in order, then priority insertions
        order = list(range(n_members))
        n_ctor = rng.randint(0, n_members)
        ctor = order[:n_ctor]
        chain = FileSystemChain(*[(members[i][0].fs, members[i][1]) if members[i][1] or rng.random() < 0.3 else members[i][0].fs for i in ctor])
        final = list(ctor)
        def verify(full: bool) -> None:
            """Compare the chain with the model for the CURRENT member order (called after every operation of the history)."""
            layout = [(members[i][0].kind, members[i][1], sorted(n for n, _ in members[i][0].ref.by_key.values())) for i in final]
            case['layout'] = layout
            got_order = [(id(s), p) for s, p in chain.systems]
            if got_order != [(id(members[i][0].fs), members[i][1]) for i in final]:
                ck.fail('chain-order', 'chain.systems is not in the order given by constructor arguments and priority insertions')

            def chain_arg(prefix: str, name: str) -> str:
                return os.path.join(prefix, name).replace('\\', '/')   # what FileSystemChain hands to a member

            def blame_member_lookup(q: str) -> Optional[str]:
                """First member whose own answer to the name the chain hands it differs from that member's model."""
                for i in final:
                    b, pre, _ = members[i]
                    arg = chain_arg(pre, q)
                    want_i = b.ref.lookup(join(pre, q))
                    got_i, err_i = ck.try_lookup(b.fs, arg)
                    if err_i is not None or got_i != want_i:
                        return ck.classify_lookup(b.fs, arg, want_i, got_i, err_i)
                return None

            def blame_member_walk(p: str) -> Optional[str]:
                for i in final:
                    b, pre, _ = members[i]
                    arg = chain_arg(pre, p)
                    want_i = b.ref.walk(join(pre, p))
                    got_i = ck.quiet_walk(b, arg)
                    if got_i is None:
                        return 'walk-raises'
                    if sorted(got_i) != sorted(want_i):
                        return ck.classify_walk(b, 'exact', arg, want_i, got_i)
                return None

            def join(prefix: str, name: str) -> str:
                return norm(prefix + '/' + name) if prefix else norm(name)

            def model_lookup(q: str) -> Optional[bytes]:
                for i in final:
                    b, pre, _ = members[i]
                    d = b.ref.lookup(join(pre, q))
                    if d is not None:
                        return d
                return None

            def model_walk_repeat(p: str) -> List[Tuple[str, bytes]]:
                out = []
                for i in final:
                    b, pre, _ = members[i]
                    pk = b.ref.key(norm(pre)) if pre else ''
                    for k in b.ref.walk(join(pre, p)):
                        if pre and not inside(k, pk):
                            continue
                        rel = k[len(pk) + 1:] if pk else k
                        out.append((rel.casefold(), b.ref.by_key[k][1]))
                return out

            # names visible through the chain (relative to prefixes), in their stored spelling
            visible: List[str] = []
            for i in final:
                b, pre, _ = members[i]
                pk = b.ref.key(norm(pre)) if pre else ''
                for k, (n, _) in b.ref.by_key.items():
                    if inside(k, pk):
                        rel = '/'.join(norm(n).split('/')[len(pk.split('/')) if pk else 0:])
                        if rel not in visible:
                            visible.append(rel)
            for rel in visible:
                for kind, q in spellings(rng, rel):
                    want = model_lookup(q)
                    run.count('chain_lookups')
                    got, err = ck.try_lookup(chain, q)
                    if err is None and got == want:
                        continue
                    key = blame_member_lookup(q)
                    if key is None:
                        if got is not None and any(got == members[i][0].ref.lookup(join(members[i][1], q)) for i in final):
                            key = 'chain-priority-violated'
                        else:
                            key = 'chain-lookup-mismatch'
                    ck.fail(key, f'chain lookup of {q!r} ({kind}) ' + (err or f'returns {None if got is None else got[:40]!r}, the first member that has it holds {None if want is None else want[:40]!r}'),
                            {'layout': layout})
            for q in ['nothere.txt', 'zz/' + (visible[0] if visible else 'a'), (visible[0] if visible else 'a') + 'x']:
                if model_lookup(q) is None:
                    got, err = ck.try_lookup(chain, q)
                    if err or got is not None:
                        ck.fail('lookup-finds-unstored-name', f'chain lookup of unstored {q!r}: ' + (err or f'returns {got[:40]!r}'))
            if not full:
                return
            # walks
            folders = ['']
            for rel in visible:
                comps = rel.split('/')[:-1]
                for j in range(1, len(comps) + 1):
                    if '/'.join(comps[:j]) not in folders:
                        folders.append('/'.join(comps[:j]))
            queries: List[Tuple[str, str]] = []
            for p in folders:
                queries.append(('exact', p))
                if p:
                    queries.append(('trail', p + '/'))
                    queries.append(('case', p.swapcase()))
                    queries.append(('slash+case', p.upper().replace('/', '\\') + '\\'))
            queries.append(('nonfolder', 'ma'))
            queries.append(('nonfolder', 'nothere'))
            for kind, p in queries:
                want_rep = model_walk_repeat(p)
                want_once: Dict[str, bytes] = {}
                for k, d in want_rep:
                    want_once.setdefault(k, d)
                run.count('chain_walks')
                for which, fn in (('walk_folder', chain.walk_folder), ('walk_folder_repeat', chain.walk_folder_repeat)):
                    try:
                        listed = list(fn(p))
                    except Exception as exc:
                        ck.fail('walk-raises', f'chain.{which}({p!r}) raised {type(exc).__name__}: {exc}', {'layout': layout, 'tb': traceback.format_exc()[-800:]}, scope=which)
                        continue
                    got_keys = [norm(f.path).casefold() for f in listed]
                    want_keys = sorted(want_once) if which == 'walk_folder' else sorted(k for k, _ in want_rep)
                    if sorted(got_keys) != want_keys:
                        extra = sorted(set(got_keys) - set(want_keys))
                        if which == 'walk_folder' and len(got_keys) != len(set(got_keys)):
                            key = 'chain-walk-lists-twice'
                        else:
                            key = blame_member_walk(p)
                            if key is None:
                                # every member lists its folder correctly: the chain's own relativisation is at fault.
                                # os.path.relpath() compares text, so a prefix spelled in another case (or with a backslash)
                                # than the member's paths is "left" through '../'.
                                key = 'chain-walk-relpath-case' if extra and all(k.startswith('../') for k in extra) else 'chain-walk-mismatch'
                        ck.fail(key, f'chain.{which}({p!r}) ({kind}) lists {sorted(got_keys)[:8]}, expected {want_keys[:8]}',
                                {'layout': layout, 'extra': extra[:6], 'missing': sorted(set(want_keys) - set(got_keys))[:6]}, scope=which)
                        continue
                    if which == 'walk_folder':
                        for f in listed:
                            k = norm(f.path).casefold()
                            try:
                                with f.open_bin() as fh:
                                    own = fh.read()
                            except Exception as exc:
                                ck.fail('listed-file-unreadable', f'chain: File {f.path!r} cannot be opened: {exc!r}')
                                continue
                            run.count('listed_names_looked_up')
                            # which member a listed file comes from: the first one (in priority order) that holds the name
                            try:
                                owner = chain.get_system(f)
                                first = next((members[i][0].fs for i in final if members[i][0].ref.lookup(join(members[i][1], f.path)) is not None), None)
                                run.count('get_system_calls')
                                if first is not None and owner is not first and not any(members[i][0].kind == 'raw' and not members[i][0].ref.fold for i in final):
                                    ck.fail('chain-get-system-wrong', f'chain.get_system() of the listed file {f.path!r} is not the first member that holds it', {'layout': layout})
                            except Exception as exc:
                                ck.fail('chain-get-system-wrong', f'chain.get_system({f.path!r}) raised {type(exc).__name__}: {exc}', {'layout': layout})
                            if own != want_once[k]:
                                ck.fail(blame_member_walk(p) or 'chain-priority-violated', f'chain.walk_folder({p!r}) lists {f.path!r} with bytes {own[:40]!r}; the first member holding it has {want_once[k][:40]!r}', {'layout': layout})
                            # a listed name can be looked up - with exact-case Raw members a folded duplicate may legitimately
                            # resolve to another member, so the bytes are compared with the model's answer for that spelling
                            via, err = ck.try_lookup(chain, f.path)
                            if err or via != model_lookup(f.path) or via is None:
                                ck.fail('listed-name-not-lookupable', f'chain.walk_folder({p!r}) lists {f.path!r}; looking it up ' + (err or f'gives {None if via is None else via[:40]!r}'), {'layout': layout})
            try:
                if sorted(norm(f.path).casefold() for f in chain) != sorted(norm(f.path).casefold() for f in chain.walk_folder('')):
                    ck.fail('iter-differs-from-walk-root', 'iter(chain) differs from chain.walk_folder("")')
            except Exception as exc:
                ck.fail('walk-raises', f'iter(chain) raised {exc!r}')

        verify(full=(n_ctor == n_members))
        run.count('chain_verifications')
        for i in order[n_ctor:]:
            pri = rng.random() < 0.5
            chain.add_sys(members[i][0].fs, members[i][1], priority=pri)
            run.count('add_sys_priority' if pri else 'add_sys_append')
            if pri:
                final.insert(0, i)
            else:
                final.append(i)
            # history: the lookups above may have warmed any cache inside the chain; re-check after every insertion
            verify(full=(i == order[-1]))
            run.count('chain_verifications')
        run.count(f'chain_members_{n_members}')
        if any(members[i][1] for i in final):
            run.count('chains_with_prefixed_member')
        # a chain is itself a filesystem: wrapped in another chain (alone, and behind an empty member) it answers like itself
        if True:
            from srctools.filesys import VirtualFileSystem as _VFS
            empty_member = _VFS({})
            outer = FileSystemChain(chain) if rng.random() < 0.5 else FileSystemChain(empty_member, chain)
            try:
                inner_list = sorted(norm(f.path).casefold() for f in chain.walk_folder(''))
                outer_list = sorted(norm(f.path).casefold() for f in outer.walk_folder(''))
                if inner_list != outer_list:
                    ck.fail('nested-chain-differs', f'a chain wrapped in another chain lists {outer_list[:6]}, on its own {inner_list[:6]}')
                for f in list(chain.walk_folder(''))[:12]:
                    for q in (f.path, f.path.upper() if all(m[0].ref.fold for m in members) else f.path):
                        a, ea = ck.try_lookup(chain, q)
                        b2, eb = ck.try_lookup(outer, q)
                        if (a, ea) != (b2, eb):
                            ck.fail('nested-chain-differs', f'lookup of {q!r}: the chain answers {None if a is None else a[:30]!r} {ea}, wrapped in another chain {None if b2 is None else b2[:30]!r} {eb}')
                            break
                run.count('nested_chains_compared')
            except Exception as exc:
                ck.fail('nested-chain-differs', f'a chain wrapped in another chain raised {type(exc).__name__}: {exc}', {'tb': traceback.format_exc()[-800:]})
    finally:
        for b, _, _ in members:
            b.close()
        shutil.rmtree(work, ignore_errors=True)
    run.case(case.get('layout', case_id), True, sample={'layout': [(k, p, n[:4]) for k, p, n in case.get('layout', [])]} if sample else None, tag='chain')


ENGINES = {'backends': engine_backends, 'casedup': engine_casedup, 'chain': engine_chain}


def main(run, shard=(0, 1)) -> None:
    import srctools.filesys as fsm
    probe = ReachProbe({
        'VirtualFileSystem._clean_path': (fsm, 'VirtualFileSystem._clean_path'),
        'VirtualFileSystem.walk_folder': (fsm, 'VirtualFileSystem.walk_folder'),
        'ZipFileSystem._get_file': (fsm, 'ZipFileSystem._get_file'), 'ZipFileSystem.walk_folder': (fsm, 'ZipFileSystem.walk_folder'),
        'VPKFileSystem._get_file': (fsm, 'VPKFileSystem._get_file'), 'VPKFileSystem.walk_folder': (fsm, 'VPKFileSystem.walk_folder'),
        'RawFileSystem.walk_folder': (fsm, 'RawFileSystem.walk_folder'), 'RawFileSystem._get_file': (fsm, 'RawFileSystem._get_file'),
        'FileSystemChain._get_file': (fsm, 'FileSystemChain._get_file'), 'FileSystemChain.walk_folder': (fsm, 'FileSystemChain.walk_folder'),
        'FileSystemChain.walk_folder_repeat': (fsm, 'FileSystemChain.walk_folder_repeat'), 'FileSystem.__iter__': (fsm, 'FileSystem.__iter__'),
    })
    probe.start()
    thorough = run.tier == 'thorough'
    counts = {'backends': 12000 if thorough else 600, 'casedup': 3000 if thorough else 150, 'chain': 30000 if thorough else 1200}
    base = tempfile.mkdtemp(prefix='rv-c19-')
    try:
        for engine, n in counts.items():
            for i in range(n):
                if mine(i, shard):
                    ENGINES[engine](run, sub_rng(run.seed, engine, i), base, i, i < 2)
    finally:
        shutil.rmtree(base, ignore_errors=True)
    run.extra['raw_backend_case_sensitive'] = bool(_CASE_SENSITIVE)
    probe.report(run)
    probe.check_reached(run)
    run.require('lookups', 'file_sets_with_non_ascii_names', 'nested_chains_compared', 'get_system_calls', 'walks', 'listed_names_looked_up', 'chain_lookups', 'chain_walks', 'add_sys_priority',
                'chains_with_prefixed_member', 'backend_virtual', 'backend_zip', 'backend_vpk', 'backend_raw',
                'casedup_backends_checked', 'chain_members_4', 'chains_with_member_mounted_twice')


def replay(run, data) -> None:
    import re
    case = data['case']
    regen = case.get('regen')
    if regen is None:
        m = re.search(r'"regen": \["(\w+)", (\d+)\]', case.get('truncated_repr', ''))
        if not m:
            raise RuntimeError('replay file carries no generator coordinates')
        regen = [m.group(1), int(m.group(2))]
    engine, idx = regen[0], int(regen[1])
    base = tempfile.mkdtemp(prefix='rv-c19-')
    try:
        ENGINES[engine](run, sub_rng(run.seed, engine, idx), base, idx, True)
    finally:
        shutil.rmtree(base, ignore_errors=True)
    run.case('pad', True)
    run.case('pad2', True)


# (kept at the end of the file so that the text above stays the description the check was first built to)
RULE += ' ' + 'Later additions: file sets with non-ASCII names whose lower() differs from casefold() (zip / virtual / directory back ends); the chain wrapped in another chain (alone and behind an empty member) must answer like itself.'
