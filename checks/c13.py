"""C13 VPK archives return exactly what was last written, across reopen.

History + model: a random operation history drives one real srctools.vpk.VPK in a private temp directory while a dict
model (canonical name -> bytes) is stepped alongside.  After every write_dirfile() three observers look at the result:
  (1) a FRESH VPK(path) opened read-only: listing, read(), size, verify(), verify_all(), the three name forms,
      rejection of every mutation (with the bytes on disk unchanged afterwards);
  (2) the live writable object itself (a caller that keeps using it after saving);
  (3) an INDEPENDENT decoder of the VPK v1 directory format written from the format description, which never calls
      srctools: it parses the tree from the bytes on disk, fetches the data (preload + directory tail / numbered
      archive) and recomputes zlib.crc32.  It catches symmetric reader/writer errors the library round trip hides.
"""
from __future__ import annotations

import os
import pathlib
import random
import shutil
import struct
import tempfile
import traceback
import zlib
from typing import Any, Dict, List, Optional, Tuple

from rv.util import mine, sub_rng
from rv.probes import ReachProbe

PROP = 'C13'
LEVEL = 'exploration'
RULE = ('seeded operation histories (3..30 ops) over one writable VPK in a private temp directory: add_file, '
        'new_file+write, overwrite (FileInfo.write), delete, delete of a missing name, add of an existing name, '
        'write_dirfile (also through the context manager), abandon-and-reopen, reopen in modes r/w/a (the preload limit '
        'may change at a reopen); archive kinds {<prefix>_dir.vpk, single file}; dir_data_limit in {None,0,7,1024,65535,65536,100000} (constructor argument or attribute); '
        'arch_index in {None,0,1,2} per write; sizes drawn from {0,1,limit-1,limit,limit+1,65535,65536,65537, small, '
        '<=70000, <=300 KiB}; names are (folder,name,ext) triples over an ASCII alphabet incl. mixed case, space, '
        'punctuation and control characters with empty folder / name / ext parts, addressed in string, 2-tuple and '
        '3-tuple form; plus a fixed placement matrix (kind x limit x arch_index x every boundary size, then append-mode '
        'overwrite and delete) and a CRC-forging engine (new content with the same CRC32 as the stored content). '
        'Restrictions (format cannot carry them / outside the statement): no part contains ".", "/", "\\\\" or NUL; '
        'no part is exactly one space (the format encodes the empty string as " "); at least one part is non-empty; '
        'an archive is reopened in r/a mode only when its directory has been written since it was created or truncated. '
        'Non-trivial = the history has an overwrite or a delete or a file larger than the preload limit; '
        'distinct = distinct (configuration, operation list).')
ASSUMPTIONS = ['VPK version 1 only (the library cannot write version 2)',
               'one writer at a time; the temp directory is private to the case',
               'the canonical name of a file is what the library reported when it was created (FileInfo.filename)',
               'POSIX path semantics for os.path.split/normpath inside _get_file_parts']
JOBS = {'quick': 4, 'thorough': 16}

LIMITS = [None, 0, 7, 1024, 1024, 65535, 65536, 100000]   # the preload length field is 16 bits wide
ARCH = [None, 0, 1, 2]
NAME_CHARS = 'abcxyzABCXYZ019_- !#$%&()+,;=@[]^`{}~\'\x01\t\x7f'
MAX_PRELOAD = 0xFFFF
DIR_INDEX = 0x7FFF


# ----------------------------------------------------------------------------------------------- independent decoder
class DecodeError(Exception):
    pass


def decode_vpk(path: str) -> Dict[str, dict]:
    """VPK v1 directory decoder written from the format description; never calls srctools.

    header: u32 0x55aa1234, u32 version, u32 tree size; tree: ext NUL { dir NUL { file NUL entry preload }* NUL }* NUL }* NUL
    entry: u32 crc32, u16 preload length, u16 archive index (0x7fff = this file, after the tree), u32 offset,
    u32 length, u16 0xffff.  A name part stored as a single space means the empty string.
    """
    with open(path, 'rb') as f:
        raw = f.read()
    if len(raw) < 12:
        raise DecodeError(f'directory file has {len(raw)} bytes, shorter than the 12-byte header')
    sig, version, tree = struct.unpack_from('<III', raw, 0)
    if sig != 0x55AA1234:
        raise DecodeError(f'bad signature {sig:#x}')
    if version != 1:
        raise DecodeError(f'version {version}, expected 1')
    pos = 12
    tree_end = 12 + tree
    if tree_end > len(raw):
        raise DecodeError(f'tree size {tree} runs past the end of the file ({len(raw)} bytes)')

    def cstr() -> str:
        nonlocal pos
        j = raw.find(b'\x00', pos)
        if j < 0 or j >= tree_end:
            raise DecodeError(f'unterminated string at {pos}')
        s = raw[pos:j]
        pos = j + 1
        return s.decode('latin1')

    def part(s: str) -> str:
        return '' if s == ' ' else s

    folder_dir, base = os.path.split(path)
    single = not base.endswith('_dir.vpk')
    prefix = base[:-len('_dir.vpk')] if not single else None
    files: Dict[str, dict] = {}
    while True:
        ext = cstr()
        if ext == '':
            break
        while True:
            d = cstr()
            if d == '':
                break
            while True:
                fn = cstr()
                if fn == '':
                    break
                if pos + 18 > tree_end:
                    raise DecodeError('entry runs past the tree')
                crc, pre, idx, off, ln, term = struct.unpack_from('<IHHIIH', raw, pos)
                pos += 18
                if term != 0xFFFF:
                    raise DecodeError(f'entry terminator {term:#x}')
                if pos + pre > tree_end:
                    raise DecodeError('preload runs past the tree')
                preload = raw[pos:pos + pre]
                pos += pre
                name = (part(d) + '/' if part(d) else '') + part(fn) + ('.' + part(ext) if part(ext) else '')
                if name in files:
                    raise DecodeError(f'name {name!r} stored twice')
                files[name] = {'crc': crc, 'preload': preload, 'idx': idx, 'off': off, 'len': ln,
                               'parts': (part(d), part(fn), part(ext))}
    if pos != tree_end:
        raise DecodeError(f'tree-size field says the tree ends at {tree_end}, the tree actually ends at {pos}')
    for name, ent in files.items():
        data = ent['preload']
        if ent['len']:
            if ent['idx'] == DIR_INDEX:
                tail = raw[tree_end + ent['off']: tree_end + ent['off'] + ent['len']]
                where = 'dir-tail'
            else:
                if single:
                    raise DecodeError(f'{name!r}: single-file archive refers to numbered archive {ent["idx"]}')
                apath = os.path.join(folder_dir, f'{prefix}_{ent["idx"]:03d}.vpk')
                try:
                    with open(apath, 'rb') as af:
                        af.seek(ent['off'])
                        tail = af.read(ent['len'])
                except FileNotFoundError:
                    raise DecodeError(f'{name!r}: numbered archive {os.path.basename(apath)} does not exist') from None
                where = f'archive{ent["idx"]}'
            if len(tail) != ent['len']:
                raise DecodeError(f'{name!r}: {where} holds {len(tail)} of the {ent["len"]} bytes the entry claims')
            data = data + tail
        else:
            where = 'preload'
        ent['data'] = data
        ent['where'] = where if not (ent['len'] and ent['preload']) else 'preload+' + where
        ent['crc_ok'] = (zlib.crc32(data) & 0xFFFFFFFF) == ent['crc']
    return files


# ----------------------------------------------------------------------------------------------------- CRC forging
def forge_same_crc(prefix: bytes, target: int) -> bytes:
    """Return prefix + 4 bytes whose zlib.crc32 equals target (CRC32 is affine over GF(2): solve a 32x32 system)."""
    base = zlib.crc32(prefix)
    c0 = zlib.crc32(b'\x00\x00\x00\x00', base)
    rows = []  # (image, unit vector)
    for bit in range(32):
        vec = 1 << bit
        rows.append((zlib.crc32(vec.to_bytes(4, 'little'), base) ^ c0, vec))
    want = target ^ c0
    # Gaussian elimination: express `want` as XOR of images
    basis: Dict[int, Tuple[int, int]] = {}
    for img, vec in rows:
        for hb in sorted(basis, reverse=True):
            if img >> hb & 1:
                img ^= basis[hb][0]
                vec ^= basis[hb][1]
        if img:
            basis[img.bit_length() - 1] = (img, vec)
    sol = 0
    for hb in sorted(basis, reverse=True):
        if want >> hb & 1:
            want ^= basis[hb][0]
            sol ^= basis[hb][1]
    if want:
        raise RuntimeError('CRC system not solvable')
    out = prefix + sol.to_bytes(4, 'little')
    assert zlib.crc32(out) == target
    return out


# --------------------------------------------------------------------------------------------------------- generator
def gen_part(rng: random.Random) -> str:
    n = rng.choice((1, 1, 2, 3, 5, 9))
    if rng.random() < 0.06:
        n = rng.choice((127, 128, 129, 255, 256, 300, 1000))  # unusual sizes: long name components (no limit in the format)
    while True:
        s = ''.join(rng.choice(NAME_CHARS) for _ in range(n))
        if s != ' ':
            return s


def gen_ident(rng: random.Random) -> List[str]:
    """(folder, name, ext); empty parts allowed, at least one part non-empty."""
    while True:
        depth = rng.choice((0, 0, 1, 1, 2, 3))
        folder = '/'.join(gen_part(rng) for _ in range(depth))
        name = '' if rng.random() < 0.12 else gen_part(rng)
        ext = '' if rng.random() < 0.3 else gen_part(rng)
        # dots: inside folder names ('models/v1.2'), and in the name when there is an extension after it ('a.b.c',
        # '.hidden.txt') - the last dot separates the extension, so all three name forms still agree
        if folder and rng.random() < 0.15:
            parts = folder.split('/')
            k = rng.randrange(len(parts))
            if len(parts[k]) >= 2:
                cut = rng.randrange(1, len(parts[k]))
                parts[k] = parts[k][:cut] + '.' + parts[k][cut:]
                folder = '/'.join(parts)
        if name and ext and rng.random() < 0.15:
            cut = rng.randrange(0, len(name) + 1)
            name = name[:cut] + '.' + name[cut:]
        if folder == ' ':
            continue
        if folder or name or ext:
            return [folder, name, ext]


def pick_size(rng: random.Random, limit: Optional[int], thorough: bool) -> int:
    r = rng.random()
    lim = limit if limit else 0
    if r < 0.10:
        return 0
    if r < 0.18:
        return 1
    if r < 0.42:
        return max(0, lim + rng.choice((-1, 0, 1)))
    if r < 0.62:
        return rng.randint(2, 2500)
    if r < 0.80:
        return rng.choice((65535, 65536, 65537))
    if r < 0.93:
        return rng.randint(2500, 70000)
    return rng.randint(70000, 300 * 1024)


def gen_case(rng: random.Random, thorough: bool) -> dict:
    kind = 'single' if rng.random() < 0.3 else 'dir'
    fname = rng.choice(('solo.vpk', 'pak01.vpk', 'x.dir.vpk')) if kind == 'single' else rng.choice(('pak01_dir.vpk', 'a_dir.vpk', 'My Pak_dir.vpk'))
    pool = [gen_ident(rng) for _ in range(rng.randint(2, 7))]
    # case twins and shared folders make tree-sharing and case-sensitivity visible
    if rng.random() < 0.4:
        f, n, e = rng.choice(pool)
        twin = [f.swapcase(), n, e] if rng.random() < 0.5 else [f, n.swapcase(), e.swapcase()]
        if twin not in pool and (twin[0] or twin[1] or twin[2]):
            pool.append(twin)
    if rng.random() < 0.5:
        f, n, e = rng.choice(pool)
        pool.append([f, gen_part(rng), e])
    limit = rng.choice(LIMITS)
    mode = rng.choice(('w', 'w', 'a'))
    ops: List[list] = [['open', mode, limit]]
    live: set = set()
    written = False  # directory written since creation/truncation
    n_ops = rng.randint(3, 30)
    big_budget = 3 if not thorough else 5

    def ident() -> list:
        return rng.choice(pool)

    def write_args() -> list:
        nonlocal big_budget
        size = pick_size(rng, limit, thorough)
        if size > 70000:
            if big_budget <= 0:
                size = rng.randint(0, 3000)
            big_budget -= 1
        if prior and rng.random() < 0.25:
            size, dseed = rng.choice(prior)  # byte-identical content (same length, same CRC) under another name / again
        else:
            dseed = rng.randrange(1 << 30)
            prior.append((size, dseed))
        return [size, dseed, rng.choice(ARCH)]

    prior: List[tuple] = []
    while len(ops) < n_ops:
        r = rng.random()
        form = rng.randrange(3)
        if mode == 'r':
            if r < 0.55:
                ops.append([rng.choice(('add', 'new_write', 'over', 'del')), ident(), form] + write_args())
            elif r < 0.65:
                ops.append(['flush', 0])
            else:
                mode = rng.choice(('a', 'a', 'w', 'r'))
                limit = rng.choice(LIMITS)
                if mode == 'w':
                    live = set()
                    written = False
                ops.append(['open', mode, limit])
            continue
        if rng.random() < 0.035:
            # a folder on disk added in one call, below an optional prefix
            prefix = rng.choice(('', '', 'pre', 'pre/two', 'pre\\win', 'pre/'))
            pnorm = prefix.replace('\\', '/').strip('/')
            files = []
            for k in range(rng.randint(1, 3)):
                sub = rng.choice(('', '', 'sub', 'sub/deep'))
                files.append([sub, f'af{len(ops)}x{k}', rng.choice(('txt', 'dat', '')), rng.choice((0, 1, 700, 3000)), rng.randrange(1 << 30)])
                live.add(('/'.join(x for x in (pnorm, sub) if x), files[-1][1], files[-1][2]))
            ops.append(['add_folder', prefix, files])
            continue
        if rng.random() < 0.04:
            # a name with one letter beyond ASCII in exactly one of its three parts
            f, n, e = ident()
            part = rng.randrange(3)
            ch = rng.choice('\u00e9\u00df\u0416\u4e2d\u00a0')
            bent = [f + ch if part == 0 else f, n + ch if part == 1 else n, e + ch if part == 2 else e]
            ops.append([rng.choice(('add', 'new_write')), bent, form] + write_args() + ['beyond-ascii'])
            continue
        if r < 0.30 or (not live and r < 0.62):
            i = ident()
            op = 'add' if rng.random() < 0.6 else 'new_write'
            ops.append([op, i, form] + write_args())
            live.add(tuple(i))
        elif r < 0.50 and live:
            i = list(rng.choice(sorted(live)))
            ops.append(['over', i, form] + write_args())
        elif r < 0.62 and live:
            i = list(rng.choice(sorted(live)))
            ops.append(['del', i, form])
            live.discard(tuple(i))
        elif r < 0.66:
            ops.append(['del', ident(), form])  # may be missing: KeyError expected then
        elif r < 0.86:
            ops.append(['flush', 1 if rng.random() < 0.25 else 0])
            written = True
        else:
            new_mode = rng.choice(('r', 'a', 'a', 'w'))
            if new_mode != 'w' and not written:
                ops.append(['flush', 0])
                written = True
            elif rng.random() < 0.8:
                ops.append(['flush', 0])  # otherwise the pending changes are abandoned
                written = True
            mode = new_mode
            limit = rng.choice(LIMITS)
            if mode == 'w':
                live = set()
                written = False
            ops.append(['open', mode, limit])
    if mode != 'r' and ops[-1][0] != 'flush':
        ops.append(['flush', 0])
    return {'kind': kind, 'file': fname, 'ops': ops}


def name_forms(ident: List[str]) -> List[Any]:
    folder, name, ext = ident
    joined = (folder + '/' if folder else '') + name + ('.' + ext if ext else '')
    return [joined, (folder, name + ('.' + ext if ext else '')), (folder, name, ext)]


def make_data(size: int, dseed: int) -> bytes:
    if dseed % 11 == 0:
        return b'\x00' * size  # runs of one byte value: nothing distinguishes one offset from another
    if dseed % 11 == 1:
        return b'\xff' * size  # 0xFFFF is the directory's preload terminator
    return random.Random(dseed).randbytes(size)


# ---------------------------------------------------------------------------------------------------------- executor
class CaseAbort(Exception):
    """One violation per case: after the first refuting observation model and object have diverged."""


class Exec:
    def __init__(self, run, case: dict, engine: str, workdir: str) -> None:
        self.run = run
        self.case = case
        self.engine = engine
        self.dir = workdir
        self.path = os.path.join(workdir, case['file'])
        self.single = case['kind'] == 'single'
        self.vpk: Any = None
        self.mode = ''
        self.limit: Optional[int] = None
        self.mem: Dict[str, bytes] = {}
        self.disk: Optional[Dict[str, bytes]] = None
        self.idents: Dict[str, List[str]] = {}    # canonical name -> parts
        self.canon: Dict[Tuple[str, str, str], str] = {}
        self.meta: Dict[str, dict] = {}           # canonical name -> facts about the last write (for the classifier)
        self.nontrivial = False
        self.step = -1
        self._files_before: List[str] = []

    # ---- reporting
    def fail(self, what: str, witness: Any = None, key: str = 'unclassified') -> None:
        self.run.violation(f'step {self.step}: {what}', witness=witness, key=key, engine=self.engine,
                           case=self.case_ref())
        raise CaseAbort()

    def case_ref(self) -> dict:
        # 'regen' comes first so that it survives truncation of a long witness (see replay)
        ref = {'regen': self.case.get('regen')}
        ref.update({k: v for k, v in self.case.items() if k not in ('ops', 'regen')})
        ref['ops'] = self.case['ops'][:self.step + 1]
        return ref

    def classify_content(self, name: str, want: bytes, got: Optional[bytes]) -> str:
        """Mechanism key from the placement facts of the last write of that file and the observed bytes."""
        m = self.meta.get(name, {})
        lim = m.get('limit')
        if m.get('forged') and got is not None and got == m.get('previous'):
            return 'same-crc-write-skipped'
        if got is not None and not m.get('single'):
            if lim is None and want and got == want + want:
                return 'nolimit-data-duplicated'
            if m.get('arch') is None and lim is not None and len(want) > lim and got == want[:lim]:
                return 'dir-tail-lost'
        return 'content-mismatch'

    # ---- operations
    def open(self, mode: str, limit: Optional[int]) -> None:
        from srctools.vpk import VPK
        if mode in ('r', 'a') and self.disk is None and os.path.exists(self.path):
            raise AssertionError('generator bug: reopen of a never-written directory')
        try:
            # the path is given as str and as os.PathLike alternately (both documented)
            self._opens = getattr(self, '_opens', 0) + 1
            if self._opens % 3 == 2:
                # the same option given through the public attribute of the open archive instead of the constructor
                self.vpk = VPK(pathlib.Path(self.path) if self._opens % 2 == 0 else self.path, mode=mode)
                self.vpk.dir_limit = limit
                self.run.count('dir_limit_set_as_attribute')
            else:
                self.vpk = VPK(pathlib.Path(self.path) if self._opens % 2 == 0 else self.path, mode=mode, dir_data_limit=limit)
        except Exception as exc:
            if mode == 'r' and self.disk is None and isinstance(exc, FileNotFoundError):
                raise AssertionError('generator bug: r-open of a missing file')
            self.fail(f'VPK({self.case["file"]!r}, mode={mode!r}) raised {type(exc).__name__}: {exc}',
                      traceback.format_exc()[-1500:], key='open-raises')
        self.mode, self.limit = mode, limit
        self.run.count(f'open_{mode}')
        if mode == 'w':
            self.mem, self.disk = {}, None
        else:
            self.mem = dict(self.disk or {})
            if self.disk is None:
                self.disk = None  # 'a' on a missing file: created empty, nothing readable yet
            if self._opens % 2 == 0 or mode == 'r':
                self.compare_object(self.vpk, self.mem, f'object opened in mode {mode!r}')
            else:
                # every other reopening for writing goes straight on to the next operations: nothing of the old content has
                # been read when the directory is written again (whatever the object loads lazily is still unloaded)
                self.run.count('reopened_for_writing_without_reading')

    def expect_rejected(self, label: str, fn) -> None:
        """Read-only archive: the mutation must raise and leave everything as it was."""
        with open(self.path, 'rb') as f:
            before = f.read()
        listing = sorted(self.vpk.filenames())
        try:
            fn()
        except ValueError:
            self.run.count('readonly_rejections')
        except Exception as exc:
            self.fail(f'read-only archive answered {label} with {type(exc).__name__}: {exc} instead of rejecting it with ValueError',
                      traceback.format_exc()[-1200:], key='readonly-wrong-error')
        else:
            self.fail(f'read-only archive accepted {label}', key='readonly-accepts-mutation')
        with open(self.path, 'rb') as f:
            after = f.read()
        if after != before or sorted(self.vpk.filenames()) != listing or sorted(os.listdir(self.dir)) != self._files_before:
            self.fail(f'rejected {label} on a read-only archive still changed state', key='readonly-accepts-mutation')

    def do_write(self, op: list) -> None:
        kind, ident, form, size, dseed, arch = op[:6]
        forms = name_forms(ident)
        nm = forms[form]
        key3 = tuple(ident)
        data = make_data(size, dseed)
        forged = False
        previous = None
        if len(op) > 6 and op[6] == 'forge':
            # same CRC as what is stored now (empty for a new file), different content
            cur = self.mem.get(self.canon.get(key3, ''), b'') if kind == 'over' else b''
            if len(cur) >= 8 and dseed % 2:
                # ... and the same length as well: nothing but the bytes themselves tells the two versions apart
                data = make_data(len(cur) - 4, dseed)
                self.run.count('forged_crc_and_length_writes')
            data = forge_same_crc(data, zlib.crc32(cur))
            forged, previous = data != cur, cur
        self._files_before = sorted(os.listdir(self.dir))
        if self.mode == 'r':
            if kind == 'add':
                self.expect_rejected(f'add_file({nm!r})', lambda: self.vpk.add_file(nm, data, arch_index=arch))
            elif kind == 'new_write':
                self.expect_rejected(f'new_file({nm!r})', lambda: self.vpk.new_file(nm))
            elif kind == 'over':
                existing = [n for n in self.mem]
                if existing:
                    tgt = self.vpk[existing[dseed % len(existing)]]
                    self.expect_rejected('FileInfo.write()', lambda: tgt.write(data, arch))
            else:
                existing = [n for n in self.mem]
                tgt_name = existing[dseed % len(existing)] if existing and dseed % 3 else nm
                def dele():
                    del self.vpk[tgt_name]
                self.expect_rejected(f'del vpk[{tgt_name!r}]', dele)
            return
        if len(op) > 6 and op[6] == 'beyond-ascii':
            # Either the name is refused (ValueError, nothing changes) or it is a file like any other, which then has to be
            # listed under exactly this name when the archive is reopened (the ordinary verification of the next reopening).
            listing = sorted(self.vpk.filenames())
            try:
                if kind == 'add':
                    self.vpk.add_file(nm, data, arch_index=arch)
                else:
                    self.vpk.new_file(nm).write(data, arch)
            except ValueError:
                self.run.count('names_beyond_ascii_refused')
                if sorted(self.vpk.filenames()) != listing or sorted(os.listdir(self.dir)) != self._files_before:
                    self.fail(f'the refused {kind}({nm!r}) still changed the archive', key='refused-name-changed-state')
                return
            except CaseAbort:
                raise
            except Exception as exc:
                self.fail(f'{kind}({nm!r}) raised {type(exc).__name__}: {exc}', traceback.format_exc()[-1500:], key='write-raises')
            self.run.count('names_beyond_ascii_accepted')
            cname = name_forms(ident)[0]
            self.canon[key3] = cname
            self.idents[cname] = list(ident)
            self.mem[cname] = data
            self.meta[cname] = {'limit': self.limit, 'arch': arch, 'single': self.single, 'size': len(data),
                                'forged': False, 'previous': None}
            return
        exists = key3 in self.canon and self.canon[key3] in self.mem
        if kind in ('add', 'new_write'):
            # every seventh creation names the file by a path below a root directory (the documented `root` parameter)
            root_form = dseed % 7 == 0 and isinstance(forms[0], str) and not forms[0].startswith('/')
            try:
                if root_form:
                    rooted = os.path.join('/srv/game/content', forms[0])
                    if kind == 'add':
                        self.vpk.add_file(rooted, data, '/srv/game/content', arch_index=arch)
                        info = self.vpk[nm]
                    else:
                        info = self.vpk.new_file(rooted, root='/srv/game/content')
                    self.run.count('files_created_relative_to_root')
                elif kind == 'add':
                    self.vpk.add_file(nm, data, arch_index=arch)
                    info = self.vpk[nm]
                else:
                    info = self.vpk.new_file(nm)
                if kind != 'add' and not exists:
                    if info.read() != b'' or info.size != 0:
                        self.fail(f'new_file({nm!r}) is not empty', key='new-file-not-empty')
                    info.write(data, arch)
                self.run.count('files_created')
            except FileExistsError:
                if exists:
                    self.run.count('duplicate_add_rejected')
                    return
                self.fail(f'{kind}({nm!r}) raised FileExistsError although the model has no such file', key='spurious-exists')
            except CaseAbort:
                raise
            except Exception as exc:
                self.fail(f'{kind}({nm!r}, {size} bytes, arch_index={arch}) raised {type(exc).__name__}: {exc}',
                          traceback.format_exc()[-1500:], key='write-raises')
            if exists:
                self.fail(f'{kind}({nm!r}) succeeded although the file already exists', key='duplicate-accepted')
            cname = info.filename
            if cname in self.mem:
                self.fail(f'{kind}({nm!r}) reported canonical name {cname!r} which another file already has', key='name-collision')
            self.canon[key3] = cname
            self.idents[cname] = list(ident)
        else:  # over
            if not exists:
                try:
                    self.vpk[nm]
                except KeyError:
                    self.run.count('missing_lookup_rejected')
                    return
                self.fail(f'vpk[{nm!r}] found a file the model does not have', key='phantom-file')
            cname = self.canon[key3]
            try:
                info = self.vpk[nm]
                if info.filename != cname:
                    self.fail(f'vpk[{nm!r}] resolved to {info.filename!r}, created as {cname!r}', key='name-forms-disagree')
                info.write(data, arch)
                self.run.count('overwrites')
            except CaseAbort:
                raise
            except Exception as exc:
                self.fail(f'overwrite of {nm!r} ({size} bytes, arch_index={arch}) raised {type(exc).__name__}: {exc}',
                          traceback.format_exc()[-1500:], key='write-raises')
            self.nontrivial = True
        self.mem[cname] = data
        self.meta[cname] = {'limit': self.limit, 'arch': arch, 'single': self.single, 'size': len(data),
                            'forged': forged, 'previous': previous}
        eff = self.limit if self.limit is not None else MAX_PRELOAD
        if len(data) > eff or len(data) > MAX_PRELOAD:
            self.nontrivial = True
            self.run.count('writes_crossing_preload_limit')
        if len(data) > MAX_PRELOAD:
            self.run.count('writes_over_64k')
        if forged:
            self.run.count('forged_crc_writes')

    def do_add_folder(self, op: list) -> None:
        """VPK.add_folder: every file below a folder on disk becomes prefix/relative-path in the archive."""
        _, prefix, files = op
        src = tempfile.mkdtemp(prefix='rv-c13-src-')
        try:
            for sub, name, ext, size, dseed in files:
                os.makedirs(os.path.join(src, sub), exist_ok=True)
                with open(os.path.join(src, sub, name + ('.' + ext if ext else '')), 'wb') as f:
                    f.write(make_data(size, dseed))
            self._files_before = sorted(os.listdir(self.dir))
            call = (lambda: self.vpk.add_folder(src, prefix)) if prefix else (lambda: self.vpk.add_folder(src))
            if self.mode == 'r':
                self.expect_rejected(f'add_folder(prefix={prefix!r})', call)
                return
            try:
                call()
            except CaseAbort:
                raise
            except Exception as exc:
                self.fail(f'add_folder(<{len(files)} files>, prefix={prefix!r}) raised {type(exc).__name__}: {exc}',
                          traceback.format_exc()[-1500:], key='add-folder-raises')
            self.run.count('folders_added_from_disk')
            pnorm = prefix.replace('\\', '/').strip('/')
            for sub, name, ext, size, dseed in files:
                folder = '/'.join(x for x in (pnorm, sub) if x)
                ident = [folder, name, ext]
                cname = name_forms(ident)[0]
                try:
                    info = self.vpk[tuple(ident)]
                except KeyError:
                    self.fail(f'add_folder(prefix={prefix!r}): the file {cname!r} is not in the archive; it lists '
                              f'{sorted(n for n in self.vpk.filenames() if name in n)}', key='add-folder-name')
                if info.filename != cname:
                    self.fail(f'add_folder(prefix={prefix!r}) stored {cname!r} as {info.filename!r}', key='add-folder-name')
                self.canon[tuple(ident)] = cname
                self.idents[cname] = ident
                self.mem[cname] = make_data(size, dseed)
                self.meta[cname] = {'limit': self.limit, 'arch': 0, 'single': self.single, 'size': size, 'forged': False, 'previous': None}
                self.run.count('files_added_through_add_folder')
            self.nontrivial = True
        finally:
            shutil.rmtree(src, ignore_errors=True)

    def do_del(self, op: list) -> None:
        _, ident, form = op[:3]
        nm = name_forms(ident)[form]
        key3 = tuple(ident)
        self._files_before = sorted(os.listdir(self.dir))
        if self.mode == 'r':
            def dele():
                del self.vpk[nm]
            self.expect_rejected(f'del vpk[{nm!r}]', dele)
            return
        exists = key3 in self.canon and self.canon[key3] in self.mem
        try:
            del self.vpk[nm]
        except KeyError:
            if not exists:
                self.run.count('missing_delete_rejected')
                return
            self.fail(f'del vpk[{nm!r}] raised KeyError although the file exists', key='delete-misses-file')
        except Exception as exc:
            self.fail(f'del vpk[{nm!r}] raised {type(exc).__name__}: {exc}', traceback.format_exc()[-1200:], key='delete-raises')
        if not exists:
            self.fail(f'del vpk[{nm!r}] succeeded although the model has no such file', key='phantom-file')
        cname = self.canon[key3]
        del self.mem[cname]
        self.nontrivial = True
        self.run.count('deletes')
        if nm in self.vpk:
            self.fail(f'{nm!r} still in the archive after deletion', key='delete-incomplete')

    def flush(self, via_context: int) -> None:
        self._files_before = sorted(os.listdir(self.dir))
        if self.mode == 'r':
            self.expect_rejected('write_dirfile()', self.vpk.write_dirfile)
            return
        try:
            if via_context:
                with self.vpk:
                    pass
            else:
                self.vpk.write_dirfile()
        except Exception as exc:
            over = [n for n, d in self.mem.items() if len(d) > MAX_PRELOAD and
                    (self.meta[n]['single'] or self.meta[n]['limit'] is None or self.meta[n]['limit'] > MAX_PRELOAD)]
            key = 'preload-over-64k' if isinstance(exc, struct.error) and over else 'write-dirfile-raises'
            left = os.path.getsize(self.path) if os.path.exists(self.path) else None
            self.fail(f'write_dirfile() raised {type(exc).__name__}: {exc}; the directory file is left with {left} bytes',
                      {'files_needing_preload_over_65535': over[:3], 'traceback': traceback.format_exc()[-1200:]}, key=key)
        self.run.count('dirfile_writes')
        self.disk = dict(self.mem)
        self.verify_disk()

    # ---- observers
    def compare_object(self, obj: Any, model: Dict[str, bytes], who: str) -> None:
        names = list(obj.filenames())
        if len(names) != len(set(names)) or set(names) != set(model) or len(obj) != len(model):
            self.fail(f'{who}: lists {sorted(names)[:8]} (len()={len(obj)}), the model has {sorted(model)[:8]}',
                      {'extra': sorted(set(names) - set(model))[:5], 'missing': sorted(set(model) - set(names))[:5]},
                      key='listing-mismatch')
        # listing restricted to one extension: exactly the model's files with that extension (documented split of the
        # 3-part name: explicit extension, otherwise the part after the last dot of the file name)
        by_ext: Dict[str, List[str]] = {}
        for name in model:
            folder, base, ext = self.idents[name]
            if not ext and '.' in base:
                ext = base.rsplit('.', 1)[1]
            by_ext.setdefault(ext, []).append(name)
        # the keyword-only listings: ext=None means no filter, every str (the empty one too) names exactly one extension
        for ext in list(by_ext) + ['', 'no_such_ext']:
            want_names = by_ext.get(ext, [])
            try:
                infos = list(obj.fileinfos(ext=ext))
                fold = list(obj.folders(ext=ext))
            except Exception as exc:
                self.fail(f'{who}: fileinfos/folders(ext={ext!r}) raised {type(exc).__name__}: {exc}', key='listing-raises')
            self.run.count('keyword_listings_compared')
            if sorted(i.filename for i in infos) != sorted(want_names):
                self.fail(f'{who}: fileinfos(ext={ext!r}) lists {sorted(i.filename for i in infos)[:6]}, the model has {sorted(want_names)[:6]}',
                          key='listing-mismatch')
            want_fold = sorted({obj[n].dir for n in want_names})
            if sorted(fold) != want_fold:
                self.fail(f'{who}: folders(ext={ext!r}) lists {sorted(fold)[:6]}, the files with that extension are in {want_fold[:6]}',
                          key='listing-mismatch')
        if sorted(i.filename for i in obj.fileinfos()) != sorted(model) or sorted(obj.folders()) != sorted({obj[n].dir for n in model}):
            self.fail(f'{who}: fileinfos() / folders() without a filter do not list every file / folder once', key='listing-mismatch')
        for ext, want_names in by_ext.items():
            if not ext:
                continue  # filenames(ext='') means "no filter"
            got_names = sorted(obj.filenames(ext=ext))
            self.run.count('ext_listings_compared')
            if got_names != sorted(want_names):
                self.fail(f'{who}: filenames(ext={ext!r}) lists {got_names[:6]}, the model has {sorted(want_names)[:6]}', key='listing-mismatch')
        for name, want in model.items():
            try:
                info = obj[name]
                got = info.read()
            except Exception as exc:
                self.fail(f'{who}: reading {name!r} raised {type(exc).__name__}: {exc}', traceback.format_exc()[-1200:], key='read-raises')
            if got != want:
                key = self.classify_content(name, want, got)
                m = self.meta.get(name, {})
                self.fail(f'{who}: {name!r} reads back {len(got)} bytes, {len(want)} were written '
                          f'(limit={m.get("limit")}, arch_index={m.get("arch")}, single={m.get("single")})',
                          {'first_difference_at': next((i for i, (a, b) in enumerate(zip(got, want)) if a != b), min(len(got), len(want))),
                           'got_len': len(got), 'want_len': len(want), 'placement': {k: v for k, v in m.items() if k != 'previous'}}, key=key)
            if info.size != len(want):
                m = self.meta.get(name, {})
                # the second copy made by data[None:] can be lost again on its way to disk; its length stays behind
                dup = m.get('limit') is None and not m.get('single') and info.size == 2 * len(want)
                self.fail(f'{who}: {name!r}.size is {info.size}, data has {len(want)} bytes '
                          f'(limit={m.get("limit")}, arch_index={m.get("arch")}, single={m.get("single")})',
                          key='nolimit-data-duplicated' if dup else 'size-mismatch')
            if not info.verify():
                self.fail(f'{who}: {name!r} fails checksum verification although it reads back correctly', key='verify-fails')
            self.run.count('file_reads_compared')
        if not obj.verify_all():
            self.fail(f'{who}: verify_all() is false', key='verify-fails')

    def verify_disk(self) -> None:
        from srctools.vpk import VPK
        model = self.disk or {}
        # (1) fresh read-only object
        try:
            fresh = VPK(pathlib.Path(self.path) if getattr(self, '_opens', 0) % 2 else self.path)
        except Exception as exc:
            self.fail(f'reopening the written archive raised {type(exc).__name__}: {exc}', traceback.format_exc()[-1500:], key='reopen-raises')
        self.compare_object(fresh, model, 'fresh VPK(path)')
        for name in model:
            forms = name_forms(self.idents[name])
            infos = []
            for f in forms:
                if f not in fresh:
                    self.fail(f'name form {f!r} of {name!r} is not "in" the reopened archive', key='name-forms-disagree')
                infos.append(fresh[f])
            if not (infos[0] is infos[1] is infos[2]) or infos[0].filename != name:
                self.fail(f'the three name forms of {name!r} resolve to {[i.filename for i in infos]}', key='name-forms-disagree')
            self.run.count('name_forms_compared')
            # other spellings of the same folder (the documented normalisation: trailing '/', leading './', doubled and
            # backward slashes) name the same file in every form
            folder, base, ext = self.idents[name]
            fname = base + ('.' + ext if ext else '')
            spell = []
            if folder:
                spell = [(folder + '/', fname), ('./' + folder, fname), (folder.replace('/', '\\'), base, ext), folder + '//' + fname,
                         './' + folder + '/' + fname, (folder + '/./', base, ext)]
            else:
                spell = ['./' + fname, ('.', fname), ('./', base, ext)]
            for sp in spell:
                try:
                    other_info = fresh[sp]
                except Exception as exc:
                    self.fail(f'{sp!r}, another spelling of {name!r}, is not found in the reopened archive ({type(exc).__name__})', key='name-forms-disagree')
                if other_info is not infos[0]:
                    self.fail(f'{sp!r}, another spelling of {name!r}, resolves to {other_info.filename!r}', key='name-forms-disagree')
            self.run.count('folder_spellings_compared')
        # checksum verification has to be able to fail: one byte of one stored file is flipped in a COPY of the archive files
        # (found by searching for the file's own bytes), and the copy must report exactly that file as damaged
        victim = next((n for n in sorted(model) if len(model[n]) >= 48 and len(set(model[n][:48])) > 8
                       and not any(model[n][8:40] in d for o, d in model.items() if o != n)), None)
        if victim is not None:
            total = 0
            for fn in os.listdir(self.dir):
                if os.path.isfile(os.path.join(self.dir, fn)):
                    total += open(os.path.join(self.dir, fn), 'rb').read().count(model[victim][8:40])
            if total != 1:
                victim = None   # an older copy of the same bytes is still lying in an archive: the live one cannot be told apart
        if victim is not None:
            cdir = tempfile.mkdtemp(prefix='corrupt-', dir=self.dir)
            try:
                needle = model[victim][8:40]
                hit = None
                for fn in sorted(os.listdir(self.dir)):
                    src = os.path.join(self.dir, fn)
                    if not os.path.isfile(src):
                        continue
                    raw = open(src, 'rb').read()
                    k = raw.find(needle)
                    if k >= 0 and hit is None and raw.count(needle) == 1:
                        raw = raw[:k + 5] + bytes([raw[k + 5] ^ 0x5A]) + raw[k + 6:]
                        hit = fn
                    with open(os.path.join(cdir, fn), 'wb') as f:
                        f.write(raw)
                if hit is not None:
                    damaged = VPK(os.path.join(cdir, os.path.basename(self.path)))
                    self.run.count('corrupted_copies_verified')
                    if damaged[victim].verify() or damaged.verify_all():
                        self.fail(f'one byte of {victim!r} was flipped in {hit}: verify() / verify_all() still report the archive as intact', key='verify-passes-corrupted-data')
                    others_ok = all(damaged[n].verify() for n in model if n != victim and model[n] != model[victim] and needle not in model[n])
                    if not others_ok:
                        self.fail(f'one byte of {victim!r} was flipped: verify() also fails for files that were not touched', key='verify-fails')
            finally:
                shutil.rmtree(cdir, ignore_errors=True)
        # read-only rejection on the fresh object
        saved_vpk, saved_mode = self.vpk, self.mode
        self.vpk, self.mode = fresh, 'r'
        try:
            self._files_before = sorted(os.listdir(self.dir))
            self.expect_rejected('add_file(new name)', lambda: fresh.add_file('ro_probe/new.bin', b'xyz'))
            self.expect_rejected('new_file(new name)', lambda: fresh.new_file(('ro_probe', 'new2', 'bin')))
            self.expect_rejected('write_dirfile()', fresh.write_dirfile)
            if model:
                first = sorted(model)[0]

                def dele():
                    del fresh[first]
                self.expect_rejected(f'del vpk[{first!r}]', dele)
                self.expect_rejected(f'FileInfo.write() on {first!r}', lambda: fresh[first].write(model[first] + b'!', 0))
                self.expect_rejected(f'add_file(existing {first!r})', lambda: fresh.add_file(first, b'q'))
        finally:
            self.vpk, self.mode = saved_vpk, saved_mode
        # (2) the live object keeps answering correctly after the save
        self.compare_object(self.vpk, self.mem, 'live object after write_dirfile()')
        # (3) independent decoder
        try:
            dec = decode_vpk(self.path)
        except DecodeError as exc:
            self.fail(f'independent decoder rejects the written directory: {exc}', key='decoder-rejects-directory')
        if set(dec) != set(model):
            self.fail(f'independent decoder lists {sorted(dec)[:8]}, the model has {sorted(model)[:8]}', key='decoder-listing-mismatch')
        for name, ent in dec.items():
            if ent['data'] != model[name]:
                self.fail(f'independent decoder reads {len(ent["data"])} bytes for {name!r} ({ent["where"]}), {len(model[name])} were written',
                          key='decoder-' + self.classify_content(name, model[name], ent['data']))
            if not ent['crc_ok']:
                self.fail(f'stored CRC of {name!r} does not match its bytes on disk', key='decoder-crc-mismatch')
            if list(ent['parts']) != self.idents[name]:
                self.fail(f'{name!r} is stored under parts {ent["parts"]}, created from {self.idents[name]}', key='decoder-parts-mismatch')
            self.run.count('placement_' + ent['where'].replace('archive0', 'archive').replace('archive1', 'archive').replace('archive2', 'archive'))
            self.run.count('decoder_files_compared')

    # ---- driver
    def execute(self) -> None:
        try:
            for i, op in enumerate(self.case['ops']):
                self.step = i
                if op[0] == 'open':
                    self.open(op[1], op[2])
                elif op[0] == 'flush':
                    self.flush(op[1])
                elif op[0] == 'del':
                    self.do_del(op)
                elif op[0] == 'add_folder':
                    self.do_add_folder(op)
                else:
                    self.do_write(op)
                self.run.count('operations')
        except CaseAbort:
            self.run.count('cases_stopped_at_first_violation')


def run_case(run, case: dict, engine: str, base: str, sample: bool = False) -> None:
    work = tempfile.mkdtemp(prefix='case-', dir=base)
    ex = Exec(run, case, engine, work)
    try:
        ex.execute()
    except AssertionError:
        raise
    except Exception:
        run.violation('harness or library error outside a guarded call', witness=traceback.format_exc()[-2500:],
                      key='unexpected-exception', engine=engine, case=case)
    finally:
        shutil.rmtree(work, ignore_errors=True)
    summary = {'kind': case['kind'], 'file': case['file'], 'ops': [[o[0]] + [x for x in o[1:] if not isinstance(x, list)] for o in case['ops']][:12]}
    run.case(case, ex.nontrivial, sample=summary if sample else None, tag=engine)


# fixed histories: every placement cell once (kind x limit x arch_index x size class), so the matrix is covered
# whatever the seed
def matrix_cases() -> List[dict]:
    out = []
    for kind, fname in (('dir', 'm_dir.vpk'), ('single', 'm.vpk')):
        for limit in LIMITS:
            for arch in ARCH:
                lim = limit or 0
                sizes = sorted({0, 1, max(0, lim - 1), lim, lim + 1, 2000, 65535, 65536, 65537, 90000})
                ops: List[list] = [['open', 'w', limit]]
                for k, size in enumerate(sizes):
                    ops.append(['add', ['mat/sub', f'f{k}', 'bin'], k % 3, size, 1000 + k, arch])
                ops.append(['flush', 0])
                ops.append(['open', 'a', limit])
                ops.append(['over', ['mat/sub', 'f1', 'bin'], 0, lim + 5, 77, arch])
                ops.append(['del', ['mat/sub', 'f0', 'bin'], 1])
                ops.append(['flush', 1])
                out.append({'kind': kind, 'file': fname, 'ops': ops})
    return out


def forge_cases(rng: random.Random) -> dict:
    kind = rng.choice(('dir', 'single'))
    limit = rng.choice(LIMITS)
    a = ['snd', 'forged', 'wav']
    b = ['', 'plain', '']
    ops = [['open', 'w', limit],
           # CRC32 == CRC32(b''); a numbered archive is requested so that an empty read-back cannot be mistaken
           # for the directory-tail placement
           ['add', a, 0, rng.randint(0, 40), rng.randrange(1 << 30), rng.choice((0, 1, 2)), 'forge'],
           ['add', b, 2, rng.randint(1, 3000), rng.randrange(1 << 30), rng.choice(ARCH)],
           ['flush', 0],
           ['over', b, 1, rng.randint(0, 3000), rng.randrange(1 << 30), rng.choice(ARCH), 'forge'],  # same CRC as stored
           ['flush', 0]]
    return {'kind': kind, 'file': 'f_dir.vpk' if kind == 'dir' else 'f.vpk', 'ops': ops}


def regen(run, engine: str, index: int) -> dict:
    if engine == 'matrix':
        case = matrix_cases()[index]
    elif engine == 'forge':
        case = forge_cases(sub_rng(run.seed, 'forge', index))
    else:
        case = gen_case(sub_rng(run.seed, 'history', index), run.tier == 'thorough')
    case['regen'] = [engine, index]
    return case


def main(run, shard=(0, 1)) -> None:
    import srctools.vpk as vm
    probe = ReachProbe({
        'FileInfo.write': (vm, 'FileInfo.write'), 'FileInfo.read': (vm, 'FileInfo.read'),
        'FileInfo.verify': (vm, 'FileInfo.verify'), 'VPK.write_dirfile': (vm, 'VPK.write_dirfile'),
        'VPK.load_dirfile': (vm, 'VPK.load_dirfile'), '_get_file_parts': (vm, '_get_file_parts'),
        'VPK.__delitem__': (vm, 'VPK.__delitem__'), 'VPK.new_file': (vm, 'VPK.new_file'),
    })
    probe.start()
    thorough = run.tier == 'thorough'
    base = tempfile.mkdtemp(prefix='rv-c13-')
    try:
        for j, case in enumerate(matrix_cases()):
            if mine(j, shard):
                case['regen'] = ['matrix', j]
                run_case(run, case, 'matrix', base, sample=j == 5)
        n_forge = 400 if thorough else 24
        for j in range(n_forge):
            if mine(j, shard):
                run_case(run, regen(run, 'forge', j), 'forge', base, sample=j == 0)
        n = 250000 if thorough else 6000
        for i in range(n):
            if not mine(i, shard):
                continue
            run_case(run, regen(run, 'history', i), 'history', base, sample=i < 3)
    finally:
        shutil.rmtree(base, ignore_errors=True)
    probe.report(run)
    probe.check_reached(run)
    run.require('files_created_relative_to_root', 'dir_limit_set_as_attribute', 'forged_crc_and_length_writes', 'folder_spellings_compared', 'reopened_for_writing_without_reading', 'corrupted_copies_verified', 'operations', 'dirfile_writes', 'file_reads_compared', 'decoder_files_compared', 'name_forms_compared',
                'readonly_rejections', 'overwrites', 'deletes', 'writes_crossing_preload_limit', 'writes_over_64k',
                'open_a', 'open_r', 'open_w')


def replay(run, data) -> None:
    case = data['case']
    if 'ops' not in case:
        # the stored history was too long for the witness budget: regenerate it from (seed, tier, engine, index)
        import re
        m = re.search(r'"regen": \["(\w+)", (\d+)\]', case.get('truncated_repr', ''))
        if not m:
            raise RuntimeError('replay file carries neither the operation list nor its generator coordinates')
        case = regen(run, m.group(1), int(m.group(2)))
    base = tempfile.mkdtemp(prefix='rv-c13-')
    try:
        run_case(run, case, 'replay', base, sample=True)
    finally:
        shutil.rmtree(base, ignore_errors=True)
    run.case('pad', True)
    run.case('pad2', True)


# (kept at the end of the file so that the text above stays the description the check was first built to)
RULE += ' ' + "Later additions: dir_data_limit 65535 / 65536 / 100000, also set through the dir_limit attribute of the open archive; dotted folder and file names; other spellings of the folder (trailing '/', './', doubled and backward slashes) in every name form; forged overwrites with equal CRC32 and equal length. A name with one letter beyond ASCII in one of its three parts is either refused with ValueError leaving the archive as it was, or has to be listed under exactly that name after reopening. Folders on disk (files at the top and in sub-folders) are added with add_folder, with and without a prefix, and take part in the history like any other file. The keyword listings fileinfos(ext=) and folders(ext=) are compared with the model for every extension, the empty one and an unused one included."
