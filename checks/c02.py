"""C02 escape_text and the tokenizer are exact inverses on every string.

Refuting events: list(Tokenizer('"'+escape_text(s,m)+'"')) != [(STRING, s)]; a raw '"' in the escaped
text; a raw CR/LF in single-line mode; a string embedded in a KV / VMF / BSP-entity / DMX-KV2 line
whose owning parser returns something other than s.
"""
from __future__ import annotations

import io
import itertools
from typing import Any, List, Tuple

from rv.util import mine, sub_rng, rand_text
from rv.probes import ReachProbe

PROP = 'C02'
LEVEL = 'exploration'
RULE = ('exhaustive: every string of length <= L (L=4 quick, 6 thorough) over the 19-symbol escape alphabet '
        '[\\ " \' CR LF TAB VT BS FF BEL ? / n t a x SPACE { BOM], both escaping modes, each fed through the real '
        'tokenizer as one string, character by character and cut once at a rotating position; random: strings over all Unicode scalar values (len<=64) plus every BMP code point once '
        '(thorough); embedded: the escaped text planted as key / value / middle sibling of a line and read by the '
        'owning parser (Tokenizer, Keyvalues.parse, VMF.parse, BSP entity tokenizer set-up, DMX keyvalues2). '
        'A case is non-trivial when the string contains at least one character of the escape alphabet '
        '(backslash, quotes, CR, LF, TAB, VT, BS, FF, BEL, ?, /); distinct = distinct (string, mode, context).')
ASSUMPTIONS = ['Python implementation of Tokenizer/escape_text (the Cython twin cannot be built here)',
               '"line break" means CR or LF, as the quantifier names them']
JOBS = {'quick': 1, 'thorough': 16}

ALPHABET = ['\\', '"', "'", '\r', '\n', '\t', '\v', '\b', '\f', '\a', '?', '/', 'n', 't', 'a', 'x', ' ', '{', '\ufeff']
ESC_CHARS = set('\\"\'\r\n\t\v\b\f\a?/')


def _tokens(text: Any) -> List[Tuple[Any, str]]:
    """text: one str, or a list of str chunks (the tokenizer accepts any iterable of strings)."""
    from srctools.tokenizer import Tokenizer, Token
    tok = Tokenizer(text, allow_escapes=True)
    out = []
    for _ in range(sum(map(len, text)) + 5 if not isinstance(text, str) else len(text) + 5):
        t = tok()
        out.append(t)
        if t[0] is Token.EOF:
            break
    return out


def check_one(run, s: str, multiline: bool, engine: str) -> bool:
    """The core law on one string; returns True when it held."""
    from srctools.tokenizer import Token, TokenSyntaxError, escape_text
    case = {'s': s, 'multiline': multiline}
    try:
        esc = escape_text(s, multiline)
    except Exception as exc:
        run.violation(f'escape_text raised {exc!r}', case=case, engine=engine, key='escape-raises')
        return False
    ok = True
    if _has_raw_quote(esc):
        run.violation('escaped text contains a raw double quote', witness={'escaped': esc}, case=case,
                      engine=engine, key='raw-quote')
        ok = False
    if not multiline and ('\n' in esc or '\r' in esc):
        run.violation('single-line escaped text contains a raw line break', witness={'escaped': esc}, case=case,
                      engine=engine, key='raw-linebreak')
        ok = False
    try:
        toks = _tokens('"' + esc + '"')
    except TokenSyntaxError as exc:
        run.violation(f'tokenizer rejected escaped text: {exc.mess}', witness={'escaped': esc}, case=case,
                      engine=engine, key='tokenizer-rejects')
        return False
    except Exception as exc:
        run.violation(f'tokenizer raised {exc!r}', witness={'escaped': esc}, case=case, engine=engine,
                      key='tokenizer-raises')
        return False
    if len(toks) != 2 or toks[0][0] is not Token.STRING or toks[0][1] != s or toks[1][0] is not Token.EOF:
        run.violation('tokenizing the quoted escaped text did not reproduce the string',
                      witness={'escaped': esc, 'tokens': [(t.name, v) for t, v in toks]}, case=case,
                      engine=engine, key='not-inverse')
        ok = False
    if not ok:
        return ok
    # the same quoted text delivered in pieces (character by character, and cut once at a position that rotates with
    # the string): "tokenizing it" must not depend on how the text reaches the tokenizer
    quoted = '"' + esc + '"'
    cut = 1 + (hash_pos(s) % (len(quoted) - 1))
    for how, chunks in (('chars', list(quoted)), ('cut@%d' % cut, [quoted[:cut], quoted[cut:]])):
        try:
            toks = _tokens(chunks)
        except Exception as exc:
            run.violation(f'tokenizer raised {exc!r} for the escaped text delivered as {how}', witness={'escaped': esc},
                          case=case, engine=engine, key='not-inverse-chunked')
            return False
        if len(toks) != 2 or toks[0][0] is not Token.STRING or toks[0][1] != s or toks[1][0] is not Token.EOF:
            run.violation(f'tokenizing the quoted escaped text delivered as {how} did not reproduce the string',
                          witness={'escaped': esc, 'tokens': [(t.name, v) for t, v in toks]}, case=case,
                          engine=engine, key='not-inverse-chunked')
            return False
    run.count('chunked_deliveries', 2)
    if multiline and '\n' in esc:
        # multi-line escaped text keeps its line breaks raw; written through a text file on Windows they become CR LF, which
        # the tokenizer reads as the one line break they stand for
        try:
            toks = _tokens(quoted.replace('\n', '\r\n'))
        except Exception as exc:
            run.violation(f'tokenizer raised {exc!r} for multi-line escaped text with CR LF line ends', witness={'escaped': esc}, case=case, engine=engine,
                          key='not-inverse-crlf')
            return False
        run.count('multiline_texts_with_crlf')
        if len(toks) != 2 or toks[0][0] is not Token.STRING or toks[0][1] != s or toks[1][0] is not Token.EOF:
            run.violation('multi-line escaped text whose line breaks were written as CR LF did not reproduce the string',
                          witness={'escaped': esc, 'tokens': [(t.name, v) for t, v in toks]}, case=case, engine=engine, key='not-inverse-crlf')
            return False
    # the token un-read and read again through the tokenizer's own look-ahead interface (push_back / peek), as the parsers
    # built on it do: still the one STRING token with value s - also when s is the empty string
    from srctools.tokenizer import Tokenizer as _Tk
    try:
        tk2 = _Tk(quoted, allow_escapes=True)
        first = tk2()
        tk2.push_back(*first)
        peeked = tk2.peek()
        again = tk2()
        rest = tk2()
    except Exception as exc:
        run.violation(f'push_back/peek of the STRING token raised {exc!r}', witness={'escaped': esc}, case=case, engine=engine,
                      key='lookahead-loses-token')
        return False
    if not (first == peeked == again) or again[0] is not Token.STRING or again[1] != s or rest[0] is not Token.EOF:
        run.violation('the STRING token does not survive push_back / peek', witness={'first': [first[0].name, first[1]], 'again': [again[0].name, again[1]]},
                      case=case, engine=engine, key='lookahead-loses-token')
        return False
    # another tokenizer object is dropped while it still holds a looked-ahead token (a parser that stopped early): the next,
    # unrelated tokenizer starts clean
    try:
        other = _Tk('{ "left" "behind" }', allow_escapes=True)
        if len(s) % 2:
            other.peek()
        else:
            other.push_back(*other())
        del other
        toks = _tokens(quoted)
    except Exception as exc:
        run.violation(f'tokenizing after another tokenizer was dropped with a pending token raised {exc!r}', case=case, engine=engine,
                      key='state-leaks-between-tokenizers')
        return False
    run.count('fresh_tokenizers_after_an_abandoned_one')
    if len(toks) != 2 or toks[0][0] is not Token.STRING or toks[0][1] != s or toks[1][0] is not Token.EOF:
        run.violation('a fresh tokenizer, created after another one was dropped with a pending look-ahead token, did not reproduce the string',
                      witness={'escaped': esc, 'tokens': [(t.name, v) for t, v in toks][:6]}, case=case, engine=engine,
                      key='state-leaks-between-tokenizers')
        return False
    # "with escapes enabled": the constructor keyword above, and the public attribute switched on before the first token
    from srctools.tokenizer import Tokenizer
    try:
        tok = Tokenizer(quoted, allow_escapes=False)
        tok.allow_escapes = True
        toks = [tok(), tok()]
    except Exception as exc:
        run.violation(f'tokenizer raised {exc!r} with allow_escapes switched on through the attribute', witness={'escaped': esc},
                      case=case, engine=engine, key='not-inverse-attribute-enabled')
        return False
    if toks[0][0] is not Token.STRING or toks[0][1] != s or toks[1][0] is not Token.EOF:
        run.violation('tokenizing with allow_escapes switched on through the attribute did not reproduce the string',
                      witness={'escaped': esc, 'tokens': [(t.name, v) for t, v in toks]}, case=case, engine=engine,
                      key='not-inverse-attribute-enabled')
        return False
    return ok


def hash_pos(s: str) -> int:
    h = 0
    for c in s:
        h = (h * 131 + ord(c)) & 0xFFFFFFF
    return h + len(s)


def _has_raw_quote(esc: str) -> bool:
    """A double quote not preceded by an odd number of backslashes."""
    i = 0
    n = len(esc)
    while i < n:
        c = esc[i]
        if c == '\\':
            i += 2
            continue
        if c == '"':
            return True
        i += 1
    return False


# ------------------------------------------------------------------ embedded contexts
def embedded(run, rng, s: str, others: Tuple[str, str], engine: str) -> None:
    from srctools.tokenizer import Tokenizer, Token, TokenSyntaxError, escape_text
    from srctools.keyvalues import Keyvalues, KeyValError
    a, b = others
    case = {'s': s, 'siblings': [a, b]}
    # 1. three strings on one line, s in each position, single-line mode; multiline mode on its own line group
    for multiline in (False, True):
        for pos in range(3):
            vals = [a, b]
            vals.insert(pos, s)
            line = ' '.join('"' + escape_text(v, multiline) + '"' for v in vals)
            text = '{ ' + line + ' }\n' + line
            try:
                toks = [(t, v) for t, v in Tokenizer(text, allow_escapes=True) if t is Token.STRING]
            except TokenSyntaxError as exc:
                run.violation(f'embedded line rejected: {exc.mess}', witness={'text': text}, case=case,
                              engine=engine, key='embedded-line')
                continue
            run.count('embedded_line')
            if [v for _, v in toks] != vals * 2:
                run.violation('embedded line did not re-read its strings',
                              witness={'text': text, 'got': [v for _, v in toks], 'want': vals * 2},
                              case=case, engine=engine, key='embedded-line')
    # 2. Keyvalues.parse: s as a value and (without line breaks) as a key
    key_s = s.replace('\r', '').replace('\n', '')
    doc = f'"{escape_text(a.replace(chr(10), "").replace(chr(13), ""))}" "{escape_text(s)}"\n"{escape_text(key_s)}" "{escape_text(b)}"\n'
    try:
        kv = Keyvalues.parse(doc)
        run.count('embedded_kv')
        got = [(c.real_name, c.value) for c in kv]
        want = [(a.replace('\n', '').replace('\r', ''), s), (key_s, b)]
        if got != want:
            run.violation('Keyvalues.parse of escaped key/value lines differs', witness={'doc': doc, 'got': got, 'want': want},
                          case=case, engine=engine, key='embedded-kv')
    except KeyValError as exc:
        run.violation(f'Keyvalues.parse rejected escaped lines: {exc.mess}', witness={'doc': doc}, case=case,
                      engine=engine, key='embedded-kv')
    # 3. VMF entity line (as Entity.export writes it) read back through VMF.parse
    from srctools.vmf import VMF
    doc = ('entity\n{\n\t"id" "1"\n\t"classname" "info_target"\n'
           f'\t"message" "{escape_text(s)}"\n\t"other" "{escape_text(b)}"\n}}\n')
    try:
        vmf = VMF.parse(Keyvalues.parse(doc))
        ent = next(iter(vmf.by_class['info_target']))
        run.count('embedded_vmf')
        if ent['message'] != s or ent['other'] != b:
            run.violation('VMF entity line did not re-read its value',
                          witness={'doc': doc, 'got': [ent['message'], ent['other']], 'want': [s, b]},
                          case=case, engine=engine, key='embedded-vmf')
    except Exception as exc:
        run.violation(f'VMF parse of an escaped entity line failed: {exc!r}', witness={'doc': doc}, case=case,
                      engine=engine, key='embedded-vmf')
    # 4. BSP entity-lump line: written with escape_text(value, True) as ASCII, read by Tokenizer(allow_escapes=True)
    s_ascii = ''.join(c if ord(c) < 128 else '?' for c in s)
    b_ascii = ''.join(c if ord(c) < 128 else '?' for c in b)
    data = ('{\n' + f'"key" "{escape_text(s_ascii, True)}"\n"k2" "{escape_text(b_ascii, True)}"\n' + '}\n').encode('ascii', 'surrogateescape')
    try:
        toks = [v for t, v in Tokenizer(data.decode('ascii', 'surrogateescape'), allow_escapes=True) if t is Token.STRING]
        run.count('embedded_bsp')
        if toks != ['key', s_ascii, 'k2', b_ascii]:
            run.violation('BSP entity-lump line did not re-read its value',
                          witness={'data': data.decode('ascii'), 'got': toks}, case=case, engine=engine,
                          key='embedded-bsp')
    except TokenSyntaxError as exc:
        run.violation(f'BSP entity-lump line rejected: {exc.mess}', witness={'data': data.decode('ascii')},
                      case=case, engine=engine, key='embedded-bsp')
    # 5. DMX keyvalues2 attribute line
    from srctools.dmx import Element
    doc = ('<!-- dmx encoding keyvalues2 1 format test 1 -->\n"DmeTest"\n{\n'
           '\t"id" "elementid" "d42b8622-b480-4084-9ed7-b77480acf4df"\n'
           f'\t"name" "string" "{escape_text(b)}"\n\t"attr" "string" "{escape_text(s)}"\n}}\n')
    try:
        root, _, _ = Element.parse(io.BytesIO(doc.encode('utf8')), unicode=True)
        run.count('embedded_dmx')
        if root['attr'].val_str != s or root.name != b:
            run.violation('DMX keyvalues2 attribute line did not re-read its value',
                          witness={'doc': doc, 'got': [root['attr'].val_str, root.name], 'want': [s, b]},
                          case=case, engine=engine, key='embedded-dmx')
    except Exception as exc:
        run.violation(f'DMX keyvalues2 parse of an escaped line failed: {exc!r}', witness={'doc': doc},
                      case=case, engine=engine, key='embedded-dmx')


# what may stand directly before / after the quoted string: every other kind of token, with and without a gap
CTX_PRE = ['#base ', '#include\t', '#base', 'bare ', 'bare', '{', '}', '[flag] ', '[flag]', '= ', '=', ', ', ',', '(a b) ', '(a b)', ': ',
           ':', '+ ', '+', '// c\n', '/* c */', '/* c */ ', '\n', '\r\n', '\r', '"o"', '"o" ', '\t', '"k" "v"\n', 'a\\', '!', '$x ', '|']
CTX_SUF = ['\x00', '\n\x00', ' #dir', '#dir', ' [flag]', '[flag]', ' // c', '// c', '\r\n', '\n', '\r', '}', '{', '"x"', ' "x"', '=', ',', '+', ':', '(z)',
           ' bare', 'bare', '/* c */']
CTX_OPTS = [{}, {'string_bracket': True}, {'allow_star_comments': True}, {'colon_operator': True}, {'plus_operator': True},
            {'string_bracket': True, 'colon_operator': True, 'plus_operator': True, 'allow_star_comments': True}]


def neighbours(run, rng, s: str, engine: str, fixed: Any = None) -> None:
    """The quoted string between other tokens: the tokens of the surroundings (read on their own), and between them
    exactly one STRING token with the value s - whatever kind of token stands directly before or after it."""
    from srctools.tokenizer import Tokenizer, Token, TokenSyntaxError, escape_text

    def toks(text: str, opts: dict) -> Any:
        try:
            return list(Tokenizer(text, allow_escapes=True, **opts))
        except TokenSyntaxError:
            return None

    if rng is not None and rng.random() < 0.2:
        # NUL is an ordinary character for escape_text and the tokenizer (a BSP entity lump even ends in one)
        k = rng.randrange(len(s) + 1)
        s = s[:k] + '\x00' + s[k:]
    if rng is None:
        combos = [fixed]
    else:
        combos = []
        for _ in range(3):
            pre, suf, opts, multiline = rng.choice(CTX_PRE), rng.choice(CTX_SUF), rng.choice(CTX_OPTS), rng.random() < 0.5
            if rng.random() < 0.3:
                suf = ''
            elif rng.random() < 0.3:
                pre = ''
            combos.append((pre, suf, opts, multiline))
    for pre, suf, opts, multiline in combos:
        before, after = toks(pre, opts), toks(suf, opts)
        if before is None or after is None:
            continue   # this surrounding is not valid text under these options
        text = pre + '"' + escape_text(s, multiline) + '"' + suf
        case = {'s': s, 'before': pre, 'after': suf, 'options': opts, 'multiline': multiline}
        run.count('neighbour_contexts')
        if pre.startswith('#'):
            run.count('strings_directly_after_a_directive')
        try:
            got = list(Tokenizer(text, allow_escapes=True, **opts))
        except TokenSyntaxError as exc:
            run.violation(f'the escaped string between {pre!r} and {suf!r} was rejected: {exc.mess}', witness={'text': text}, case=case,
                          engine=engine, key='neighbour-context')
            continue
        if got != before + [(Token.STRING, s)] + after:
            run.violation(f'the escaped string between {pre!r} and {suf!r} did not come back as one STRING token with its value',
                          witness={'text': text, 'got': [(t.name, v) for t, v in got][:12]}, case=case, engine=engine,
                          key='neighbour-context')


def main(run, shard=(0, 1)) -> None:
    import srctools.tokenizer as tk
    probe = ReachProbe({
        'escape_text': (tk, 'escape_text'),
        'Tokenizer._handle_string': (tk, 'Tokenizer._handle_string'),
        'Tokenizer._next_char': (tk, 'Tokenizer._next_char'),
    })
    probe.start()
    thorough = run.tier == 'thorough'
    L = 6 if thorough else 4
    # ---- exhaustive core
    idx = 0
    evals = nontriv = 0
    for n in range(0, L + 1):
        for tup in itertools.product(ALPHABET, repeat=n):
            idx += 1
            if not mine(idx, shard):
                continue
            s = ''.join(tup)
            # both orders of the two modes: whatever one call leaves behind must not reach the other
            for m in ((False, True) if idx % 2 else (True, False)):
                check_one(run, s, m, 'exhaustive')
                evals += 1
                if ESC_CHARS.intersection(s):
                    nontriv += 1
    run.case_bulk(evals, nontriv)
    run.count('exhaustive_strings_x_modes', evals)
    run.extra['exhaustive_max_len'] = L
    run.extra['exhaustive_alphabet'] = [repr(c) for c in ALPHABET]
    run.exhaustive = False  # only the core is exhaustive; the property quantifies over all strings
    run.extra['exhaustive_core'] = True
    run.sample({'s': '\\\n"', 'multiline': True, 'escaped': tk.escape_text('\\\n"', True)}, 'exhaustive')

    # ---- random Unicode strings
    n_rand = 500000 if thorough else 6000
    for i in range(n_rand):
        if not mine(i, shard):
            continue
        rng = sub_rng(run.seed, 'random', i)
        s = rand_text(rng, 64, hostile=rng.choice((0.2, 0.6, 0.95)))
        m = rng.random() < 0.5
        check_one(run, s, m, 'random')
        in_core = len(s) <= L and all(c in ALPHABET for c in s)
        run.case([s, m], bool(ESC_CHARS.intersection(s)) and not in_core,
                 sample={'s': s, 'multiline': m, 'escaped': tk.escape_text(s, m)} if i < 3 else None, tag='random')
    # ---- unusual sizes: very long strings (plain, all-escapes, alternating)
    for k, s_long in enumerate(('a' * 50000, '\\' * 20000, '"\n' * 15000, ('ab\t"\\\r\n' * 4000), '\n' * 30000 + 'x', '\ufeff' * 9000)):
        if mine(k, shard):
            for m in (True, False):
                check_one(run, s_long, m, 'long')
            run.case_bulk(2, 2)
            run.count('long_strings')
    # ---- every BMP code point once (thorough), every code point < 0x300 (quick)
    top = 0x10000 if thorough else 0x300
    for cp in range(top):
        if not mine(cp, shard) or 0xD800 <= cp <= 0xDFFF:
            continue
        s = 'a' + chr(cp) + '\\'
        for m in ((False, True) if cp % 2 else (True, False)):
            check_one(run, s, m, 'codepoints')
        run.case_bulk(2, 2)
    run.count('codepoints', top)
    # beyond that range in every run: the code points that look like, or are classed with, the characters the escaper cares
    # about - typographic and full-width quotes and backslashes, the Unicode line and paragraph separators, the BOM, specials
    special = list(range(0x2010, 0x2030)) + [0x2032, 0x2033, 0x2036, 0x275D, 0x275E, 0x301D, 0x301E, 0x301F, 0xFF02, 0xFF07, 0xFF3C, 0xFE68, 0x29F5,
                                               0x2215, 0xFEFF, 0xFFFD, 0xFFFE, 0xFFFF, 0x10000, 0x1F600, 0x10FFFF, 0x0130, 0x1E9E]
    for cp in special:
        for ctx_s in ('a' + chr(cp) + '\\', chr(cp), chr(cp) + chr(cp) + '"'):
            for m in (False, True):
                check_one(run, ctx_s, m, 'codepoints')
        run.case_bulk(6, 6)
    run.count('special_codepoints', len(special))

    # ---- embedded contexts
    n_emb = 6000 if thorough else 700
    for i in range(n_emb):
        if not mine(i, shard):
            continue
        rng = sub_rng(run.seed, 'embedded', i)
        if i % 3 == 0:
            s = ''.join(rng.choice(ALPHABET) for _ in range(rng.randint(1, 6)))
        else:
            s = rand_text(rng, 24, hostile=0.8)
        others = (rand_text(rng, 6, hostile=0.7), rand_text(rng, 6, hostile=0.7))
        embedded(run, rng, s, others, 'embedded')
        neighbours(run, rng, s, 'neighbours')
        run.case(['emb', s, others], bool(ESC_CHARS.intersection(s)),
                 sample={'s': s, 'siblings': others} if i < 2 else None, tag='embedded')
    probe.report(run)
    probe.check_reached(run)
    run.require('exhaustive_strings_x_modes', 'chunked_deliveries', 'embedded_line', 'embedded_kv', 'embedded_vmf', 'embedded_bsp', 'embedded_dmx', 'neighbour_contexts',
                'strings_directly_after_a_directive', 'fresh_tokenizers_after_an_abandoned_one', 'multiline_texts_with_crlf', 'special_codepoints')


def replay(run, data) -> None:
    case = data.get('case') or {}
    if 'before' in case:
        neighbours(run, None, case['s'], 'replay', (case['before'], case['after'], case['options'], bool(case['multiline'])))
    elif 'siblings' in case:
        embedded(run, None, case['s'], tuple(case['siblings']), 'replay')
    else:
        check_one(run, case['s'], bool(case.get('multiline')), 'replay')
    run.case(case, True, sample=case, tag='replay')
    run.case('replay-pad', True)


# (kept at the end of the file so that the text above stays the description the check was first built to)
RULE += ' ' + 'Later additions: the *neighbours* engine (every other kind of token directly before and after the quoted string, with and without a gap, under six option sets); another tokenizer dropped with a pending look-ahead token before the fresh one is created.'
