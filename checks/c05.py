"""C05 Angle stays in [0,360), frozen values never change, text form is canonical.

Shape: random operation histories over a pool of live objects; after EVERY operation the invariants are
re-evaluated on the whole pool (quiescent point), and a sys.monitoring PY_RETURN probe range-checks every
Angle object returned by any function of srctools/math.py, including ones deep inside other calls.
"""
from __future__ import annotations

import copy
import math
import pickle
import re
import warnings
from typing import Any, Callable, Dict, List, Optional, Tuple

from rv.util import mine, sub_rng
from rv.probes import ReachProbe, ReturnProbe

PROP = 'C05'
LEVEL = 'exploration'
RULE = ('random operation histories (length<=40) over the public API of Vec/FrozenVec/Angle/FrozenAngle/Matrix/'
        'FrozenMatrix: every constructor form (floats, iterables, other objects, from_str, with_axes, from_basis, '
        'from_angle/pitch/yaw/roll, axis_angle), setters and __setitem__, += -= *= /= //= %= @=, transform() blocks, '
        'to_angle(), Vec.to_angle, rotate/localise, arithmetic, copy/copy.copy/deepcopy/pickle, freeze/thaw, '
        'str/join/from_str; start values include exact multiples of 360, +-1e-9..+-1e-17, 360-ulp, large magnitudes. '
        'A dedicated sub-workload feeds rotations within 1e-17..1e-12 of multiples of 360 through Matrix.to_angle, '
        'Angle @ Angle and Angle @= (the paths that write the angle slots directly). Invariants after every step: '
        '0 <= pitch,yaw,roll < 360 for every live or returned angle; every frozen object equals its first snapshot '
        '(components, hash, str); copies equal their source and are unaffected by mutating it; str()/join() components '
        'match -?\\d+(\\.\\d{1,6})? , are never -0 and parse back within 5e-7 (circular for angles). '
        'Non-trivial = history with >= 1 matrix->angle step or a frozen operand; distinct = distinct history.')
ASSUMPTIONS = ['Python implementation of srctools.math', 'finite float inputs only (property: "arbitrary finite float values")']
JOBS = {'quick': 2, 'thorough': 16}

NUM_RE = re.compile(r'^-?\d+(\.\d{1,6})?$')

SPECIAL = [0.0, -0.0, 360.0, -360.0, 720.0, 1080.0, 359.99999999999994, 360.00000000000006, -359.99999999999994,
           1e-9, -1e-9, 1e-12, -1e-12, 1e-14, -1e-14, 1e-15, -1e-15, 1e-17, -1e-17, 5e-7, -5e-7, 4.9e-7, -4.9e-7,
           90.0, 180.0, 270.0, -90.0, 45.0, 1e6, -1e6, 123456789.123, 1e15, -1e15, 0.1, -0.1, 1 / 3, 359.9999995, -0.0000004]


# the far ends of the float range: finite, but where x % 360 and floor(x / 360) * 360 stop agreeing
EXTREME = [1e17, -1e17, 1e18, -1e18, 6.02214076e23, -6.02214076e23, 2.0 ** 63, -2.0 ** 63, 1e100, -1e100, 1e300, -1e300,
           1.7976931348623157e308, -1.7976931348623157e308, 5e-324, -5e-324, 8.9e-322, -8.9e-322, 2.2250738585072014e-308,
           -2.2250738585072014e-308, 1e-300, -1e-300, 9007199254740993.0, -9007199254740993.0]


def ang_num(rng) -> float:
    """A number for an angle component: now and then from the far ends of the float range."""
    if rng.random() < 0.12:
        v = rng.choice(EXTREME)
        return v * rng.choice((1.0, 1.0, 3.0, 0.7)) if abs(v) < 1e300 else v
    return num(rng)


def num(rng) -> float:
    r = rng.random()
    if r < 0.45:
        return rng.choice(SPECIAL)
    if r < 0.6:
        return 360.0 * rng.randrange(-5, 6) + rng.choice((0.0, 1e-13, -1e-13, 1e-10, -1e-10, 3e-15, -3e-15))
    if r < 0.9:
        return rng.uniform(-720, 720)
    return rng.uniform(-1e5, 1e5)


class Violation(Exception):
    pass


class History:
    def __init__(self, run, rng, engine: str, case_id: int) -> None:
        import srctools.math as sm
        self.sm = sm
        self.run = run
        self.rng = rng
        self.engine = engine
        self.case_id = case_id
        self.pool: List[Any] = []
        self.frozen: List[Tuple[Any, Any]] = []  # (object, snapshot)
        self.frozen_ids: set = set()
        self.log: List[str] = []
        self.flags = {'mat2ang': False, 'frozen': False}
        self.bad = False
        # the shared direction constants (Vec.N, Vec.x_pos, ...) are frozen vectors every user of the library gets the same
        # object of: they are watched like any other frozen value, and take part as operands
        for cname in ('N', 'S', 'E', 'W', 'T', 'B', 'x_pos', 'y_neg', 'z_pos'):
            const = getattr(sm.Vec, cname, None)
            if isinstance(const, sm.FrozenVec):
                self.frozen_ids.add(id(const))
                self.frozen.append((const, self.snapshot(const)))
        if self.frozen and rng.random() < 0.5:
            self.pool.append(self.frozen[rng.randrange(len(self.frozen))][0])

    # ---------------------------------------------------------------- helpers
    def raw(self, o) -> Any:
        sm = self.sm
        if isinstance(o, sm.VecBase):
            return (o.x, o.y, o.z)
        if isinstance(o, sm.AngleBase):
            return (o.pitch, o.yaw, o.roll)
        return tuple(o[i, j] for i in range(3) for j in range(3))

    def snapshot(self, o) -> Any:
        sm = self.sm
        s = [type(o).__name__, self.raw(o)]
        if not isinstance(o, sm.MatrixBase):
            s.append(hash(o))
            s.append(str(o))
            s.append(tuple(o))
            if isinstance(o, sm.VecBase):
                s.append((o[0], o['y'], o[2]))
            else:
                s.append((o['pitch'], o[1], o['r']))
        else:
            # what a matrix lets one observe besides its entries: the values its methods derive from it (results that a
            # caller received earlier and edited in place must not come back)
            ang = o.to_angle()
            s.append((ang.pitch, ang.yaw, ang.roll))
            for meth in ('forward', 'left', 'up'):
                vec = getattr(o, meth)()
                s.append((vec.x, vec.y, vec.z))
            tr = o.transpose()
            s.append(tuple(tr[i, j] for i in range(3) for j in range(3)))
        return s

    def fail(self, what: str, key: str, witness: Any = None) -> None:
        if not self.run.is_known(key):
            self.bad = True  # a known finding must not cut the history short (it would hide later steps)
        self.run.violation(what, witness={'detail': witness, 'history': self.log[-12:]},
                           case={'id': self.case_id, 'engine': self.engine}, engine=self.engine, key=key)

    def add(self, o) -> None:
        sm = self.sm
        if o is None or isinstance(o, (float, int, str, tuple, bool)):
            return
        if isinstance(o, (sm.FrozenVec, sm.FrozenAngle, sm.FrozenMatrix)):
            self.flags['frozen'] = True
            if id(o) not in self.frozen_ids:
                self.frozen_ids.add(id(o))
                self.frozen.append((o, self.snapshot(o)))
        if isinstance(o, (sm.VecBase, sm.AngleBase, sm.MatrixBase)):
            if len(self.pool) < 14:
                self.pool.append(o)
            else:
                self.pool[self.rng.randrange(len(self.pool))] = o

    def pick(self, *types) -> Any:
        cands = [o for o in self.pool if isinstance(o, types)]
        if cands:
            return self.rng.choice(cands)
        return self.make(types[0])

    def make(self, t) -> Any:
        sm, rng = self.sm, self.rng
        if t in (sm.VecBase,):
            t = rng.choice((sm.Vec, sm.FrozenVec))
        if t in (sm.AngleBase,):
            t = rng.choice((sm.Angle, sm.FrozenAngle))
        if t in (sm.MatrixBase,):
            t = rng.choice((sm.Matrix, sm.FrozenMatrix))
        if t in (sm.Matrix, sm.FrozenMatrix):
            o = t.from_angle(num(rng), num(rng), num(rng))
        else:
            o = t(num(rng), num(rng), num(rng))
        self.add(o)
        return o

    # ---------------------------------------------------------------- invariants
    def check_angle(self, a, where: str) -> None:
        for name in ('pitch', 'yaw', 'roll'):
            v = getattr(a, name)
            if not (0.0 <= v < 360.0):
                key = 'angle-out-of-range'
                if v == 360.0:
                    key = 'angle-is-360'
                self.fail(f'{type(a).__name__}.{name} = {v!r} is outside [0, 360) ({where})', key, {'angle': self.raw(a)})
                return

    def check_text(self, o) -> None:
        sm = self.sm
        is_ang = isinstance(o, sm.AngleBase)
        vals = self.raw(o)
        if not all(abs(v) < 1e300 for v in vals):   # inf / nan have no decimal form
            return
        if any(abs(v) > 1e12 for v in vals):
            self.run.count('text_forms_of_large_magnitudes')
        for label, text, sep in (('str', str(o), ' '), ('join', o.join(', '), ', '), ('join;', o.join(';'), ';'),
                                 ('format', format(o, ''), ' '), ('f-string', f'{o}', ' ')):
            parts = text.split(sep)
            self.run.count('text_forms_checked')
            if len(parts) != 3:
                self.fail(f'{label}() gave {text!r}', 'text-shape')
                return
            for p, v in zip(parts, vals):
                if not NUM_RE.match(p):
                    self.fail(f'{label}() component {p!r} (value {v!r}) is not a plain decimal with <= 6 places', 'text-not-plain-decimal', {'text': text})
                    return
                if p.startswith('-') and float(p) == 0.0:
                    # mechanism: the known one is exactly "a negative value that rounds to zero keeps its sign"
                    key = 'format-float-minus-zero' if (p == '-0' and -5e-7 <= v < 0.0) else 'text-negative-zero-other'
                    self.fail(f'{label}() component {p!r} for value {v!r} is a negative zero', key, {'text': text})
                    if key != 'format-float-minus-zero':
                        return
                    continue
                d = abs(float(p) - v)
                if is_ang:
                    d = min(d, 360.0 - d)
                if d > 5e-7 + abs(v) * 1e-15:
                    self.fail(f'{label}() component {p!r} is {d:.3g} away from {v!r}', 'text-imprecise', {'text': text})
                    return
        # from_str(str(o)) parses back
        back = type(o).from_str(str(o), 7777.0, 7777.0, 7777.0)
        for b, v in zip(self.raw(back), vals):
            d = abs(b - v)
            if is_ang:
                d = min(d, 360.0 - d)
            if d > 5e-7 + abs(v) * 1e-15:
                self.fail(f'from_str(str(x)) is {d:.3g} away from x ({str(o)!r})', 'text-roundtrip', {'value': vals, 'back': self.raw(back)})
                return
        if is_ang:
            self.check_angle(back, 'from_str(str(x))')

    def invariants(self) -> None:
        sm = self.sm
        for o in self.pool:
            if isinstance(o, sm.AngleBase):
                self.check_angle(o, 'live object after ' + (self.log[-1] if self.log else 'start'))
        for o, snap in self.frozen:
            now = self.snapshot(o)
            if now != snap:
                self.fail(f'a {type(o).__name__} changed its observable value after {self.log[-1] if self.log else "start"}',
                          'frozen-mutated', {'before': snap, 'after': now})
                return
        self.run.count('invariant_evaluations')

    # ---------------------------------------------------------------- operations
    def step(self) -> None:
        sm, rng = self.sm, self.rng
        ops = self.OPS
        name = rng.choice(ops)
        try:
            getattr(self, 'op_' + name)()
        except (ZeroDivisionError, ArithmeticError, ValueError, OverflowError):
            self.log.append(name + ' -> arithmetic/value error (allowed)')
        self.invariants()

    OPS = ['ctor_vec', 'ctor_ang', 'ctor_mat', 'from_str', 'with_axes', 'set_vec', 'set_ang', 'iop_vec', 'imul_ang',
           'imatmul', 'matmul', 'transform_vec', 'transform_ang', 'to_angle', 'vec_to_angle', 'from_basis', 'arith',
           'copies', 'freeze_thaw', 'text', 'mat_ops', 'ang_mul', 'rotate_legacy', 'set_mat', 'tiny_rot', 'gimbal_cancel',
           'frozen_assign', 'identity_ops', 'multi_results']

    def op_multi_results(self):
        """Calls that hand out several vectors at once (bbox corners, grid and line points, divmod): every result is a new
        object, independent of the other results and of the arguments, whatever the number of points."""
        sm, rng = self.sm, self.rng
        cls = rng.choice((sm.Vec, sm.FrozenVec))
        how = rng.choice(('bbox', 'bbox', 'iter_grid', 'iter_line', 'divmod'))
        small = lambda: float(rng.randint(-3, 3))
        if how == 'bbox':
            pts = [rng.choice((sm.Vec, sm.FrozenVec))(num(rng), num(rng), num(rng)) for _ in range(rng.choice((1, 1, 2, 2, 3, 4)))]
            if rng.random() < 0.2:
                pts.append(pts[0])  # the same point object named twice
            form = rng.choice(('args', 'list', 'iter', 'tuple'))
            args = {'args': pts, 'list': [list(pts)], 'iter': [iter(pts)], 'tuple': [tuple(pts)]}[form]
            res = list(cls.bbox(*args))
            want = [tuple(min(p[i] for p in pts) for i in range(3)), tuple(max(p[i] for p in pts) for i in range(3))]
            if [self.raw(r) for r in res] != [tuple(w) for w in want] and not any(v != v for p in pts for v in self.raw(p)):
                self.fail(f'{cls.__name__}.bbox of {len(pts)} point(s) given as {form} is {[self.raw(r) for r in res]}', 'bbox-value',
                          {'points': [self.raw(p) for p in pts], 'want': want})
                return
            inputs = pts
            how = f'bbox({len(pts)} points as {form})'
        elif how == 'iter_grid':
            a = sm.Vec(small(), small(), small())
            b = a + (rng.randint(0, 2), rng.randint(0, 2), rng.randint(0, 1))
            stride = rng.choice((1, 1, 2))
            res = list(cls.iter_grid(a, b, stride))
            want_n = 1
            for i in range(3):
                want_n *= len(range(round(a[i]), round(b[i]) + 1, stride))
            if len(res) != want_n or self.raw(res[0]) != self.raw(a):
                self.fail(f'iter_grid({self.raw(a)}, {self.raw(b)}, {stride}) gave {len(res)} points starting at '
                          f'{self.raw(res[0]) if res else None}, expected {want_n}', 'grid-value')
                return
            if len({self.raw(r) for r in res}) != len(res):
                self.fail(f'iter_grid({self.raw(a)}, {self.raw(b)}, {stride}) yields the same position twice', 'grid-value',
                          {'points': [self.raw(r) for r in res]})
                return
            inputs = [a, b]
        elif how == 'iter_line':
            a = cls(small(), small(), small())
            b = rng.choice((sm.Vec, sm.FrozenVec))(*(a + rng.choice(((0, 0, 0), (0.5, 0, 0), (4, 0, 0), (0, -3, 0), (2, 2, 1)))))
            res = list(a.iter_line(b, rng.choice((1, 1, 2, 5))))
            if not res or self.raw(res[0]) != self.raw(a) or self.raw(res[-1]) != self.raw(b):
                self.fail(f'iter_line from {self.raw(a)} to {self.raw(b)} does not run from end to end: {[self.raw(r) for r in res]}',
                          'line-value')
                return
            inputs = [a, b]
        else:
            a = cls(num(rng), num(rng), num(rng))
            d = rng.choice((1.0, 2.0, 0.5, 3.25, -2.0))
            res = list(divmod(a, d))
            want = list(zip(*(divmod(v, d) for v in self.raw(a))))
            if [self.raw(r) for r in res] != [tuple(w) for w in want] and not any(v != v or abs(v) == float('inf') for v in self.raw(a)):
                self.fail(f'divmod({self.raw(a)}, {d}) is {[self.raw(r) for r in res]}', 'divmod-value', {'want': want})
                return
            inputs = [a]
        self.run.count('multi_result_calls_checked')
        for r in res:
            if type(r) is not cls:
                self.fail(f'{how} on {cls.__name__} returned a {type(r).__name__}', 'result-type')
                return
        if cls is sm.Vec:
            for i, r in enumerate(res):
                if any(r is q for q in res[:i]) or any(r is q for q in inputs):
                    self.fail(f'{how}: result {i} is the same object as another result or an argument', 'results-alias-each-other',
                              {'results': [self.raw(q) for q in res]})
                    return
            before_in = [self.raw(q) for q in inputs]
            for i, r in enumerate(res[:6]):
                others = [self.raw(q) for j, q in enumerate(res) if j != i]
                self.mutate(r)
                if [self.raw(q) for j, q in enumerate(res) if j != i] != others or [self.raw(q) for q in inputs] != before_in:
                    self.fail(f'{how}: editing result {i} in place changed another result or an argument', 'results-alias-each-other',
                              {'results': [self.raw(q) for q in res]})
                    return
        self.log.append(f'{how} on {cls.__name__}')
        for r in res[:2]:
            self.add(r)

    def op_identity_ops(self):
        """Operators with a neutral right operand (zero vector, factor 1, the zero rotation, the identity matrix - also spelled
        as multiples of 360): the result has the value of the left operand but is a NEW object when the left operand is mutable,
        so editing it leaves the operand alone.  Operands such as Angle(0, 0, 0) are falsy-but-valid inputs."""
        sm, rng = self.sm, self.rng
        x = self.pick(sm.Vec, sm.Angle, sm.Matrix)
        if not isinstance(x, (sm.Vec, sm.Angle, sm.Matrix)):
            x = self.make(rng.choice((sm.Vec, sm.Angle, sm.Matrix)))
        zero_ang = rng.choice((sm.Angle(), sm.FrozenAngle(), sm.Angle(0, 360, 720), sm.Angle.from_str('0 0 0'), sm.Matrix().to_angle()))
        ident_mat = rng.choice((sm.Matrix(), sm.FrozenMatrix(), sm.Matrix.from_angle(0, 360, 0)))
        if isinstance(x, sm.Vec):
            forms = [('+ zero vector', lambda: x + sm.Vec()), ('- zero vector', lambda: x - sm.FrozenVec()), ('* 1', lambda: x * 1),
                     ('* 1.0', lambda: 1.0 * x), ('/ 1', lambda: x / 1), ('@ zero angle', lambda: x @ zero_ang),
                     ('@ identity matrix', lambda: x @ ident_mat), ('+ (0,0,0)', lambda: x + (0.0, 0.0, 0.0)), ('unary +', lambda: +x)]
            # ... and the methods whose answer has the value of the vector they were asked of: clamping to bounds it is inside
            # of already (every argument form), rounding whole numbers, abs() of non-negative components, normalising a unit vector
            lo, hi = sm.Vec(-1e300, -1e300, -1e300), sm.FrozenVec(1e300, 1e300, 1e300)
            forms += [('.clamped(lo, hi) inside the bounds', lambda: x.clamped(lo, hi)), ('.clamped(mins=lo)', lambda: x.clamped(mins=lo)),
                      ('.clamped(maxs=hi)', lambda: x.clamped(maxs=hi)), ('.clamped(mins=x, maxs=x)', lambda: x.clamped(mins=x, maxs=x)),
                      ('.clamped(tuple bounds)', lambda: x.clamped((-1e300,) * 3, (1e300,) * 3))]
            if all(c == int(c) for c in self.raw(x) if abs(c) < 1e15):
                forms.append(('round()', lambda: round(x, 3)))
            if all(c >= 0 for c in self.raw(x)):
                forms.append(('abs()', lambda: abs(x)))
            if self.raw(x) in ((1.0, 0.0, 0.0), (0.0, 1.0, 0.0), (0.0, 0.0, -1.0)):
                forms.append(('.norm() of a unit vector', lambda: x.norm()))
        elif isinstance(x, sm.Angle):
            forms = [('@ zero angle', lambda: x @ zero_ang), ('@ identity matrix', lambda: x @ ident_mat), ('* 1', lambda: x * 1), ('* 1.0', lambda: 1.0 * x)]
        else:
            forms = [('@ zero angle', lambda: x @ zero_ang), ('@ identity matrix', lambda: x @ ident_mat)]
        label, fn = rng.choice(forms)
        before = self.raw(x)
        try:
            res = fn()
        except TypeError:
            return  # the form does not exist for this class
        self.run.count('neutral_operand_results')
        if type(res) is not type(x):
            return
        if res is x:
            self.fail(f'{type(x).__name__} {label} returned its left operand itself instead of a new object', 'operator-returns-operand')
            return
        self.mutate(res)
        if self.raw(x) != before:
            self.fail(f'editing the result of {type(x).__name__} {label} changed the operand', 'operator-returns-operand',
                      {'before': before, 'after': self.raw(x)})
        self.log.append(f'{type(x).__name__} {label} -> new object')
        self.add(res)

    def op_frozen_assign(self):
        """Every way of writing to a frozen object.  Whether the attempt raises is not this property's business
        ("no operation ever changes the observable value"): the invariant after the step decides."""
        sm, rng = self.sm, self.rng
        o = self.pick(sm.FrozenVec, sm.FrozenAngle, sm.FrozenMatrix)
        if not isinstance(o, (sm.FrozenVec, sm.FrozenAngle, sm.FrozenMatrix)):
            o = self.make(rng.choice((sm.FrozenVec, sm.FrozenAngle, sm.FrozenMatrix)))
        val = num(rng)
        if isinstance(o, sm.FrozenVec):
            names, idx = ('x', 'y', 'z'), (0, 1, 2, 'x', 'y', 'z')
        elif isinstance(o, sm.FrozenAngle):
            names, idx = ('pitch', 'yaw', 'roll'), (0, 1, 2, 'p', 'y', 'r', 'pitch', 'yaw', 'roll')
        else:
            names, idx = (), ((0, 0), (1, 2), (2, 2))
        how = rng.randrange(4)
        outcome = 'accepted'
        try:
            if how == 0 and names:
                setattr(o, rng.choice(names), val)
            elif how == 1:
                o[rng.choice(idx)] = val
            elif how == 2 and names:
                delattr(o, rng.choice(names))
            else:
                o.__init__(val, val, val) if names else o.__init__()  # running the initialiser again on a live object
        except Exception as exc:
            outcome = type(exc).__name__
        self.run.count('frozen_write_attempts')
        self.log.append(f'write attempt #{how} on a {type(o).__name__} -> {outcome}')

    def op_ctor_vec(self):
        sm, rng = self.sm, self.rng
        cls = rng.choice((sm.Vec, sm.FrozenVec))
        form = rng.randrange(5)
        if form == 0:
            o = cls(num(rng), num(rng), num(rng))
        elif form == 1:
            o = cls([num(rng), num(rng)][:rng.randint(0, 2)] + [])
        elif form == 2:
            o = cls(self.pick(sm.VecBase))
        elif form == 3:
            o = cls(x=num(rng), z=num(rng))
        else:
            o = cls(iter((num(rng), num(rng), num(rng))))
        self.log.append(f'{cls.__name__} ctor form {form} -> {self.raw(o)}')
        self.add(o)

    def op_ctor_ang(self):
        sm, rng = self.sm, self.rng
        cls = rng.choice((sm.Angle, sm.FrozenAngle))
        form = rng.randrange(6)
        if form == 0:
            o = cls(ang_num(rng), ang_num(rng), ang_num(rng))
        elif form == 1:
            o = cls([ang_num(rng), num(rng), ang_num(rng)][:rng.randint(0, 3)])
        elif form == 2:
            o = cls(self.pick(sm.AngleBase))
        elif form == 3:
            o = cls(pitch=ang_num(rng), roll=ang_num(rng))
        elif form == 4:
            o = cls(self.pick(sm.VecBase))
        else:
            o = cls(int(num(rng)), int(num(rng)), True)
        self.log.append(f'{cls.__name__} ctor form {form} -> {self.raw(o)}')
        self.add(o)

    def op_ctor_mat(self):
        sm, rng = self.sm, self.rng
        cls = rng.choice((sm.Matrix, sm.FrozenMatrix))
        form = rng.randrange(6)
        if form == 0:
            o = cls.from_angle(num(rng), num(rng), num(rng))
        elif form == 1:
            o = cls.from_angle(self.pick(sm.AngleBase))
        elif form == 2:
            o = rng.choice((cls.from_pitch, cls.from_yaw, cls.from_roll))(num(rng))
        elif form == 3:
            o = cls(self.pick(sm.MatrixBase))
        elif form == 4:
            o = cls.axis_angle(sm.Vec(rng.uniform(-1, 1), rng.uniform(-1, 1), rng.uniform(0.1, 1)), num(rng))
        else:
            o = cls.from_angstr(str(self.pick(sm.AngleBase)))
        self.log.append(f'{cls.__name__} ctor form {form}')
        self.add(o)

    def op_from_str(self):
        sm, rng = self.sm, self.rng
        cls = rng.choice((sm.Vec, sm.FrozenVec, sm.Angle, sm.FrozenAngle))
        vals = (num(rng), num(rng), num(rng))
        text = rng.choice(('{} {} {}', '({} {} {})', '[{} {} {}]', '<{} {} {}>', ' {}  {} {} ')).format(*[repr(v) for v in vals])
        o = cls.from_str(text)
        self.log.append(f'{cls.__name__}.from_str({text!r}) -> {self.raw(o)}')
        self.add(o)

    def op_with_axes(self):
        sm, rng = self.sm, self.rng
        if rng.random() < 0.5:
            cls = rng.choice((sm.Angle, sm.FrozenAngle))
            axes = rng.sample(['pitch', 'yaw', 'roll'], rng.randint(1, 3))
            src = self.pick(sm.AngleBase)
        else:
            cls = rng.choice((sm.Vec, sm.FrozenVec))
            axes = rng.sample(['x', 'y', 'z'], rng.randint(1, 3))
            src = self.pick(sm.VecBase)
        args: List[Any] = []
        for ax in axes:
            args += [ax, src if rng.random() < 0.3 else num(rng)]
        o = cls.with_axes(*args)
        self.log.append(f'{cls.__name__}.with_axes({axes}) -> {self.raw(o)}')
        self.add(o)

    def op_set_vec(self):
        sm, rng = self.sm, self.rng
        v = self.pick(sm.Vec)
        if not isinstance(v, sm.Vec):
            return
        val = num(rng)
        how = rng.randrange(3)
        if how == 0:
            setattr(v, rng.choice('xyz'), val)
        elif how == 1:
            v[rng.choice((0, 1, 2, 'x', 'y', 'z'))] = val
        else:
            (v.max if rng.random() < 0.5 else v.min)(self.pick(sm.VecBase))
        self.log.append(f'Vec set ({how}) {val!r} -> {self.raw(v)}')

    def op_set_ang(self):
        sm, rng = self.sm, self.rng
        a = self.pick(sm.Angle)
        if not isinstance(a, sm.Angle):
            return
        val = ang_num(rng)
        if abs(val) > 1e16 or 0 < abs(val) < 1e-290:
            self.run.count('angle_components_set_from_the_far_ends_of_the_float_range')
        if rng.random() < 0.5:
            setattr(a, rng.choice(('pitch', 'yaw', 'roll')), val)
        else:
            a[rng.choice((0, 1, 2, 'p', 'y', 'r', 'pit', 'yaw', 'rol', 'pitch', 'roll'))] = val if rng.random() < 0.8 else int(val)
        self.log.append(f'Angle set {val!r} -> {self.raw(a)}')

    def op_iop_vec(self):
        sm, rng = self.sm, self.rng
        v = self.pick(sm.VecBase)
        before = self.raw(v)
        v0 = v
        op = rng.choice(('+=', '-=', '*=', '/=', '//=', '%='))
        other: Any
        if op in ('+=', '-='):
            other = rng.choice((self.pick(sm.VecBase), (num(rng), num(rng), num(rng)), num(rng)))
        else:
            other = num(rng) or 1.0
        if op == '+=':
            v += other
        elif op == '-=':
            v -= other
        elif op == '*=':
            v *= other
        elif op == '/=':
            v /= other
        elif op == '//=':
            v //= other
        else:
            v %= other
        if isinstance(v0, sm.Vec) and v is not v0:
            self.fail(f'Vec {op} did not operate in place', 'inplace-op-rebinds')
        self.log.append(f'{type(v0).__name__} {op} {other if not hasattr(other, "x") else self.raw(other)} : {before} -> {self.raw(v)}')
        self.add(v)

    def op_imul_ang(self):
        sm, rng = self.sm, self.rng
        a = self.pick(sm.AngleBase)
        a0 = a
        k = rng.choice((num(rng), 2, -1, 0.5, -1e-15, 1e-15, 360, 1 / 360))
        a *= k
        if isinstance(a0, sm.Angle) and a is not a0:
            self.fail('Angle *= did not operate in place', 'inplace-op-rebinds')
        self.log.append(f'{type(a0).__name__} *= {k!r} -> {self.raw(a)}')
        self.add(a)

    def op_imatmul(self):
        sm, rng = self.sm, self.rng
        left = self.pick(sm.VecBase, sm.AngleBase, sm.MatrixBase)
        right = self.pick(sm.AngleBase, sm.MatrixBase)
        l0 = left
        left @= right
        if isinstance(l0, sm.AngleBase) or isinstance(left, sm.AngleBase):
            self.flags['mat2ang'] = True
        self.log.append(f'{type(l0).__name__} @= {type(right).__name__} -> {type(left).__name__}{self.raw(left) if not isinstance(left, sm.MatrixBase) else ""}')
        self.add(left)

    def op_matmul(self):
        sm, rng = self.sm, self.rng
        left = rng.choice((self.pick(sm.VecBase), self.pick(sm.AngleBase), self.pick(sm.MatrixBase), (num(rng), num(rng), num(rng))))
        right = self.pick(sm.AngleBase, sm.MatrixBase)
        res = left @ right
        if isinstance(res, sm.AngleBase):
            self.flags['mat2ang'] = True
        self.log.append(f'{type(left).__name__} @ {type(right).__name__} -> {type(res).__name__}{self.raw(res) if not isinstance(res, sm.MatrixBase) else ""}')
        self.add(res)

    def op_transform_vec(self):
        sm, rng = self.sm, self.rng
        v = self.pick(sm.Vec)
        if not isinstance(v, sm.Vec):
            return
        with v.transform() as mat:
            mat @= self.pick(sm.AngleBase, sm.MatrixBase)
        self.log.append(f'Vec.transform() -> {self.raw(v)}')

    def op_transform_ang(self):
        sm, rng = self.sm, self.rng
        a = self.pick(sm.Angle)
        if not isinstance(a, sm.Angle):
            return
        with a.transform() as mat:
            for _ in range(rng.randint(0, 2)):
                mat @= self.pick(sm.AngleBase, sm.MatrixBase)
        self.flags['mat2ang'] = True
        self.log.append(f'Angle.transform() -> {self.raw(a)}')

    def op_to_angle(self):
        sm, rng = self.sm, self.rng
        m = self.pick(sm.MatrixBase)
        a = m.to_angle()
        self.flags['mat2ang'] = True
        self.log.append(f'{type(m).__name__}.to_angle() -> {self.raw(a)}')
        self.add(a)
        if rng.random() < 0.6:
            # the caller owns what it was handed: editing it (and the direction vectors) is nothing the matrix may notice
            self.mutate(a)
            for meth in ('forward', 'left', 'up'):
                vec = getattr(m, meth)()
                if isinstance(vec, sm.Vec):
                    self.mutate(vec)
            self.log[-1] += ', result edited in place'

    def op_vec_to_angle(self):
        sm, rng = self.sm, self.rng
        v = self.pick(sm.VecBase)
        a = v.to_angle(num(rng))
        self.log.append(f'{type(v).__name__}{self.raw(v)}.to_angle() -> {self.raw(a)}')
        self.add(a)

    def op_from_basis(self):
        sm, rng = self.sm, self.rng
        m = self.pick(sm.MatrixBase)
        cls = rng.choice((sm.Angle, sm.FrozenAngle))
        kw = rng.choice(({'x': m.forward(), 'y': m.left()}, {'y': m.left(), 'z': m.up()}, {'x': m.forward(), 'z': m.up()},
                         {'x': m.forward(), 'y': m.left(), 'z': m.up()}))
        a = cls.from_basis(**kw)
        self.flags['mat2ang'] = True
        self.log.append(f'{cls.__name__}.from_basis({sorted(kw)}) -> {self.raw(a)}')
        self.add(a)

    def op_arith(self):
        sm, rng = self.sm, self.rng
        v = self.pick(sm.VecBase)
        w = self.pick(sm.VecBase)
        before = (self.raw(v), self.raw(w))
        k = num(rng) or 2.0
        res = rng.choice((lambda: v + w, lambda: v - w, lambda: v * k, lambda: k * v, lambda: v / k, lambda: -v,
                          lambda: abs(v), lambda: v.cross(w), lambda: v.norm(), lambda: round(v, 3), lambda: v % k,
                          lambda: (1.0, 2.0, 3.0) + v, lambda: 5 - v, lambda: v // k, lambda: v.norm_mask(sm.Vec(0, 0, 1)),
                          lambda: divmod(v, k)[0], lambda: v.clamped(mins=w), lambda: sm.Vec.lerp(0.3, 0, 1, v, w)))()
        if (self.raw(v), self.raw(w)) != before:
            self.fail('vector arithmetic changed an operand', 'arith-mutates-operand', {'before': before, 'after': (self.raw(v), self.raw(w))})
        if type(res) is not type(v) and not isinstance(res, sm.VecBase):
            return
        self.log.append(f'arith on {type(v).__name__} -> {type(res).__name__}')
        self.add(res)

    def op_ang_mul(self):
        sm, rng = self.sm, self.rng
        a = self.pick(sm.AngleBase)
        before = self.raw(a)
        k = rng.choice((num(rng), -1, 2, 1e-16, -1e-16))
        res = a * k if rng.random() < 0.5 else k * a
        if self.raw(a) != before:
            self.fail('Angle * k changed its operand', 'arith-mutates-operand')
        if type(res) is not type(a):
            self.fail(f'{type(a).__name__} * k returned {type(res).__name__}', 'arith-result-type')
        self.log.append(f'{type(a).__name__}{before} * {k!r} -> {self.raw(res)}')
        self.add(res)

    def op_copies(self):
        sm, rng = self.sm, self.rng
        o = self.pick(sm.VecBase, sm.AngleBase, sm.MatrixBase)
        how = rng.choice(('copy', 'copy.copy', 'deepcopy', 'pickle', 'ctor', 'from_str'))
        if how == 'from_str' and isinstance(o, sm.MatrixBase):
            how = 'ctor'
        if how == 'from_str':
            c = type(o).from_str(o)  # documented: "If the value is already a vector/Angle, a copy will be returned"
        elif how == 'copy':
            c = o.copy()
        elif how == 'copy.copy':
            c = copy.copy(o)
        elif how == 'deepcopy':
            c = copy.deepcopy([o, o])[1]
        elif how == 'pickle':
            c = pickle.loads(pickle.dumps(o, rng.choice((2, 4, 5))))
        else:
            c = type(o)(o)
        self.run.count('copies_checked')
        if type(c) is not type(o) or self.raw(c) != self.raw(o):
            self.fail(f'{how} of a {type(o).__name__} is not equal to its source', 'copy-not-equal',
                      {'source': self.raw(o), 'copy': self.raw(c), 'type': type(c).__name__})
            return
        if not self.lib_equal(c, o, how):
            return
        mutable = isinstance(o, (sm.Vec, sm.Angle, sm.Matrix))
        if mutable:
            if c is o:
                self.fail(f'{how} of a mutable {type(o).__name__} returned the same object', 'copy-aliases-source')
                return
            before = self.raw(o)
            self.mutate(c)
            if self.raw(o) != before:
                self.fail(f'mutating a {how} changed the source', 'copy-aliases-source', {'before': before, 'after': self.raw(o)})
        self.log.append(f'{how} of {type(o).__name__}')
        self.add(c)

    def lib_equal(self, c, o, how: str) -> bool:
        """"equal to its source" as the library itself answers it: ==, != in both directions, and hash() where there is one."""
        import math as _m
        if any(_m.isnan(v) for v in self.raw(o)):
            return True
        self.run.count('library_equality_evaluations')
        eq = (c == o, o == c, c != o, o != c)
        if eq != (True, True, False, False):
            self.fail(f'{how} of a {type(o).__name__}: (c == o, o == c, c != o, o != c) is {eq}', 'copy-not-equal',
                      {'source': self.raw(o), 'copy': self.raw(c)})
            return False
        if type(c) is type(o):
            try:
                ho = hash(o)
            except TypeError:
                return True
            if hash(c) != ho:
                self.fail(f'{how} of a {type(o).__name__} is equal to its source but hashes differently', 'copy-not-equal',
                          {'source': self.raw(o), 'copy': self.raw(c)})
                return False
        return True

    def mutate(self, o) -> None:
        sm, rng = self.sm, self.rng
        if isinstance(o, sm.Vec):
            o.x += 1.5
            o *= 2
        elif isinstance(o, sm.Angle):
            o.yaw += 33.0
            o @= sm.Angle(10, 20, 30)
        elif isinstance(o, sm.Matrix):
            o @= sm.Matrix.from_yaw(17)
            o[0, 1] = o[0, 1] + 0.25

    def op_freeze_thaw(self):
        sm, rng = self.sm, self.rng
        o = self.pick(sm.VecBase, sm.AngleBase, sm.MatrixBase)
        mutable = isinstance(o, (sm.Vec, sm.Angle, sm.Matrix))
        if mutable:
            f = o.freeze()
            want = {sm.Vec: sm.FrozenVec, sm.Angle: sm.FrozenAngle, sm.Matrix: sm.FrozenMatrix}[type(o)]
        else:
            f = o.thaw()
            want = {sm.FrozenVec: sm.Vec, sm.FrozenAngle: sm.Angle, sm.FrozenMatrix: sm.Matrix}[type(o)]
        self.run.count('freeze_thaw_checked')
        if type(f) is not want or self.raw(f) != self.raw(o):
            self.fail(f'{"freeze" if mutable else "thaw"}() of {type(o).__name__} is not equal to its source', 'copy-not-equal',
                      {'source': self.raw(o), 'result': self.raw(f)})
            return
        if not self.lib_equal(f, o, 'freeze' if mutable else 'thaw'):
            return
        self.add(f)
        # independence: mutate the mutable side, the other must not move
        frozen_side, mutable_side = (f, o) if mutable else (o, f)
        before = self.raw(frozen_side)
        self.mutate(mutable_side)
        if self.raw(frozen_side) != before:
            self.fail('mutating the mutable twin changed the frozen twin', 'copy-aliases-source')
        self.log.append(f'{"freeze" if mutable else "thaw"} {type(o).__name__}')

    def op_text(self):
        sm = self.sm
        o = self.pick(sm.VecBase, sm.AngleBase)
        self.log.append(f'text of {type(o).__name__}{self.raw(o)}')
        self.check_text(o)

    def op_mat_ops(self):
        sm, rng = self.sm, self.rng
        m = self.pick(sm.MatrixBase)
        before = self.raw(m)
        res = rng.choice((m.transpose, m.inverse, m.copy, lambda: m @ self.pick(sm.AngleBase, sm.MatrixBase),
                          lambda: m.forward(num(rng)), lambda: m.up(), lambda: m.left()))()
        if self.raw(m) != before:
            self.fail('a non-mutating matrix method changed the matrix', 'arith-mutates-operand', {'before': before, 'after': self.raw(m)})
        self.log.append(f'{type(m).__name__} op -> {type(res).__name__}')
        self.add(res)

    def op_rotate_legacy(self):
        sm, rng = self.sm, self.rng
        v = self.pick(sm.Vec)
        if not isinstance(v, sm.Vec):
            return
        with warnings.catch_warnings():
            warnings.simplefilter('ignore')
            how = rng.randrange(3)
            if how == 0:
                v.rotate(num(rng), num(rng), num(rng), round_vals=rng.random() < 0.5)
            elif how == 1:
                v.rotate_by_str(str(self.pick(sm.AngleBase)))
            else:
                v.localise(self.pick(sm.VecBase), rng.choice((None, self.pick(sm.AngleBase), self.pick(sm.MatrixBase))))
        self.log.append(f'Vec legacy rotate {how} -> {self.raw(v)}')

    def op_set_mat(self):
        sm, rng = self.sm, self.rng
        m = self.pick(sm.Matrix)
        if not isinstance(m, sm.Matrix):
            return
        m[rng.randrange(3), rng.randrange(3)] = rng.uniform(-1, 1)
        self.log.append('Matrix[i, j] = v')

    def op_tiny_rot(self):
        """Rotations within 1e-17..1e-12 of multiples of 360 through the paths that write angle slots directly."""
        sm, rng = self.sm, self.rng
        eps = rng.choice((1e-12, -1e-12, 1e-13, -1e-13, 1e-14, -1e-14, 1e-15, -1e-15, 1e-16, -1e-16, 1e-17, -1e-17, 5e-14, -5e-14))
        base = 360.0 * rng.randrange(-2, 3)
        axis = rng.choice(('pitch', 'yaw', 'roll'))
        m = {'pitch': sm.Matrix.from_pitch, 'yaw': sm.Matrix.from_yaw, 'roll': sm.Matrix.from_roll}[axis](base + eps)
        how = rng.randrange(5)
        self.flags['mat2ang'] = True
        if how == 0:
            res = m.to_angle()
        elif how == 1:
            res = rng.choice((sm.Angle, sm.FrozenAngle))() @ m
        elif how == 2:
            res = sm.Angle()
            res @= m
        elif how == 3:
            a = rng.choice((sm.Angle, sm.FrozenAngle))(**{axis: base})
            res = a @ sm.Angle(**{axis: eps})
        else:
            res = sm.Angle()
            with res.transform() as t:
                t @= m
        self.log.append(f'tiny rotation {axis}={base}+{eps} via path {how} -> {self.raw(res)}')
        self.add(res)


    def op_gimbal_cancel(self):
        """Straight-up/down orientations whose yaw (or remaining angle) cancels to float noise around zero:
        the gimbal branch of the matrix->angle conversion sees tiny negative values only along such compositions."""
        sm, rng = self.sm, self.rng
        pitch = rng.choice((90.0, 270.0, -90.0, 90.0 + rng.choice((0.0, 1e-9, -1e-9, 1e-5, -1e-5))))
        y = rng.choice((45.0, 90.0, 30.0, 123.456, 270.0, rng.uniform(0, 360)))
        r = rng.choice((0.0, 0.0, 10.0, rng.uniform(0, 360)))
        a = rng.choice((sm.Angle, sm.FrozenAngle))(pitch, y, r)
        how = rng.randrange(6)
        self.flags['mat2ang'] = True
        if how == 0:
            res = a @ sm.Angle(0, -y, 0)
        elif how == 1:
            res = a @ sm.Matrix.from_yaw(360.0 - y)
        elif how == 2:
            res = sm.Angle(pitch, y, r)
            res @= sm.FrozenMatrix.from_yaw(-y)
        elif how == 3:
            m = sm.Matrix.from_angle(a)
            m @= sm.Matrix.from_yaw(-y)
            res = m.to_angle()
        elif how == 4:
            m = sm.Matrix.from_angle(a) @ sm.Matrix.from_yaw(-y)
            res = sm.Angle.from_basis(x=m.forward(), y=m.left())
        else:
            res = sm.Angle(pitch, y, r)
            with res.transform() as t:
                t @= sm.Angle(0, -y, 0)
        self.log.append(f'gimbal cancel pitch={pitch} yaw={y} roll={r} via path {how} -> {self.raw(res)}')
        self.add(res)


def run_history(run, seed: int, engine: str, i: int, length: int) -> None:
    rng = sub_rng(seed, engine, i)
    h = History(run, rng, engine, i)
    for _ in range(rng.randint(2, 4)):
        h.make(rng.choice((h.sm.VecBase, h.sm.AngleBase, h.sm.MatrixBase)))
    for _ in range(length):
        h.step()
        if h.bad:
            break
    for o in h.pool:
        if isinstance(o, (h.sm.VecBase, h.sm.AngleBase)) and not h.bad:
            h.check_text(o)
    run.count('history_steps', len(h.log))
    run.case([engine, i, h.log], h.flags['mat2ang'] or h.flags['frozen'],
             sample={'history': h.log[:10]} if i < 2 else None, tag=engine)


def main(run, shard=(0, 1)) -> None:
    import srctools.math as sm
    reach = ReachProbe({
        'MatrixBase._to_angle': (sm, 'MatrixBase._to_angle'), 'format_float': (sm, 'format_float'),
        'parse_vec_str': (sm, 'parse_vec_str'), 'Angle.__init__': (sm, 'Angle.__init__'),
        'FrozenAngle.__new__': (sm, 'FrozenAngle.__new__'), 'Angle.__imatmul__': (sm, 'Angle.__imatmul__'),
        'Angle.transform': (sm, 'Angle.transform'), 'FrozenVec.copy': (sm, 'FrozenVec.copy'),
    })
    reach.start()
    bad_returns: List[Tuple[str, Tuple[float, float, float]]] = []

    def on_angle(a, code) -> None:
        p, y, r = getattr(a, '_pitch', None), getattr(a, '_yaw', None), getattr(a, '_roll', None)
        if p is None or y is None or r is None:
            # roll is set (so the constructor finished with this object) but another component never was
            if len(bad_returns) < 20:
                bad_returns.append((code.co_qualname, (p, y, r)))
            return
        if not (0.0 <= p < 360.0 and 0.0 <= y < 360.0 and 0.0 <= r < 360.0):
            if len(bad_returns) < 20:
                bad_returns.append((code.co_qualname, (p, y, r)))

    def attr_ok(a) -> bool:
        return hasattr(a, '_roll')

    probe = ReturnProbe(sm, (sm.AngleBase,), lambda a, code: on_angle(a, code) if attr_ok(a) else None)
    probe.start()
    n = 400000 if run.tier == "thorough" else 1500
    for i in range(n):
        if mine(i, shard):
            run_history(run, run.seed, 'history', i, 40)
            if bad_returns:
                for qual, vals in bad_returns:
                    key = 'angle-component-unset' if None in vals else 'angle-is-360' if 360.0 in vals else 'angle-out-of-range'
                    run.violation(f'{qual} returned an angle outside [0, 360): {vals}', case={'id': i, 'engine': 'history'},
                                  engine='return-probe', key=key)
                bad_returns.clear()
    probe.stop()
    run.count('angles_seen_by_return_probe', probe.seen)
    run.extra['return_probe_code_objects'] = len(probe.codes)
    reach.report(run)
    reach.check_reached(run)
    if shard[0] == 0:
        # the repository's own tests as an additional workload, with runtime contracts attached (rv/contracts.py)
        from rv.repo_tests_engine import run_repo_tests_with_contracts
        run_repo_tests_with_contracts(run, 'C05', ['test_angles.py', 'test_matrix.py', 'test_rotations.py', 'test_vec.py', 'test_instancing.py', 'test_vmf.py'] if run.tier == 'thorough' else ['test_angles.py', 'test_instancing.py'])
    run.require('invariant_evaluations', 'angles_seen_by_return_probe', 'text_forms_checked', 'text_forms_of_large_magnitudes', 'library_equality_evaluations', 'copies_checked', 'freeze_thaw_checked')


def replay(run, data) -> None:
    case = data['case']
    run_history(run, run.seed, case.get('engine', 'history') if case.get('engine') != 'return-probe' else 'history', int(case['id']), 40)
    run.case('pad', True)
    run.case('pad2', True)


# (kept at the end of the file so that the text above stays the description the check was first built to)
RULE += ' ' + 'Later additions: library ==, != (both directions) and hash() on every copy / freeze / thaw; text forms also through format() and f-strings and for magnitudes above 1e12. Calls that hand out several vectors at once (bbox corners for 1-4 points in every delivery form, iter_grid, iter_line, divmod) give results that are new objects, independent of one another and of the arguments, with the values of a direct min/max/divmod model. Angle components are also constructed and assigned (attribute and item form) from the far ends of the float range: 1e17 .. 1.8e308 and the denormals. Methods whose answer has the value of the vector they were asked of (clamped() inside the bounds in every argument form, round(), abs(), norm() of a unit vector) return a new object.'
