"""C03 Tokenizing is total and independent of how the input is chunked.

Monitors: (a) exception type, (b) EOF stickiness, (c) logical step count (_next_char calls) against a linear
bound, (d) trace equality between the single-string delivery (reference) and every other delivery.
"""
from __future__ import annotations

import io
import tempfile
import itertools
from typing import Any, Dict, List, Optional, Tuple

from rv.util import mine, sub_rng, random_chunks

PROP = 'C03'
LEVEL = 'exploration'
RULE = ('exhaustive core: every string of length <= L over the 16-symbol syntax alphabet '
        '[" \\ / * CR LF { [ ] ( ) # a SPACE : +] x all 2^7 boolean tokenizer options (L=3 quick, '
        'L=4 thorough) x ALL 2^(n-1) chunkings, plus '
        'delivery as lines, as a file object and with interleaved empty chunks; focused cores: six small construct-specific alphabets (comments, strings/escapes, CR-LF/brackets, parens, '
        'directives) with strings up to length 5-6 (quick) / 6-8 (thorough) and all chunkings (all 1- and 2-cut chunkings '
        'beyond length 6); random: documents assembled from '
        'KV1/FGD/VMT fragments then mutated, random options, EVERY single cut position plus 12-50 random chunkings each (splits inside CR-LF, escapes, '
        '//, */); Keyvalues.parse on the same documents plus flag-bearing KV1 under all its boolean options. '
        'Non-trivial = the delivery has >= 2 chunks with a cut inside a multi-character construct (CRLF, escape, //, '
        '/*, */, quoted string, bare word); distinct = distinct (text, options).')
ASSUMPTIONS = ['Python tokenizer', 'chunks are str (bytes chunks are a documented ValueError and not "text")',
               'linear bound used: _next_char calls <= 3*len(text) + 3*tokens + 16']
JOBS = {'quick': 4, 'thorough': 16}

ALPHABET = ['"', '\\', '/', '*', '\r', '\n', '{', '[', ']', '(', ')', '#', 'a', ' ', ':', '+']
OPT_NAMES = ['string_bracket', 'string_parens', 'allow_escapes', 'allow_star_comments',
             'preserve_comments', 'colon_operator', 'plus_operator']
ALL_OPTS = [dict(zip(OPT_NAMES, bits)) for bits in itertools.product((False, True), repeat=7)]

_Counting = None


def counting_cls():
    global _Counting
    if _Counting is None:
        from srctools.tokenizer import Tokenizer

        class Counting(Tokenizer):
            """The real Tokenizer; _next_char is only wrapped to count logical steps."""
            steps = 0

            def _next_char(self):
                self.steps += 1
                return super()._next_char()
        _Counting = Counting
    return _Counting


_CALLS = [0]


def trace(data: Any, opts: Dict[str, bool], n_hint: int, counting: bool = False) -> Tuple[list, int]:
    """Token trace of one delivery: [(token, value, line_num)...] ending in EOF x4 or an error record."""
    from srctools.tokenizer import Tokenizer, Token, TokenSyntaxError
    cls = counting_cls() if counting else Tokenizer
    out: list = []
    eof = Token.EOF
    limit = n_hint + 8
    tok = None
    _CALLS[0] += 1
    if _CALLS[0] % 3 == 0:
        # an unrelated tokenizer object dropped with a pending look-ahead token just before: the trace below must not see it
        try:
            stray = Tokenizer('{ x }')
            stray.push_back(*stray())
            del stray
        except Exception:
            pass
    try:
        tok = cls(data, **opts)
        for _ in range(limit):
            t, v = tok()
            out.append((t, v, tok.line_num))
            if t is eof:
                break
        else:
            out.append(('NO-EOF', 'token count exceeded len+8', 0))
            return out, getattr(tok, 'steps', 0)
        for _ in range(3):
            t, v = tok()
            out.append((t, v, tok.line_num))
    except TokenSyntaxError as exc:
        out.append(('ERR', type(exc).__name__, str(exc.mess), exc.line_num))
    except Exception as exc:  # anything else refutes totality
        out.append(('BAD-EXC', type(exc).__name__, str(exc)))
    return out, getattr(tok, 'steps', 0)


def lookahead_trace(data: Any, opts: Dict[str, bool], n_hint: int) -> list:
    """The same token stream read through the look-ahead interface: peek() before every token, and every third token
    pushed back and read again.  Returns [(token, value)...] (line numbers are not compared: looking ahead moves them)."""
    from srctools.tokenizer import Tokenizer, Token, TokenSyntaxError
    out: list = []
    try:
        tok = Tokenizer(data, **opts)
        for k in range(n_hint + 8):
            p = tok.peek()
            t = tok()
            if p != t:
                out.append(('PEEK-DIFFERS', p, t))
                break
            if k % 3 == 2 and t[0] is not Token.EOF:
                tok.push_back(*t)
                t2 = tok()
                if t2 != t:
                    out.append(('PUSHBACK-DIFFERS', t, t2))
                    break
            out.append((t[0], t[1]))
            if t[0] is Token.EOF:
                break
    except TokenSyntaxError as exc:
        out.append(('ERR', type(exc).__name__, str(exc.mess)))
    except Exception as exc:
        out.append(('BAD-EXC', type(exc).__name__, str(exc)))
    return out


def check_trace_sanity(run, text: str, opts, tr: list, steps: int, engine: str) -> None:
    from srctools.tokenizer import Token
    case = {'text': text, 'opts': _optbits(opts)}
    last = tr[-1]
    if last[0] == 'BAD-EXC':
        run.violation(f'tokenizer raised {last[1]}: {last[2]}', case=case, engine=engine, key='tokenizer-untyped-exception')
    elif last[0] == 'NO-EOF':
        run.violation('no EOF after len+8 tokens', case=case, engine=engine, key='no-eof')
    elif last[0] != 'ERR':
        tail = tr[-4:]
        if any(t[0] is not Token.EOF for t in tail):
            run.violation('a non-EOF token followed EOF', witness=_show(tr), case=case, engine=engine, key='eof-not-sticky')
    if steps:
        ntok = len(tr)
        if steps > 3 * len(text) + 3 * ntok + 16:
            run.violation(f'{steps} _next_char calls for {len(text)} characters', case=case, engine=engine, key='superlinear-steps')
        run.extra['max_steps_per_char_x100'] = max(run.extra.get('max_steps_per_char_x100', 0),
                                                   int(100 * steps / max(1, len(text))) if len(text) >= 8 else 0)


def _optbits(opts) -> str:
    return ''.join('1' if opts[n] else '0' for n in OPT_NAMES)


def _show(tr: list) -> list:
    return [[getattr(x, 'name', x) for x in rec] for rec in tr[:40]]


def chunkings_all(text: str) -> List[List[str]]:
    n = len(text)
    out = []
    for mask in range(1, 1 << (n - 1)) if n > 1 else []:
        parts = []
        prev = 0
        for i in range(1, n):
            if mask >> (i - 1) & 1:
                parts.append(text[prev:i])
                prev = i
        parts.append(text[prev:])
        out.append(parts)
    return out


MULTI = ('\r\n', '//', '/*', '*/', '\\')


def cut_inside_construct(text: str, chunks: List[str]) -> bool:
    pos = 0
    for c in chunks[:-1]:
        pos += len(c)
        if 0 < pos < len(text):
            pair = text[pos - 1:pos + 1]
            if pair in MULTI or pair[0] == '\\' or (pair[0] not in ' \r\n' and pair[1] not in ' \r\n'):
                return True
    return False


_HELPER_CALLS = [0]


def helper_streams(run, text: str, opts, ref: list, data: Any, label: str, engine: str) -> None:
    """The same tokens through the other public ways of reading them: the iterator protocol and skipping_newlines().
    Both are the stream tok() gives, cut at EOF (newlines left out by the second); an error is the same error."""
    from srctools.tokenizer import Tokenizer, Token, TokenSyntaxError
    toks = [r for r in ref if r and r[0] not in ('ERR', 'BAD-EXC', 'NO-EOF')]
    err = next((r for r in ref if r and r[0] == 'ERR'), None)
    upto = next((i for i, r in enumerate(toks) if r[0] is Token.EOF), len(toks))
    want_iter = [(t, v) for t, v, _ in toks[:upto]]
    want_skip = [(t, v) for t, v in want_iter if t is not Token.NEWLINE]
    if any(r and r[0] in ('BAD-EXC', 'NO-EOF') for r in ref):
        return
    for name, want, reader in (('iteration', want_iter, lambda tk: list(tk)), ('skipping_newlines()', want_skip, lambda tk: list(tk.skipping_newlines()))):
        got: list = []
        got_err = None
        tk = Tokenizer(data if not hasattr(data, 'seek') else io.StringIO(text, newline=''), **opts)
        try:
            it = iter(tk) if name == 'iteration' else tk.skipping_newlines()
            for pair in it:
                got.append(tuple(pair))
                if len(got) > len(text) + 8:
                    break
        except TokenSyntaxError as exc:
            got_err = ('ERR', type(exc).__name__, str(exc.mess), exc.line_num)
        except Exception as exc:
            got_err = ('BAD-EXC', type(exc).__name__, str(exc))
        run.count('helper_streams_compared')
        if got != want or got_err != err:
            run.violation(f'{name} over delivery {label} does not give the tokens that calling the tokenizer gives',
                          witness={'want': _show(want)[:20], 'got': _show(got)[:20], 'want_error': err, 'got_error': got_err},
                          case={'text': text, 'opts': _optbits(opts), 'chunks': data if isinstance(data, list) else label}, engine=engine,
                          key='helper-stream-differs')
            return


def helper_entry_points(run, text: str, opts, ref: list, engine: str) -> None:
    """expect(), block() and IterTokenizer against what the token trace says they have to do."""
    from srctools.tokenizer import Tokenizer, IterTokenizer, Token, TokenSyntaxError
    if any(r and r[0] in ('ERR', 'BAD-EXC', 'NO-EOF') for r in ref):
        return
    toks = [(t, v) for t, v, _ in ref]
    upto = next((i for i, r in enumerate(toks) if r[0] is Token.EOF), len(toks))
    stream = toks[:upto]
    case = {'text': text, 'opts': _optbits(opts)}

    def bad(what: str, witness: Any) -> None:
        run.violation(what, witness=witness, case=case, engine=engine, key='helper-entry-point-differs')
    run.count('helper_entry_points_checked')
    # IterTokenizer over the very same tokens: the same stream, then EOF for ever
    it = IterTokenizer(iter(stream))
    got = [it() for _ in range(len(stream) + 3)]
    if got != stream + [(Token.EOF, '')] * 3:
        bad('IterTokenizer over the token stream does not reproduce it followed by endless EOF', {'got': _show(got)[:12]})
    # expect(): the first token that is not a newline, or an error naming it
    first = next((tv for tv in stream if tv[0] is not Token.NEWLINE), (Token.EOF, ''))
    for want_tok in {first[0], Token.BRACE_OPEN}:
        tk = Tokenizer(text, **opts)
        try:
            val = tk.expect(want_tok)
            if want_tok is not first[0] or val != first[1]:
                bad(f'expect({want_tok.name}) returned {val!r}; the first token after the newlines is {first[0].name} {first[1]!r}', None)
        except TokenSyntaxError:
            if want_tok is first[0]:
                bad(f'expect({want_tok.name}) raised although the first token after the newlines is that token', None)
        except Exception as exc:
            bad(f'expect({want_tok.name}) raised {type(exc).__name__}: {exc}', None)
    # block(): with the brace already consumed it yields the strings up to the matching close, errors on anything else
    if first[0] is Token.BRACE_OPEN:
        body = stream[stream.index(first) + 1:]
        want_vals: list = []
        outcome = 'unclosed'
        for t, v in body:
            if t is Token.BRACE_CLOSE:
                outcome = 'closed'
                break
            if t is Token.STRING:
                want_vals.append(v)
            elif t is not Token.NEWLINE:
                outcome = 'error'
                break
        tk = Tokenizer(text, **opts)
        got_vals: list = []
        try:
            for v in tk.block('test'):
                got_vals.append(v)
                if len(got_vals) > len(text) + 4:
                    break
            got_outcome = 'closed'
        except TokenSyntaxError:
            got_outcome = 'raised'
        except Exception as exc:
            got_outcome = f'{type(exc).__name__}'
        if got_vals != want_vals or (got_outcome == 'closed') != (outcome == 'closed') or got_outcome not in ('closed', 'raised'):
            bad(f'block() yielded {got_vals!r} and {got_outcome}; the tokens say {want_vals!r} and {outcome}', None)
        run.count('block_helper_runs')


def compare_deliveries(run, text: str, opts, ref: list, deliveries: List[Tuple[str, Any]], engine: str) -> None:
    _HELPER_CALLS[0] += 1
    if _HELPER_CALLS[0] % 16 == 8:
        helper_entry_points(run, text, opts, ref, engine)
    if _HELPER_CALLS[0] % 16 == 0 and deliveries:
        lab, dat = deliveries[_HELPER_CALLS[0] // 16 % len(deliveries)]
        helper_streams(run, text, opts, ref, text if hasattr(dat, 'seek') else dat, lab, engine)
    for label, data in deliveries:
        tr, _ = trace(data, opts, len(text))
        run.count('deliveries_compared')
        if tr != ref:
            chunks = data if isinstance(data, list) else label
            # first differing record
            k = next((i for i, (a, b) in enumerate(zip(ref, tr)) if a != b), min(len(ref), len(tr)))
            run.violation(f'delivery {label} changes the token trace at record {k}',
                          witness={'reference': _show(ref), 'got': _show(tr), 'chunks': chunks},
                          case={'text': text, 'opts': _optbits(opts), 'chunks': chunks}, engine=engine,
                          key='chunk-dependent-trace')


def exhaustive(run, shard, thorough: bool) -> None:
    L = 4 if thorough else 3
    idx = 0
    evals = nontriv = 0
    for n in range(0, L + 1):
        for tup in itertools.product(ALPHABET, repeat=n):
            idx += 1
            if not mine(idx, shard):
                continue
            text = ''.join(tup)
            optsets = ALL_OPTS
            chunkings = chunkings_all(text)
            extra: List[Tuple[str, Any]] = []
            if n:
                extra.append(('lines', text.splitlines(keepends=True)))
                extra.append(('empties', ['', text[:1], '', '', text[1:], '']))
            nt_chunkings = sum(1 for c in chunkings if cut_inside_construct(text, c))
            for opts in optsets:
                ref, steps = trace(text, opts, n, counting=True)
                check_trace_sanity(run, text, opts, ref, steps, 'exhaustive')
                dl = [('chunks', c) for c in chunkings] + extra
                if n:
                    dl.append(('file', io.StringIO(text, newline='')))
                compare_deliveries(run, text, opts, ref, dl, 'exhaustive')
                evals += 1
                if nt_chunkings:
                    nontriv += 1
    run.case_bulk(evals, nontriv)
    run.count('exhaustive_text_x_options', evals)
    run.extra['exhaustive_max_len'] = L
    run.extra['exhaustive_core'] = True


FOCUSED = [
    # (name, alphabet, option overrides that are always on, options that vary, max length quick/thorough)
    ('comments', ['/', '*', 'a', '\n'], {'allow_star_comments': True}, ['preserve_comments'], 6, 8),
    ('comments-off', ['/', '*', 'a', '\n'], {'allow_star_comments': False}, ['preserve_comments'], 5, 6),
    ('strings', ['"', '\\', 'n', '\r', '\n', 'a'], {}, ['allow_escapes'], 5, 6),
    ('crlf-brackets', ['\r', '\n', '[', ']', 'a', ' '], {}, ['string_bracket'], 5, 6),
    ('parens', ['(', ')', '\n', '\r', 'a'], {}, ['string_parens'], 5, 6),
    ('directives', ['#', 'a', ':', '+', ' ', '{'], {}, ['colon_operator', 'plus_operator'], 5, 6),
    # the byte-order mark is skipped on line 1 only: every position of it relative to tokens, strings, line ends and cuts
    ('bom', ['\ufeff', 'a', ' ', '"', '\n', '{'], {}, ['string_bracket'], 5, 6),
    # the remaining punctuation: operator tokens (= , }) and the characters no token may start with (' ;), which end a bare
    # word or a directive and then raise - the error (type, message, line) must not depend on the delivery either
    ('punctuation', ["'", ';', '=', ',', '}', 'a', '#', '\n'], {}, ['string_bracket'], 5, 6),
]


def cut_chunkings(text: str, max_all: int = 6) -> List[List[str]]:
    """All chunkings for short texts; all 1-cut and 2-cut chunkings beyond that (state is carried across a boundary
    by at most one pushed-back character plus flags, so two cuts exercise every pairwise interaction)."""
    n = len(text)
    if n <= max_all:
        return chunkings_all(text)
    out = [[text[:i], text[i:]] for i in range(1, n)]
    out += [[text[:i], text[i:j], text[j:]] for i in range(1, n) for j in range(i + 1, n)]
    return out


def focused_cores(run, shard, thorough: bool) -> None:
    base = dict(zip(OPT_NAMES, (False, True, True, False, False, False, False)))
    idx = 0
    evals = nontriv = 0
    for name, alphabet, fixed, varying, lq, lt in FOCUSED:
        L = lt if thorough else lq
        optsets = []
        for bits in itertools.product((False, True), repeat=len(varying)):
            o = dict(base)
            o.update(fixed)
            o.update(dict(zip(varying, bits)))
            optsets.append(o)
        for n in range(1, L + 1):
            for tup in itertools.product(alphabet, repeat=n):
                idx += 1
                if not mine(idx, shard):
                    continue
                text = ''.join(tup)
                chunkings = cut_chunkings(text)
                nt = any(cut_inside_construct(text, c) for c in chunkings)
                for opts in optsets:
                    ref, steps = trace(text, opts, n, counting=True)
                    check_trace_sanity(run, text, opts, ref, steps, 'focused-' + name)
                    compare_deliveries(run, text, opts, ref, [('chunks', c) for c in chunkings], 'focused-' + name)
                    evals += 1
                    nontriv += 1 if nt else 0
        run.count('focused_core_' + name, 1)
    run.case_bulk(evals, nontriv)
    run.count('focused_text_x_options', evals)
    run.extra['focused_cores'] = [{'name': f[0], 'alphabet': [repr(c) for c in f[1]], 'max_len': f[5] if thorough else f[4]} for f in FOCUSED]


KV_FRAGMENTS = [
    '"key" "value"\n', 'bare word\n', '"blk"\n{\n', '}\n', '"a" "b" [flag]\n', '"a" "b" [!flag]\n',
    '"blk" [x360]\n{\n"k" "v"\n}\n', '"blk" [!x360]\n{\n}\n', '// comment\n', '/* star */', '"multi\nline" "v"\n',
    '"esc\\n\\t\\"q" "\\\\"\n', '\r\n', '\r', '\n', '{', '}', '"', '[', ']', '(', ')', '(paren args)', '#include "x"\n',
    '#base\n', 'key:value', 'a+b', '=', ',', ' ', '\t', '﻿', '@PointClass base(Targetname) = name : "desc" [\n',
    'spawnflags(flags) =\n[\n1: "x" : 0\n]\n', '"$basetexture" "a/b\\c"\n', 'LightmappedGeneric\n{\n', '"%k" 1 // c\n',
    '**/', '/*/', '*/', '/', '\\', '"unterminated', '/* a * b */', '/** doc\n * line\n */', '/* x **/', '/***/', '// c * /\n', '/* "q" */', '[unterminated', '(unterminated', '"a"\\\n"b"\n', 'x"y"z\n',
]


def gen_doc(rng) -> str:
    parts = [rng.choice(KV_FRAGMENTS) for _ in range(rng.randint(1, 14))]
    text = ''.join(parts)
    # mutations
    for _ in range(rng.choice((0, 0, 1, 2, 4))):
        if not text:
            break
        i = rng.randrange(len(text))
        r = rng.random()
        if r < 0.3:
            text = text[:i] + rng.choice(ALPHABET + ['\t', 'é', '\x00', '﻿', ' ', "'", ';', '=', ',', '}', '|', '!']) + text[i + 1:]
        elif r < 0.5:
            text = text[:i]
        elif r < 0.7:
            j = rng.randrange(len(text))
            text = text[:i] + text[min(i, j):max(i, j)] + text[i:]
        elif r < 0.85:
            text = text[:i] + text[i + 1:]
        else:
            text = text.replace('\n', rng.choice(('\r\n', '\r')), rng.randint(1, 3))
    return text[:400]


def random_docs(run, shard, thorough: bool) -> None:
    n_docs = 4000 if thorough else 500
    n_chunk = 50 if thorough else 12
    for i in range(n_docs):
        if not mine(i, shard):
            continue
        rng = sub_rng(run.seed, 'doc', i)
        text = gen_doc(rng)
        opts = dict(zip(OPT_NAMES, (rng.random() < 0.5 for _ in OPT_NAMES)))
        ref, steps = trace(text, opts, len(text), counting=True)
        check_trace_sanity(run, text, opts, ref, steps, 'random')
        dl: List[Tuple[str, Any]] = [('lines', text.splitlines(keepends=True)), ('file', io.StringIO(text, newline='')),
                                     ('chars', list(text))]
        if i % 3 == 0:
            # a file object of which the caller has already read a first part: tokens start where it stands
            lead = rng.choice(('header line\n', '"unterminated\n', '/* open comment\n', '{ [ (\n'))
            part = io.StringIO(lead + text, newline='')
            part.readline() if rng.random() < 0.5 else part.seek(len(lead))
            dl.append(('partly-read file', part))
            run.count('partly_read_file_deliveries')
        if i % 4 == 0:
            # a file object as the operating system hands it out (its .name is the descriptor number, an int)
            rf = tempfile.TemporaryFile('w+', encoding='utf8', errors='surrogatepass', newline='')
            rf.write(text)
            rf.seek(0)
            dl.append(('TemporaryFile', rf))
            run.count('real_file_deliveries')
        nt = False
        # every single cut position (exhaustive over the delivery schedules with two chunks)
        for cut in range(1, len(text)):
            dl.append(('cut', [text[:cut], text[cut:]]))
        nt = nt or len(text) > 3
        for _ in range(n_chunk):
            ch = random_chunks(rng, text, 12)
            nt = nt or cut_inside_construct(text, [c for c in ch if c])
            dl.append(('chunks', ch))
        compare_deliveries(run, text, opts, ref, dl, 'random')
        # the look-ahead interface gives the same tokens and the same error
        want_la = [(r[0], r[1]) for r in ref if r[0] not in ('ERR', 'BAD-EXC', 'NO-EOF')]
        while len(want_la) > 1 and want_la[-1][0] == want_la[-2][0] and getattr(want_la[-1][0], 'name', '') == 'EOF':
            want_la.pop()
        if ref and ref[-1][0] == 'ERR':
            want_la.append(('ERR', ref[-1][1], ref[-1][2]))
        got_la = lookahead_trace(random_chunks(rng, text, 9), opts, len(text))
        run.count('lookahead_traces')
        if got_la != want_la and not (ref and ref[-1][0] in ('BAD-EXC', 'NO-EOF')):
            k = next((j for j, (a, b) in enumerate(zip(want_la, got_la)) if a != b), min(len(want_la), len(got_la)))
            run.violation(f'reading through peek()/push_back() changes the token stream at token {k}',
                          witness={'want': _show(want_la[max(0, k - 2):k + 3]), 'got': _show(got_la[max(0, k - 2):k + 3])},
                          case={'text': text, 'opts': _optbits(opts)}, engine='random', key='lookahead-changes-stream')
        run.case([text, _optbits(opts)], nt, sample={'text': text, 'opts': _optbits(opts), 'tokens': len(ref)} if i < 2 else None, tag='random')
        kv_parse(run, rng, text, 'random-kv')


KV_OPTS = ['newline_keys', 'newline_values', 'allow_escapes', 'single_line', 'single_block']


def kv_outcome(data: Any, kw: Dict[str, Any]) -> Tuple:
    from srctools.keyvalues import Keyvalues, KeyValError

    def snap(kv):
        return (kv.real_name, [snap(c) for c in kv] if kv.has_children() else kv.value, kv.line_num)
    try:
        res = Keyvalues.parse(data, **kw)
    except KeyValError as exc:
        return ('ERR', str(exc.mess), exc.line_num)
    except Exception as exc:
        return ('BAD-EXC', type(exc).__name__, str(exc))
    return ('OK', snap(res))


def kv_parse(run, rng, text: str, engine: str) -> None:
    kw: Dict[str, Any] = {n: rng.random() < 0.5 for n in KV_OPTS}
    kw['flags'] = rng.choice(({}, {'flag': True}, {'flag': False, 'x360': True}, {'x360': False}))
    case = {'text': text, 'kv_opts': {k: v for k, v in kw.items()}}
    ref = kv_outcome(text, kw)
    run.count('kv_parse_calls')
    if ref[0] == 'BAD-EXC':
        key = 'kvparse-untyped-exception'
        if ref[1] == 'IndexError':
            key = 'kvparse-indexerror-after-skipped-block'
        run.violation(f'Keyvalues.parse raised {ref[1]}: {ref[2]}', case=case, engine=engine, key=key)
    from srctools.tokenizer import Tokenizer
    esc = kw.get('allow_escapes', True)
    for label, data in (('chunks', random_chunks(rng, text, 9)), ('file', io.StringIO(text, newline='')),
                        ('lines', text.splitlines(keepends=True)),
                        # an already constructed tokenizer (with and without a file name of its own) is a documented input
                        ('tokenizer', Tokenizer(text, None, string_bracket=True, allow_escapes=esc)),
                        ('named-tokenizer', Tokenizer(text, 'some/file.txt', string_bracket=True, allow_escapes=esc))):
        got = kv_outcome(data, kw)
        if got != ref:
            run.violation(f'Keyvalues.parse result depends on delivery ({label})',
                          witness={'reference': ref, 'got': got, 'chunks': data if isinstance(data, list) else label},
                          case=case, engine=engine, key='kvparse-chunk-dependent')


def kv_flag_docs(run, shard, thorough: bool) -> None:
    """Short flag-bearing documents, all 2^5 boolean option sets x 4 flag maps."""
    frags = ['"a" [x360]\n{\n}\n', '"a" [!x360]\n{\n"k" "v"\n}\n', '"b" "1"\n', '"b" "2" [x360]\n', '"b" "3" [!x360]\n',
             '"a"\n{\n}\n', '"b" [x360]\n{\n}\n', '}\n', '{\n', '"c" "d" "e" "f"\n', '"n\nl" "v"\n', '"k" "v\nl"\n']
    idx = 0
    n = 3 if thorough else 2
    from srctools.keyvalues import Keyvalues
    for k in range(1, n + 1):
        for combo in itertools.product(range(len(frags)), repeat=k):
            idx += 1
            if not mine(idx, shard):
                continue
            text = ''.join(frags[j] for j in combo)
            for bits in itertools.product((False, True), repeat=5):
                kw: Dict[str, Any] = dict(zip(KV_OPTS, bits))
                for flags in ({}, {'x360': True}, {'x360': False}):
                    kw['flags'] = flags
                    out = kv_outcome(text, kw)
                    run.count('kv_parse_calls')
                    if out[0] == 'BAD-EXC':
                        key = 'kvparse-indexerror-after-skipped-block' if out[1] == 'IndexError' else 'kvparse-untyped-exception'
                        run.violation(f'Keyvalues.parse raised {out[1]}: {out[2]}',
                                      case={'text': text, 'kv_opts': dict(kw)}, engine='kv-flags', key=key)
            run.case_bulk(1, 1)
    run.count('kv_flag_docs', idx)


LONG_UNITS = ['/**/', '/* x */ ', '/*\n*/', '// c\n', '\n', '\r\n', ' ', '\t', '"a" ', '"a"\n', 'a\n', '{\n', '}\n', '{', '[x]', '[x]\n', '(y)', '# ', '#a\n',
              'a:b ', 'a+', '+', ':', '=', ',', '\\', '"\\n"', '"a\nb" ', '\ufeff', '*/', '/*', '"', '[', '(']


def long_runs(run, shard, thorough: bool) -> None:
    """Inputs that are unusual in SIZE: one small unit repeated hundreds or thousands of times (alone, and between two tokens).
    Totality and the linear step bound must hold whatever the length; deliveries: one string, lines, 7-character chunks."""
    reps = (600, 1500, 5000) if thorough else (600, 1500)
    base = dict(zip(OPT_NAMES, (False, True, True, False, False, False, False)))
    optsets = [base, dict(base, allow_star_comments=True), dict(base, allow_star_comments=True, preserve_comments=True),
               dict(base, string_bracket=True, colon_operator=True, plus_operator=True), dict(base, string_parens=False, allow_escapes=False)]
    idx = 0
    for unit in LONG_UNITS:
        for n in reps:
            for shape in ('{u}', 'a {u}b', '"k" {u}"v"\n'):
                idx += 1
                if not mine(idx, shard):
                    continue
                text = shape.replace('{u}', unit * n)
                for opts in optsets:
                    ref, steps = trace(text, opts, len(text), counting=True)
                    check_trace_sanity(run, text, opts, ref, steps, 'long-runs')
                    dl = [('lines', text.splitlines(keepends=True)), ('chunks7', [text[i:i + 7] for i in range(0, len(text), 7)])]
                    compare_deliveries(run, text, opts, ref, dl, 'long-runs')
                out = kv_outcome(text, {})
                if out[0] == 'BAD-EXC':
                    run.violation(f'Keyvalues.parse raised {out[1]}: {out[2][:200]}', case={'text': text[:60] + f'... ({len(text)} chars: {unit!r} x {n})', 'kv_opts': {}},
                                  engine='long-runs', key='kvparse-untyped-exception')
                run.case_bulk(len(optsets), len(optsets))
    run.count('long_run_texts', idx)


KV_ALPHA = ['"', 'a', ' ', '\n', '{', '}', '[', ']', '!']


def kv_exhaustive(run, shard, thorough: bool) -> None:
    """Every KeyValues1 text up to length L over the structure alphabet: Keyvalues.parse ends in a tree or KeyValError and
    nothing else, and says the same when the text arrives character by character."""
    L = 7 if thorough else 6
    optsets = [dict(zip(KV_OPTS, bits)) for bits in itertools.product((False, True), repeat=len(KV_OPTS))]
    flagsets = ({}, {'a': True}, {'a': False})
    idx = 0
    evals = 0
    for n in range(1, L + 1):
        for tup in itertools.product(KV_ALPHA, repeat=n):
            idx += 1
            if not mine(idx, shard):
                continue
            text = ''.join(tup)
            for kw in ({}, dict(optsets[idx % len(optsets)], flags=flagsets[idx % 3])):
                out = kv_outcome(text, kw)
                evals += 1
                if out[0] == 'BAD-EXC':
                    key = 'kvparse-indexerror-after-skipped-block' if (out[1] == 'IndexError' and 'pop from empty' in out[2]) else 'kvparse-untyped-exception'
                    run.violation(f'Keyvalues.parse raised {out[1]}: {out[2]}', case={'text': text, 'kv_opts': dict(kw)},
                                  engine='kv-exhaustive', key=key)
                    continue
                got = kv_outcome(list(text), kw)
                if got != out:
                    run.violation('Keyvalues.parse result depends on delivery (chars)', witness={'reference': out, 'got': got},
                                  case={'text': text, 'kv_opts': dict(kw)}, engine='kv-exhaustive', key='kvparse-chunk-dependent')
                if idx % 4 == 0:
                    from srctools.tokenizer import Tokenizer
                    got = kv_outcome(Tokenizer(text, 'named.txt', string_bracket=True, allow_escapes=kw.get('allow_escapes', True)), kw)
                    if got != out:
                        run.violation('Keyvalues.parse result differs when the text arrives as an already constructed (named) Tokenizer',
                                      witness={'reference': out, 'got': got}, case={'text': text, 'kv_opts': dict(kw)},
                                      engine='kv-exhaustive', key='kvparse-prebuilt-tokenizer-differs')
    run.case_bulk(evals, evals)
    run.count('kv_exhaustive_texts_x_options', evals)
    run.count('kv_parse_calls', 2 * evals)
    run.extra['kv_exhaustive'] = {'alphabet': [repr(c) for c in KV_ALPHA], 'max_len': L}


def main(run, shard=(0, 1)) -> None:
    thorough = run.tier == 'thorough'
    import srctools.tokenizer as tk
    from rv.probes import ReachProbe
    probe = ReachProbe({'Tokenizer._handle_comment': (tk, 'Tokenizer._handle_comment'),
                        'Tokenizer._handle_string': (tk, 'Tokenizer._handle_string'),
                        'Tokenizer._get_token': (tk, 'Tokenizer._get_token')})
    probe.start()
    exhaustive(run, shard, thorough)
    probe.report(run)
    focused_cores(run, shard, thorough)  # stop the probe early: it only has to show reach, and costs time on hot functions
    random_docs(run, shard, thorough)
    kv_flag_docs(run, shard, thorough)
    kv_exhaustive(run, shard, thorough)
    long_runs(run, shard, thorough)
    run.sample({'text': '"a\r', 'chunks': ['"a', '\r'], 'opts': '0010000'}, 'exhaustive')
    probe.check_reached(run)
    run.require('lookahead_traces', 'helper_streams_compared', 'helper_entry_points_checked', 'block_helper_runs', 'long_run_texts', 'real_file_deliveries', 'exhaustive_text_x_options', 'focused_text_x_options', 'deliveries_compared', 'kv_parse_calls', 'kv_exhaustive_texts_x_options')


def replay(run, data) -> None:
    case = data['case']
    text = case['text']
    if 'kv_opts' in case:
        out = kv_outcome(text, case['kv_opts'])
        if out[0] == 'BAD-EXC':
            run.violation(f'Keyvalues.parse raised {out[1]}: {out[2]}', case=case, engine='replay',
                          key='kvparse-untyped-exception')
        kv_parse(run, sub_rng(0, 'replay', 0), text, 'replay')
    else:
        opts = dict(zip(OPT_NAMES, (c == '1' for c in case['opts'])))
        ref, steps = trace(text, opts, len(text), counting=True)
        check_trace_sanity(run, text, opts, ref, steps, 'replay')
        dl = [('chunks', c) for c in chunkings_all(text)] if len(text) <= 10 else []
        if isinstance(case.get('chunks'), list):
            dl.append(('chunks', case['chunks']))
        dl += [('lines', text.splitlines(keepends=True)), ('file', io.StringIO(text, newline=''))]
        compare_deliveries(run, text, opts, ref, dl, 'replay')
    run.case(case, True, sample=case, tag='replay')
    run.case('pad', True)


# (kept at the end of the file so that the text above stays the description the check was first built to)
RULE += ' ' + "Later additions: focused core over the remaining punctuation (' ; = , } #); the iterator protocol and skipping_newlines() compared with the token trace; an unrelated tokenizer dropped with a pending pushed-back token before every third trace. Every third random document is also delivered through a file object of which a first part (another line) was read before: the trace equals that of the remaining text."
