"""C07 VMF class/name indexes always agree with the entities in the map.

Shape: history + executable model.  The model is the scan the property names as ground truth
(vmf.entities, plus worldspawn for the class index); it is re-evaluated after EVERY public operation, so the
first operation that desynchronises an index is the witness.
"""
from __future__ import annotations

import traceback
from typing import Any, Dict, List, Optional, Set

from rv.util import mine, sub_rng
from rv.probes import ReachProbe

PROP = 'C07'
LEVEL = 'exploration'
RULE = ('random histories (<= 60 operations, few names in mixed case, empty strings, key spellings in any case) over '
        'create_ent, Entity()+add_ent, add_ents, remove_ent, Entity.remove, ent[k]=v, del ent[k], update, pop, '
        'setdefault, clear, make_unique, copy() within and across maps followed by add_ent, iteration over '
        'by_class[...] / search() while mutating, VMF.parse(export()) and attempts to re-class worldspawn. After every '
        'operation, for every name that ever occurred (several casings): by_class / by_target / search() are compared '
        'with a scan of vmf.entities (+ worldspawn for by_class). Empty sets left in the mappings are ignored; '
        'worldspawn membership in by_target is not constrained (the statement names it only for the class index). '
        'Non-trivial = history with >= 1 rename / re-class / remove after an add; distinct = distinct history. Additional engine: the repository\'s own tests run as a workload with the same invariants attached as runtime contracts (rv/contracts.py).')
ASSUMPTIONS = ['index keys are the casefolded classname ("" when missing) and the casefolded targetname (None when missing/empty), '
               'as VMF.add_ent establishes them',
               'worldspawn is required under by_class["worldspawn"]; its presence in by_target is not checked']
JOBS = {'quick': 2, 'thorough': 16}

CLASSES = ['info_target', 'Info_Target', 'INFO_TARGET', 'logic_relay', 'func_brush', 'ß_ent', 'worldspawn', '']
NAMES = ['door', 'Door', 'DOOR', 'door1', 'relay', 'Relay_A', 'ß', 'SS', '', 'x*',
         'info_target', 'Logic_Relay', 'FUNC_BRUSH']  # names that are also class names (search() answers for both)
QUERIES = ['door*', 'DOOR*', 'd*', 'Rel*', 'ß*', '*', 'info_*', 'doo']  # wildcard (prefix) searches and a bare prefix
KEY_CLASS = ['classname', 'ClassName', 'CLASSNAME']
KEY_NAME = ['targetname', 'TargetName', 'TARGETNAME']


class Hist:
    def __init__(self, run, rng, case_id: int, engine: str) -> None:
        from srctools.vmf import VMF
        self.run, self.rng, self.case_id, self.engine = run, rng, case_id, engine
        self.maps = [VMF(), VMF()]
        self.detached: List[Any] = []  # entities created or removed, not in any map
        self.log: List[str] = []
        self.bad = False
        self.nontrivial = False
        self.adds = 0

    def fail(self, what: str, key: str, witness: Any = None) -> None:
        if not self.run.is_known(key):
            self.bad = True
        self.run.violation(what, witness={'detail': witness, 'history': self.log[-15:]},
                           case={'id': self.case_id}, engine=self.engine, key=key)

    # ------------------------------------------------------------ the model (ground truth = scan)
    def check(self, vmf, label: str) -> None:
        ents = list(vmf.entities)
        spawn = vmf.spawn
        last = self.log[-1] if self.log else 'start'
        op = last.split(' ')[0]
        # --- by_class
        want_cls: Dict[str, Set[int]] = {}
        for e in ents + [spawn]:
            want_cls.setdefault(e['classname'].casefold(), set()).add(id(e))
        got_keys = [k for k, v in list(vmf.by_class.items()) if v]
        for k in set(want_cls) | set(got_keys):
            got = {id(e) for e in vmf.by_class.get(k, ())}
            want = want_cls.get(k, set())
            if got != want:
                extra, missing = got - want, want - got
                self.fail(f'{label}.by_class[{k!r}] disagrees with the scan after "{last}": {len(extra)} stale, {len(missing)} missing',
                          f'by-class-desync:{op}', {'key': k, 'stale': len(extra), 'missing': len(missing)})
                return
        if id(spawn) not in {id(e) for e in vmf.by_class.get('worldspawn', ())} or spawn['classname'].casefold() != 'worldspawn':
            self.fail(f'worldspawn is not under by_class["worldspawn"] after "{last}"', f'worldspawn-index:{op}')
            return
        # --- by_target (worldspawn ignored on both sides)
        want_tgt: Dict[Optional[str], Set[int]] = {}
        for e in ents:
            want_tgt.setdefault(e['targetname'].casefold() or None, set()).add(id(e))
        got_tkeys = [k for k, v in list(vmf.by_target.items()) if any(x is not spawn for x in v)]
        for k in set(want_tgt) | set(got_tkeys):
            got = {id(e) for e in vmf.by_target.get(k, ()) if e is not spawn}
            want = want_tgt.get(k, set())
            if got != want:
                extra, missing = got - want, want - got
                self.fail(f'{label}.by_target[{k!r}] disagrees with the scan after "{last}": {len(extra)} stale, {len(missing)} missing',
                          f'by-target-desync:{op}', {'key': k, 'stale': len(extra), 'missing': len(missing)})
                return
        # --- search() under several casings
        if list(vmf.search('')):
            self.fail(f'{label}.search(\'\') found something after "{last}" (a blank name finds nothing)', f'search-desync:{op}', {'query': ''})
            return
        for name in NAMES + CLASSES + QUERIES:
            if not name:
                continue
            for q in {name, name.upper(), name.lower()}:
                got_l = [id(e) for e in vmf.search(q) if e is not spawn]
                fold = q.casefold()
                if fold.endswith('*'):
                    want = {id(e) for e in ents if e['targetname'] and e['targetname'].casefold().startswith(fold[:-1])}
                else:
                    want = {id(e) for e in ents if (e['targetname'] and e['targetname'].casefold() == fold) or e['classname'].casefold() == fold}
                if set(got_l) != want:
                    self.fail(f'{label}.search({q!r}) disagrees with the scan after "{last}": got {len(set(got_l))} want {len(want)}',
                              f'search-desync:{op}', {'query': q})
                    return
        self.run.count('invariant_evaluations')

    def check_all(self) -> None:
        for i, m in enumerate(self.maps):
            if not self.bad:
                self.check(m, f'map{i}')

    # ------------------------------------------------------------ operations
    def any_ent(self, vmf, allow_detached: bool = False):
        pool = list(vmf.entities)
        if allow_detached and self.detached and self.rng.random() < 0.2:
            pool = [e for e in self.detached if e.map is vmf] or pool
        return self.rng.choice(pool) if pool else None

    def step(self) -> None:
        rng = self.rng
        vmf = self.maps[0] if rng.random() < 0.8 else self.maps[1]
        mi = self.maps.index(vmf)
        op = rng.choice(['create', 'create', 'add_new', 'add_ents', 'remove', 'remove_method', 'set_class', 'set_name',
                         'set_name', 'del_name', 'update', 'pop', 'setdefault', 'clear', 'make_unique', 'copy_same',
                         'copy_other', 'iter_mutate', 'search_mutate', 'reclass_world', 'name_world', 'reparse',
                         'readd', 'del_other', 'set_other', 'remove_again', 'pop_world', 'remove_world', 'clear_world', 'add_again'])
        from srctools.vmf import Entity
        try:
            if op == 'create':
                kw = {}
                if rng.random() < 0.7:
                    kw[rng.choice(KEY_NAME)] = rng.choice(NAMES)
                c = rng.choice(CLASSES[:-2] + ['info_target'])
                e = vmf.create_ent(c, **kw)
                if rng.random() < 0.2:
                    e.hidden = True  # exported inside a hidden{} block and re-read through that branch of VMF.parse
                self.adds += 1
                self.log.append(f'create_ent map{mi} class={c!r} {kw} hidden={e.hidden}')
            elif op == 'add_new':
                keys = {rng.choice(KEY_CLASS): rng.choice(CLASSES[:-2])}
                if rng.random() < 0.6:
                    keys[rng.choice(KEY_NAME)] = rng.choice(NAMES)
                e = Entity(vmf, keys=keys)
                self.log.append(f'Entity()+add_ent map{mi} {keys}')
                vmf.add_ent(e)
                self.adds += 1
            elif op == 'add_ents':
                es = [Entity(vmf, keys={'classname': rng.choice(CLASSES[:-2]), rng.choice(KEY_NAME): rng.choice(NAMES)}) for _ in range(rng.randint(0, 3))]
                self.log.append(f'add_ents map{mi} n={len(es)}')
                vmf.add_ents(iter(es))
                self.adds += len(es)
            elif op in ('remove', 'remove_method'):
                e = self.any_ent(vmf)
                if e is None:
                    return
                self.log.append(f'{op} map{mi} class={e["classname"]!r} name={e["targetname"]!r}')
                if op == 'remove':
                    vmf.remove_ent(e)
                else:
                    e.remove()
                self.detached.append(e)
                self.nontrivial = self.nontrivial or self.adds > 0
            elif op == 'set_class':
                e = self.any_ent(vmf, True)
                if e is None:
                    return
                k, v = rng.choice(KEY_CLASS), rng.choice(CLASSES[:-2] + [''])
                self.log.append(f'setitem map{mi} {k}={v!r} (was {e["classname"]!r}, in_map={e in vmf.entities})')
                e[k] = v
                self.nontrivial = True
            elif op == 'set_name':
                e = self.any_ent(vmf, True)
                if e is None:
                    return
                k, v = rng.choice(KEY_NAME), rng.choice(NAMES)
                if rng.random() < 0.1:
                    # values that are not strings are converted on the way in (ValidKVs): the index must hold the text
                    from srctools.math import Vec
                    v = rng.choice((5, 2.0, True, Vec(1, 2, 3), 0))
                    if rng.random() < 0.3:
                        k = rng.choice(KEY_CLASS)
                self.log.append(f'setitem map{mi} {k}={v!r} (was {e["targetname"]!r}, in_map={e in vmf.entities})')
                e[k] = v
                self.nontrivial = True
            elif op == 'del_name':
                e = self.any_ent(vmf, True)
                if e is None:
                    return
                k = rng.choice(KEY_NAME)
                self.log.append(f'delitem map{mi} {k} (was {e["targetname"]!r}, in_map={e in vmf.entities})')
                if rng.random() < 0.3:
                    del e[(k, 'unrelated')]
                else:
                    del e[k]
                self.nontrivial = True
            elif op == 'del_other':
                e = self.any_ent(vmf)
                if e is None:
                    return
                self.log.append(f'delitem map{mi} origin / classname attempt')
                del e['origin']
                try:
                    del e[rng.choice(KEY_CLASS)]
                except KeyError:
                    pass
            elif op == 'set_other':
                e = self.any_ent(vmf)
                if e is None:
                    return
                self.log.append(f'setitem map{mi} origin')
                e['origin'] = '1 2 3'
            elif op == 'update':
                e = self.any_ent(vmf, True)
                if e is None:
                    return
                d = {rng.choice(KEY_NAME): rng.choice(NAMES), rng.choice(KEY_CLASS): rng.choice(CLASSES[:-2]), 'origin': '0 0 0'}
                self.log.append(f'update map{mi} {d} (in_map={e in vmf.entities})')
                e.update(d)
                self.nontrivial = True
            elif op == 'pop':
                e = self.any_ent(vmf, True)
                if e is None:
                    return
                k = rng.choice(KEY_NAME + ['origin'] + KEY_CLASS)
                self.log.append(f'pop map{mi} {k} (name was {e["targetname"]!r}, class {e["classname"]!r}, in_map={e in vmf.entities})')
                try:
                    # popping the classname is refused like deleting it; whatever the outcome, the indexes must agree
                    # with what the entity reports afterwards
                    e.pop(k) if rng.random() < 0.6 else e.pop(k, 'dflt')
                except KeyError:
                    self.log[-1] += ' -> KeyError'
                self.nontrivial = True
            elif op == 'setdefault':
                e = self.any_ent(vmf)
                if e is None:
                    return
                k, v = rng.choice(KEY_NAME), rng.choice(NAMES)
                self.log.append(f'setdefault map{mi} {k}={v!r}')
                e.setdefault(k, v)
            elif op == 'clear':
                e = self.any_ent(vmf, True)
                if e is None:
                    return
                self.log.append(f'clear map{mi} (class {e["classname"]!r} name {e["targetname"]!r}, in_map={e in vmf.entities})')
                (e.clear if rng.random() < 0.5 else e.clear_keys)()
                self.nontrivial = True
            elif op == 'make_unique':
                e = self.any_ent(vmf)
                if rng.random() < 0.3:
                    # ... also asked of an entity that is not (or no longer) in the map: it must stay out of the indexes
                    outside = [o for o in self.detached if o.map is vmf]
                    if outside and rng.random() < 0.5:
                        e = rng.choice(outside)
                    else:
                        keys = {'classname': rng.choice(CLASSES[:-2])}
                        if rng.random() < 0.7:
                            keys[rng.choice(KEY_NAME)] = e['targetname'] if e is not None and rng.random() < 0.6 else rng.choice(NAMES)
                        e = Entity(vmf, keys=keys)
                        self.detached.append(e)
                    self.run.count('make_unique_on_entities_outside_the_map')
                if e is None:
                    return
                self.log.append(f'make_unique map{mi} (name {e["targetname"]!r}, in_map={e in vmf.entities})')
                e.make_unique(rng.choice(('', 'auto', 'Door')))
                self.nontrivial = True
                # what it is for: afterwards no other entity of the map answers to this name (names are case-insensitive)
                mine_ = e['targetname'].casefold()
                twins = [o for o in vmf.entities if o is not e and mine_ and o['targetname'].casefold() == mine_]
                self.run.count('make_unique_results_checked')
                if twins:
                    self.fail(f'after make_unique() {len(twins)} other entit(y/ies) are still called {e["targetname"]!r}', 'make-unique-not-unique')
            elif op in ('copy_same', 'copy_other'):
                e = self.any_ent(vmf, True)
                if e is None:
                    return
                dest = vmf if op == 'copy_same' else self.maps[1 - mi]
                c = e.copy(vmf_file=dest) if op == 'copy_other' or rng.random() < 0.5 else e.copy()
                self.log.append(f'{op} map{mi} class={e["classname"]!r} name={e["targetname"]!r} then add_ent')
                if rng.random() < 0.8:
                    dest.add_ent(c)
                    self.adds += 1
                else:
                    self.detached.append(c)
            elif op == 'iter_mutate':
                k = rng.choice(CLASSES[:-2]).casefold()
                self.log.append(f'iterate by_class[{k!r}] renaming/removing/adding while iterating map{mi}')
                n = 0
                start = set(map(id, vmf.by_class[k]))  # the snapshot the iteration starts from
                yielded: List[int] = []
                broke = False
                for e in vmf.by_class[k]:
                    n += 1
                    yielded.append(id(e))
                    r = rng.random()
                    if r < 0.3:
                        e['classname'] = rng.choice(CLASSES[:-2])
                    elif r < 0.5:
                        e.remove()
                        self.detached.append(e)
                    elif r < 0.7 and n < 4 and id(e) in start:
                        # (entities join only while an entity of the starting snapshot is being visited, i.e. during the
                        # first pass of the mutation-tolerant iterator; the second pass then has to visit them)
                        vmf.create_ent(k.upper(), targetname=rng.choice(NAMES))
                    elif r < 0.8 and n < 4 and id(e) in start:
                        other = self.any_ent(vmf)
                        if other is not None and other is not vmf.spawn:
                            other['classname'] = k.upper()  # an existing entity joins the class that is being iterated
                    if n > 12:
                        broke = True
                        break
                if len(set(yielded)) != len(yielded):
                    self.fail(f'iterating by_class[{k!r}] while mutating it visited an entity twice', 'iteration-visits-twice')
                elif not broke:
                    missed = [e for e in vmf.by_class.get(k, ()) if id(e) not in set(yielded)]
                    self.run.count('mutating_iterations_checked')
                    if missed:
                        self.fail(f'iterating by_class[{k!r}] while mutating it never visited {len(missed)} entit(y/ies) that joined the class '
                                  f'during the loop and are in the index now', 'iteration-misses-joined-entity')
                self.nontrivial = True
            elif op == 'search_mutate':
                q = rng.choice(NAMES[:-2])
                self.log.append(f'iterate search({q!r}) renaming while iterating map{mi}')
                for n, e in enumerate(vmf.search(q)):
                    if e is vmf.spawn:
                        continue
                    e['targetname'] = rng.choice(NAMES)
                    if n > 12:
                        break
                self.nontrivial = True
            elif op == 'reclass_world':
                v = rng.choice(('func_detail', 'WorldSpawn', 'worldspawn', ''))
                self.log.append(f'worldspawn classname={v!r} map{mi}')
                try:
                    vmf.spawn[rng.choice(KEY_CLASS)] = v
                except ValueError:
                    pass
                if vmf.spawn['classname'].casefold() != 'worldspawn':
                    self.fail(f'worldspawn was given the class {vmf.spawn["classname"]!r}', 'worldspawn-reclassed')
            elif op == 'pop_world':
                k = rng.choice(KEY_CLASS + KEY_NAME)
                self.log.append(f'worldspawn pop/del/clear of {k} map{mi}')
                try:
                    r = rng.random()
                    if r < 0.4:
                        vmf.spawn.pop(k, 'd')
                    elif r < 0.7:
                        del vmf.spawn[k]
                    elif r < 0.85:
                        vmf.spawn.setdefault(k, 'func_detail')
                    else:
                        vmf.spawn.update({k: 'worldspawn' if k in KEY_CLASS else 'named'})
                except (KeyError, ValueError):
                    pass
                if vmf.spawn['classname'].casefold() != 'worldspawn':
                    self.fail(f'worldspawn now reports the class {vmf.spawn["classname"]!r}', 'worldspawn-reclassed')
            elif op == 'name_world':
                self.log.append(f'worldspawn targetname set/deleted map{mi}')
                vmf.spawn['targetname'] = rng.choice(NAMES)
                if rng.random() < 0.5:
                    del vmf.spawn['targetname']
            elif op == 'reparse':
                from srctools.vmf import VMF
                from srctools.keyvalues import Keyvalues
                self.log.append(f'map{mi} = VMF.parse(export())')
                text = vmf.export(inc_version=False)
                new = VMF.parse(Keyvalues.parse(text))
                self.maps[mi] = new
                self.detached = [e for e in self.detached if e.map is not vmf]
            elif op == 'remove_world':
                # the world cannot leave the map, whatever is asked: it stays under 'worldspawn'
                self.log.append(f'remove of worldspawn map{mi}')
                if rng.random() < 0.5:
                    vmf.spawn.remove()
                else:
                    vmf.remove_ent(vmf.spawn)
                self.run.count('worldspawn_removals_asked')
            elif op == 'clear_world':
                self.log.append(f'worldspawn clear()/clear_keys() map{mi}')
                try:
                    (vmf.spawn.clear if rng.random() < 0.5 else vmf.spawn.clear_keys)()
                except ValueError:
                    pass
                if vmf.spawn['classname'].casefold() != 'worldspawn':
                    self.fail(f'worldspawn now reports the class {vmf.spawn["classname"]!r}', 'worldspawn-reclassed')
            elif op == 'add_again':
                # an entity that is in the map already is added once more (alone, or twice in one add_ents() call, or the
                # world itself), then perhaps removed once: the tables describe vmf.entities as it stands afterwards
                if not vmf.entities:
                    return
                e = rng.choice(vmf.entities)
                r = rng.random()
                self.log.append(f'add_again map{mi} class={e["classname"]!r} name={e["targetname"]!r} form={int(r * 4)}')
                if r < 0.4:
                    vmf.add_ent(e)
                elif r < 0.7:
                    vmf.add_ents(iter([e, e]))
                elif r < 0.85:
                    vmf.add_ents([e, rng.choice(vmf.entities)])
                else:
                    vmf.add_ent(vmf.spawn)
                if rng.random() < 0.6:
                    vmf.remove_ent(e)
                    self.log[-1] += ' then remove_ent once'
                    if e not in vmf.entities:
                        self.detached.append(e)
                self.run.count('entities_added_again')
                self.nontrivial = True
            elif op == 'remove_again':
                # remove_ent()/remove() of an entity that is no longer in the map is tolerated ("already removed"):
                # it must not disturb the index entries of the entities that are still there
                cands = [e for e in self.detached if e.map is vmf and e not in vmf.entities]
                if not cands:
                    return
                e = rng.choice(cands)
                self.log.append(f'remove_again map{mi} class={e["classname"]!r} name={e["targetname"]!r} (not in the map)')
                if rng.random() < 0.5:
                    vmf.remove_ent(e)
                else:
                    e.remove()
                self.nontrivial = True
            elif op == 'readd':
                cands = [e for e in self.detached if e.map is vmf and e not in vmf.entities]
                if not cands:
                    return
                e = rng.choice(cands)
                self.detached.remove(e)
                self.log.append(f'add_ent of a previously removed/detached entity map{mi} class={e["classname"]!r} name={e["targetname"]!r}')
                vmf.add_ent(e)
                self.adds += 1
                self.nontrivial = True
        except Exception as exc:
            self.fail(f'operation {op} raised {type(exc).__name__}: {exc}', f'op-raises:{op}', traceback.format_exc()[-800:])


def run_history(run, seed: int, i: int, engine: str = 'history') -> None:
    rng = sub_rng(seed, engine, i)
    h = Hist(run, rng, i, engine)
    h.check_all()
    for _ in range(rng.randint(10, 60)):
        h.step()
        if h.bad:
            break
        h.check_all()
        if h.bad:
            break
    run.count('history_steps', len(h.log))
    run.case([engine, i, h.log], h.nontrivial, sample={'history': h.log[:8]} if i < 2 else None, tag=engine)


def main(run, shard=(0, 1)) -> None:
    import srctools.vmf as vm
    probe = ReachProbe({
        'VMF.add_ent': (vm, 'VMF.add_ent'), 'VMF.add_ents': (vm, 'VMF.add_ents'), 'VMF.remove_ent': (vm, 'VMF.remove_ent'),
        'Entity.__setitem__': (vm, 'Entity.__setitem__'), 'Entity.__delitem__': (vm, 'Entity.__delitem__'),
        'Entity.clear': (vm, 'Entity.clear'), 'Entity.pop': (vm, 'Entity.pop'), 'Entity.make_unique': (vm, 'Entity.make_unique'),
        '_remove_copyset': (vm, '_remove_copyset'), 'CopySet.__iter__': (vm, 'CopySet.__iter__'), 'VMF.search': (vm, 'VMF.search'),
    })
    probe.start()
    n = 200000 if run.tier == "thorough" else 500
    for i in range(n):
        if mine(i, shard):
            run_history(run, run.seed, i)
    probe.report(run)
    probe.check_reached(run)
    if shard[0] == 0:
        # the repository's own tests as an additional workload, with runtime contracts attached (rv/contracts.py)
        from rv.repo_tests_engine import run_repo_tests_with_contracts
        run_repo_tests_with_contracts(run, 'C07', ['test_vmf.py', 'test_instancing.py', 'test_bsp_entities.py', 'test_packlist.py'] if run.tier == 'thorough' else ['test_vmf.py', 'test_instancing.py'])
    run.require('mutating_iterations_checked', 'worldspawn_removals_asked', 'entities_added_again', 'make_unique_results_checked', 'invariant_evaluations', 'history_steps')


def replay(run, data) -> None:
    run_history(run, run.seed, int(data['case']['id']))
    run.case('pad', True)
    run.case('pad2', True)


# (kept at the end of the file so that the text above stays the description the check was first built to)
RULE += ' ' + "Later additions: remove_ent / remove() of worldspawn; add_ent / add_ents of entities already in the map (and of worldspawn), then one removal; clear() on worldspawn; non-string values for targetname / classname; search('') finds nothing. make_unique() is also asked of entities that are not, or no longer, in the map: they must stay out of the indexes."
