"""C08 IDs handed out inside one VMF are unique per kind and never reused while live.

Shape: history + invariant scan.  The harness owns every strong reference, so "object died" is an event it
decides (IDs are released from __del__): histories contain explicit drop + gc.collect() steps.
"""
from __future__ import annotations

import gc
import re
import traceback
from typing import Any, Dict, List, Optional

from rv.util import mine, sub_rng
from rv.probes import ReachProbe

PROP = 'C08'
LEVEL = 'exploration'
RULE = ('random histories (<= 50 operations) on maps opened without preserve_ids: creation of entities, brushes, faces, '
        'visgroups, groups with desired IDs (duplicates, 0, negatives, huge, -1), copy() within and across maps, '
        'remove()/remove_ent/remove_brush, dropping the last reference + gc.collect(), re-adding a removed object, creations rejected by the constructor (then collected), '
        'nodeid keys set/changed/deleted, fixup set/delete/copy with explicit duplicate replaceNN indexes, '
        'VMF.parse of documents with duplicated / missing / zero IDs, and instance collapses (collapse_one) of a '
        'template into the map. After every operation all objects reachable from each map are scanned: IDs unique '
        'per kind and positive; at the end the exported text is scanned for duplicate "id" lines per block kind. '
        'Non-trivial = history with >= 1 ID release followed by an allocation; distinct = distinct history. Additional engine: the repository\'s own tests run as a workload with the same invariants attached as runtime contracts (rv/contracts.py).')
ASSUMPTIONS = ['"live" means reachable from the VMF object (entities, spawn, brushes, entity solids, faces, groups, visgroup tree)',
               'objects are only added to the VMF they were created for (documented API contract)',
               'replaceNN indexes given explicitly by the caller may be any positive number; only uniqueness and positivity are required']
JOBS = {'quick': 2, 'thorough': 16}

IDS = [-1, -1, -1, 0, 1, 1, 2, 3, 5, 5, -7, 10 ** 9, 2 ** 40]


class Hist:
    def __init__(self, run, rng, case_id: int, engine: str) -> None:
        from srctools.vmf import VMF
        self.run, self.rng, self.case_id, self.engine = run, rng, case_id, engine
        self.maps = [VMF(), VMF()]
        self.held: List[Any] = []  # strong refs to removed / detached objects (entities, solids)
        self.log: List[str] = []
        self.bad = False
        self.released = False
        self.nontrivial = False

    def fail(self, what: str, key: str, witness: Any = None) -> None:
        if not self.run.is_known(key):
            self.bad = True
        self.run.violation(what, witness={'detail': witness, 'history': self.log[-15:]}, case={'id': self.case_id},
                           engine=self.engine, key=key)

    def scan(self, vmf, label: str) -> None:
        last = self.log[-1] if self.log else 'start'
        op = last.split(' ')[0]
        kinds: Dict[str, List[int]] = {'entity': [], 'solid': [], 'face': [], 'group': [], 'visgroup': [], 'node': []}
        for e in list(vmf.entities) + [vmf.spawn]:
            kinds['entity'].append(e.id)
            if e is not vmf.spawn:
                for s in e.solids:
                    kinds['solid'].append(s.id)
                    kinds['face'].extend(f.id for f in s.sides)
            if 'nodeid' in e and e is not vmf.spawn:
                try:
                    kinds['node'].append(int(e['nodeid']))
                except ValueError:
                    pass
            if e._fixup is not None:
                fids = [fv.id for fv in e.fixup.copy_values()]
                if len(set(fids)) != len(fids) or any(i <= 0 for i in fids):
                    self.fail(f'{label}: entity {e.id} has fixup replaceNN indexes {sorted(fids)} after "{last}"', f'fixup-index:{op}')
                    return
        for s in vmf.brushes:
            kinds['solid'].append(s.id)
            kinds['face'].extend(f.id for f in s.sides)
        for gid, g in vmf.groups.items():
            kinds['group'].append(g.id)

        def walk(v):
            kinds['visgroup'].append(v.id)
            for c in v.child_groups:
                walk(c)
        for v in vmf.vis_tree:
            walk(v)
        for kind, ids in kinds.items():
            if any((not isinstance(i, int)) or i <= 0 for i in ids):
                self.fail(f'{label}: a live {kind} has the non-positive ID {min(ids)} after "{last}"', f'nonpositive-id:{kind}:{op}', sorted(ids)[:10])
                return
            if len(set(ids)) != len(ids):
                dup = sorted(i for i in set(ids) if ids.count(i) > 1)
                self.fail(f'{label}: live {kind} objects share ID(s) {dup[:5]} after "{last}"', f'duplicate-id:{kind}:{op}', {'ids': sorted(ids)[:30]})
                return
        self.run.count('invariant_evaluations')

    def scan_all(self) -> None:
        for i, m in enumerate(self.maps):
            if not self.bad:
                self.scan(m, f'map{i}')

    def final_text_scan(self) -> None:
        from srctools.keyvalues import Keyvalues
        for i, vmf in enumerate(self.maps):
            try:
                tree = Keyvalues.parse(vmf.export(inc_version=False))
            except Exception as exc:
                self.fail(f'export/parse of map{i} failed: {exc!r}', 'export-fails')
                return
            ids: Dict[str, List[str]] = {'entity': [], 'solid': [], 'side': [], 'group': [], 'visgroup': []}

            def walk(kv, depth=0):
                for c in kv:
                    if c.has_children():
                        if c.name in ('entity', 'world'):
                            ids['entity'].append(c['id', ''])
                            repl = [k.name for k in c if not k.has_children() and k.name.startswith('replace') and k.name[7:].isdigit()]
                            if len(set(repl)) != len(repl):
                                ids.setdefault('replaceNN', []).extend(repl)
                        elif c.name == 'group':
                            ids['group'].append(c['id', ''])
                        elif c.name == 'visgroup':
                            ids['visgroup'].append(c['visgroupid', ''])
                            walk(c, depth + 1)
                        elif c.name == 'visgroups':
                            walk(c, depth + 1)
                        elif c.name == 'solid':
                            ids['solid'].append(c['id', ''])
                        elif c.name == 'side':
                            ids['side'].append(c['id', ''])
                        if c.name in ('entity', 'world', 'solid', 'hidden'):
                            walk(c, depth + 1)
            walk(tree)
            for kind, lst in ids.items():
                if len(set(lst)) != len(lst):
                    self.fail(f'exported text of map{i} has duplicate {kind} "id" values', f'duplicate-id-in-text:{kind}', sorted(lst)[:30])
                    return
            self.run.count('text_scans')

    # ------------------------------------------------------------ operations
    def step(self) -> None:
        from srctools.vmf import Entity, Solid, Side, VisGroup, EntityGroup, FixupValue, VMF
        from srctools.math import Vec
        from srctools.keyvalues import Keyvalues
        rng = self.rng
        mi = 0 if rng.random() < 0.8 else 1
        vmf = self.maps[mi]
        op = rng.choice(['ent', 'ent', 'brush_ent', 'solid', 'side', 'vis', 'group', 'copy_ent', 'copy_ent_other', 'copy_solid',
                         'remove_ent', 'remove_ent', 'drop', 'drop', 'readd', 'readd', 'remove_brush', 'nodeid', 'nodeid_change',
                         'fixup', 'fixup_copy', 'parse_dups', 'collapse', 'copy_side', 'copy_vis', 'copy_group', 'failed_create', 'remove_again', 'prism',
                         'add_again', 'replace_side', 'add_ents_nodes', 'move_brushes'])
        try:
            if op == 'ent':
                d = rng.choice(IDS)
                e = Entity(vmf, keys={'classname': 'info_target'}, ent_id=d)
                vmf.add_ent(e)
                self.log.append(f'{op} map{mi} desired={d} -> {e.id}')
                self.nontrivial = self.nontrivial or self.released
            elif op == 'brush_ent':
                d = rng.choice(IDS)
                s = vmf.make_prism(Vec(0, 0, 0), Vec(8, 8, 8)).solid
                e = Entity(vmf, keys={'classname': 'func_brush'}, ent_id=d, solids=[s])
                vmf.add_ent(e)
                self.log.append(f'{op} map{mi} desired={d} -> {e.id}')
            elif op == 'solid':
                d = rng.choice(IDS)
                s = Solid(vmf, d, [Side(vmf, [Vec(), Vec(1, 0, 0), Vec(0, 1, 0)], des_id=rng.choice(IDS)) for _ in range(rng.randint(1, 4))])
                vmf.add_brush(s)
                self.log.append(f'{op} map{mi} desired={d} -> {s.id}')
                self.nontrivial = self.nontrivial or self.released
            elif op == 'prism':
                # the brush factories: make_prism (one brush, optionally with explicit vertices) and make_hollow (six)
                if rng.random() < 0.6:
                    pf = vmf.make_prism(Vec(0, 0, 0), Vec(64, 32 + rng.randrange(64), 16), set_points=rng.random() < 0.5)
                    vmf.add_brush(pf.solid)
                    self.log.append(f'{op} map{mi} make_prism -> {pf.solid.id}')
                else:
                    new = vmf.make_hollow(Vec(0, 0, 0), Vec(256, 256, 128), thick=rng.choice((8, 16)))
                    vmf.add_brushes(b for b in new)  # any iterable, also one that can be consumed only once
                    self.log.append(f'{op} map{mi} make_hollow -> {[b.id for b in new]}')
                self.nontrivial = self.nontrivial or self.released
            elif op == 'side':
                if not vmf.brushes:
                    return
                s = rng.choice(vmf.brushes)
                d = rng.choice(IDS)
                s.sides.append(Side(vmf, [Vec(), Vec(1, 0, 0), Vec(0, 1, 0)], des_id=d))
                self.log.append(f'{op} map{mi} desired={d} -> {s.sides[-1].id}')
            elif op == 'vis':
                d = rng.choice(IDS)
                v = VisGroup(vmf, 'v', d)
                if vmf.vis_tree and rng.random() < 0.5:
                    rng.choice(vmf.vis_tree).child_groups.append(v)
                else:
                    vmf.vis_tree.append(v)
                self.log.append(f'{op} map{mi} desired={d} -> {v.id}')
            elif op == 'group':
                d = rng.choice(IDS)
                g = EntityGroup(vmf, d)
                vmf.groups[g.id] = g
                self.log.append(f'{op} map{mi} desired={d} -> {g.id}')
            elif op in ('copy_ent', 'copy_ent_other'):
                pool = list(vmf.entities) + [h for h in self.held if isinstance(h, Entity) and h.map is vmf]
                if not pool:
                    return
                e = rng.choice(pool)
                dest = vmf if op == 'copy_ent' else self.maps[1 - mi]
                d = rng.choice(IDS)
                c = e.copy(des_id=d, vmf_file=dest if (dest is not vmf or rng.random() < 0.5) else None)
                dest.add_ent(c)
                self.log.append(f'{op} map{mi} of {e.id} desired={d} -> {c.id}')
                self.nontrivial = self.nontrivial or self.released
            elif op == 'copy_solid':
                if not vmf.brushes:
                    return
                s = rng.choice(vmf.brushes)
                dest = vmf if rng.random() < 0.6 else self.maps[1 - mi]
                c = s.copy(des_id=rng.choice(IDS), vmf_file=dest if dest is not vmf else None)
                dest.add_brush(c)
                self.log.append(f'{op} map{mi} of {s.id} -> {c.id}')
            elif op == 'copy_side':
                if not vmf.brushes:
                    return
                s = rng.choice(vmf.brushes)
                f = rng.choice(s.sides)
                s.sides.append(f.copy(des_id=rng.choice(IDS)))
                self.log.append(f'{op} map{mi} of {f.id} -> {s.sides[-1].id}')
            elif op == 'copy_vis':
                if not vmf.vis_tree:
                    return
                v = rng.choice(vmf.vis_tree)
                dest = vmf if rng.random() < 0.6 else self.maps[1 - mi]
                c = v.copy(dest if dest is not vmf else None, {}, rng.choice(IDS))
                dest.vis_tree.append(c)
                self.log.append(f'{op} map{mi} of {v.id} -> {c.id}')
            elif op == 'copy_group':
                if not vmf.groups:
                    return
                g = rng.choice(list(vmf.groups.values()))
                dest = vmf if rng.random() < 0.5 else self.maps[1 - mi]
                c = g.copy(dest)
                dest.groups[c.id] = c
                self.log.append(f'{op} map{mi} of {g.id} -> {c.id}')
            elif op == 'remove_ent':
                if not vmf.entities:
                    return
                e = rng.choice(vmf.entities)
                (e.remove if rng.random() < 0.5 else (lambda: vmf.remove_ent(e)))()
                self.held.append(e)
                self.released = True
                self.log.append(f'{op} map{mi} id={e.id} (object kept alive)')
            elif op == 'remove_brush':
                if not vmf.brushes:
                    return
                s = rng.choice(vmf.brushes)
                (s.remove if rng.random() < 0.5 else (lambda: vmf.remove_brush(s)))()
                self.held.append(s)
                self.log.append(f'{op} map{mi} id={s.id} (object kept alive)')
            elif op == 'remove_again':
                # removing an object that is already out of the map is tolerated; it must not release an ID that a live
                # object now owns (the removed object's ID may have been recycled in the meantime)
                cands = [o for o in self.held if o.map is vmf]
                if not cands:
                    return
                o = rng.choice(cands)
                if isinstance(o, Entity):
                    (o.remove if rng.random() < 0.5 else (lambda: vmf.remove_ent(o)))()
                else:
                    (o.remove if rng.random() < 0.5 else (lambda: vmf.remove_brush(o)))()
                self.log.append(f'{op} map{mi} {type(o).__name__} id={o.id} removed a second time (still held)')
                self.nontrivial = True
            elif op == 'drop':
                if not self.held:
                    return
                o = self.held.pop(rng.randrange(len(self.held)))
                self.log.append(f'{op} last reference to removed {type(o).__name__} id={o.id} + gc.collect()')
                del o
                gc.collect()
                self.released = True
            elif op == 'readd':
                cands = [o for o in self.held if o.map is vmf]
                if not cands:
                    return
                o = rng.choice(cands)
                self.held.remove(o)
                if isinstance(o, Entity):
                    vmf.add_ent(o)
                else:
                    vmf.add_brush(o)
                self.log.append(f'{op} map{mi} removed {type(o).__name__} id={o.id} added again')
                self.nontrivial = True
            elif op == 'move_brushes':
                # the brushes of a brush entity are handed to an owner that outlives it (the world, or another entity), the
                # entity is removed and collected, and new brushes are made: the moved brushes still own their IDs
                cands = [e for e in vmf.entities if e.solids]
                if not cands:
                    return
                e = rng.choice(cands)
                moved = list(e.solids)
                others = [o for o in vmf.entities if o is not e and o.solids]
                if others and rng.random() < 0.4:
                    rng.choice(others).solids.extend(moved)
                    dest = 'another entity'
                else:
                    vmf.add_brushes(moved)
                    dest = 'the world'
                if rng.random() < 0.5:
                    e.solids.clear()
                (e.remove if rng.random() < 0.5 else (lambda: vmf.remove_ent(e)))()
                eid = e.id
                del e, cands
                gc.collect()
                fresh = [vmf.make_prism(Vec(0, 0, 0), Vec(4, 4, 4)).solid for _ in range(len(moved) + 1)]
                if rng.random() < 0.5:
                    vmf.add_brushes(fresh)
                else:
                    vmf.add_ent(Entity(vmf, keys={'classname': 'func_detail'}, solids=fresh))
                self.run.count('brushes_moved_out_of_a_collected_entity', len(moved))
                self.released = self.nontrivial = True
                self.log.append(f'{op} map{mi}: {len(moved)} brushes of entity {eid} moved to {dest}, entity removed and collected, '
                                f'{len(fresh)} new brushes made')
            elif op == 'add_again':
                # an entity that is in the map already is added once more: it must not end up in the file twice
                if not vmf.entities:
                    return
                e = rng.choice(vmf.entities)
                if rng.random() < 0.5:
                    vmf.add_ent(e)
                else:
                    vmf.add_ents(iter([e, e]))
                self.run.count('entities_added_again')
                self.log.append(f'{op} map{mi} entity {e.id} added again')
            elif op == 'replace_side':
                # a face leaves its (still live) brush: replaced by a new one, or deleted; once collected its ID is free again
                cands = [b for b in vmf.brushes if b.sides]
                if not cands:
                    return
                b = rng.choice(cands)
                k = rng.randrange(len(b.sides))
                old_id = b.sides[k].id
                if rng.random() < 0.6:
                    b.sides[k] = Side(vmf, [Vec(), Vec(1, 0, 0), Vec(0, 1, 0)], des_id=rng.choice(IDS + [old_id]))
                else:
                    del b.sides[k]
                gc.collect()
                self.released = True
                extra = Side(vmf, [Vec(), Vec(0, 1, 0), Vec(1, 0, 0)], des_id=old_id)
                b.sides.append(extra)
                self.run.count('faces_replaced_in_live_brushes')
                self.log.append(f'{op} map{mi} brush {b.id}: face {old_id} replaced/deleted, then a face asked for {old_id} -> {extra.id}')
                self.nontrivial = True
            elif op == 'add_ents_nodes':
                # node entities built detached and added through add_ents(): colliding node IDs are re-allocated there too
                want = [rng.choice((1, 1, 2, 5)) for _ in range(rng.choice((1, 2, 3)))]
                key = rng.choice(('nodeid', 'nodeid', 'NodeID', 'NODEID'))
                new = [Entity(vmf, keys={'classname': 'info_node', key: str(w)}) for w in want]
                vmf.add_ents(iter(new) if rng.random() < 0.5 else new)
                self.log.append(f'{op} map{mi} {key} wanted {want} -> {[e["nodeid"] for e in new]}')
                self.nontrivial = True
            elif op == 'nodeid':
                d = rng.choice((1, 1, 2, 5, 5, 0, -3, 'x'))
                e = vmf.create_ent('info_node', **{rng.choice(('nodeid', 'nodeid', 'NodeID')): d})
                self.log.append(f'{op} map{mi} desired={d} -> {e["nodeid"]}')
            elif op == 'nodeid_change':
                nodes = [e for e in vmf.entities if 'nodeid' in e]
                if not nodes:
                    return
                e = rng.choice(nodes)
                r = rng.random()
                # the key is addressed as it is stored (whatever its letter case), or in another spelling
                stored = next(k for k in e if k.casefold() == 'nodeid')
                key = stored if rng.random() < 0.6 else rng.choice(('nodeid', 'NodeID', 'NODEID'))
                if r < 0.4:
                    e[key] = rng.choice((1, 2, 5, 9))
                elif r < 0.6:
                    del e[key]
                elif r < 0.8:
                    e.pop(key)
                else:
                    c = e.copy()
                    vmf.add_ent(c)
                self.log.append(f'{op} map{mi}')
            elif op == 'fixup':
                if not vmf.entities:
                    return
                e = rng.choice(vmf.entities)
                r = rng.random()
                if r < 0.3:
                    e.fixup[rng.choice(('a', 'B', '$c', 'dd', 'A'))] = rng.randrange(100)
                elif r < 0.4:
                    # the other ways of adding variables: the mapping methods
                    how = rng.randrange(4)
                    if how == 0:
                        if rng.random() < 0.6:
                            # a gap in the indexes first: variables added, an early one deleted again
                            for nm in ('g1', 'g2', 'g3'):
                                e.fixup[nm] = nm
                            del e.fixup[rng.choice(('g1', 'g2'))]
                        e.fixup.setdefault(rng.choice(('$new', 'a', 'E2', '$zz')), 'dflt')
                        e.fixup.setdefault('$second_default', 'dflt')
                    elif how == 1:
                        e.fixup.update({rng.choice(('u1', '$a', 'U2')): '1', 'u3': '2'})
                    elif how == 2:
                        e.fixup.update([('p1', 'x'), ('$B', 'y')], kw1='z')
                    else:
                        import pickle as _pickle
                        import copy as _cp
                        twin = _pickle.loads(_pickle.dumps(e.fixup)) if rng.random() < 0.5 else _cp.deepcopy(e.fixup)
                        twin['after_copy'] = '1'
                        twin.setdefault('$and_more', '2')
                        tids = [fv.id for fv in twin.copy_values()]
                        if len(set(tids)) != len(tids) or any(t <= 0 for t in tids):
                            self.fail(f'map{mi}: a pickled/deep-copied fixup table has the replaceNN indexes {sorted(tids)} after two insertions', f'fixup-index:{op}')
                            return
                elif r < 0.45:
                    e.fixup.clear()
                    e.fixup['fresh'] = '1'
                elif r < 0.7:
                    del e.fixup[rng.choice(('a', 'b', 'c', 'dd', 'u3', 'new'))]
                else:
                    names = rng.sample(['a', 'b', 'c', 'd', 'e', 'f'], rng.randint(2, 6))
                    e2 = Entity(vmf, keys={'classname': 'func_instance'}, fixup=[FixupValue(v, 'x', rng.choice((1, 1, 2, 2, 3, 4, 7, 99, 0, 0, -1, 100))) for v in names])
                    vmf.add_ent(e2)
                    e2.fixup['new'] = '1'
                self.log.append(f'{op} map{mi} ent={e.id}')
            elif op == 'fixup_copy':
                cands = [e for e in vmf.entities if e._fixup is not None]
                if not cands:
                    return
                e = rng.choice(cands)
                c = e.copy()
                vmf.add_ent(c)
                c.fixup['extra'] = '5'
                e.fixup['other'] = '6'
                import copy as _copy
                f2 = _copy.copy(e.fixup)
                f2['third'] = '7'
                self.log.append(f'{op} map{mi} ent={e.id}')
            elif op == 'parse_dups':
                ids = [rng.choice((1, 1, 2, 2, 3, 0, 7)) for _ in range(4)]
                doc = 'world\n{\n"id" "%s"\n"classname" "worldspawn"\n' % ids[0]
                doc += 'solid\n{\n"id" "%s"\nside\n{\n"id" "%s"\n"plane" "(0 0 0) (1 0 0) (0 1 0)"\n}\nside\n{\n"id" "%s"\n"plane" "(0 0 0) (1 0 0) (0 1 0)"\n}\n}\n' % (ids[1], ids[2], ids[2])
                doc += 'solid\n{\n"id" "%s"\nside\n{\n"id" "%s"\n"plane" "(0 0 0) (1 0 0) (0 1 0)"\n}\n}\n' % (ids[1], ids[3])
                if rng.random() < 0.5:  # hidden world brushes, colliding with the visible ones
                    doc += 'hidden\n{\nsolid\n{\n"id" "%s"\nside\n{\n"id" "%s"\n"plane" "(0 0 0) (1 0 0) (0 1 0)"\n}\neditor\n{\n"groupid" "4"\n"visgroupid" "3"\n}\n}\n}\n' % (ids[1], ids[3])
                doc += 'group\n{\n"id" "4"\n}\ngroup\n{\n"id" "4"\n}\n}\n'
                for k in range(3):
                    doc += 'entity\n{\n"id" "%s"\n"classname" "info_node"\n"nodeid" "%s"\n"replace01" "$a 1"\n"replace01" "$b 2"\n"replace%s" "$c 3"\n}\n' % (ids[k], rng.choice((1, 1, 2)), rng.choice(('00', '00', '-1', '02', '100')))
                if rng.random() < 0.6:  # a brush entity (visible or hidden) whose brush and face IDs collide with the world's
                    ent = ('entity\n{\n"id" "%s"\n"classname" "func_detail"\n'
                           'solid\n{\n"id" "%s"\nside\n{\n"id" "%s"\n"plane" "(0 0 0) (1 0 0) (0 1 0)"\n}\n}\n'
                           'hidden\n{\nsolid\n{\n"id" "%s"\nside\n{\n"id" "%s"\n"plane" "(0 0 0) (1 0 0) (0 1 0)"\n}\n}\n}\n'
                           'editor\n{\n"groupid" "4"\n"visgroupid" "3"\n}\n}\n') % (ids[0], ids[1], ids[2], ids[1], ids[3])
                    doc += ('hidden\n{\n' + ent + '}\n') if rng.random() < 0.4 else ent
                doc += 'visgroups\n{\nvisgroup\n{\n"name" "a"\n"visgroupid" "3"\nvisgroup\n{\n"name" "b"\n"visgroupid" "3"\n}\n}\nvisgroup\n{\n"name" "c"\n"visgroupid" "3"\n}\n}\n'
                self.maps[mi] = VMF.parse(Keyvalues.parse(doc))
                self.held = [o for o in self.held if o.map is not vmf]
                self.log.append(f'{op} map{mi} := parse(document with ids {ids})')
                del vmf
                gc.collect()
            elif op == 'failed_create':
                # creations rejected by the constructor (wrong arguments); the half-built object is then collected.
                # Nothing becomes live, but the attempt must not disturb the IDs of live objects or the allocator.
                kind = rng.choice(('side-planes', 'solid-visgroups', 'entity-fixup', 'visgroup-id'))
                import sys as _sys
                old_hook = _sys.unraisablehook
                _sys.unraisablehook = lambda *a: None  # a half-built object's __del__ may raise AttributeError: only noise
                try:
                    if kind == 'side-planes':
                        Side(vmf, [Vec(), Vec(1, 0, 0)], des_id=rng.choice(IDS))
                    elif kind == 'solid-visgroups':
                        Solid(vmf, rng.choice(IDS + [s.id for s in vmf.brushes][:3]), [], visgroup_ids=5)  # type: ignore
                    elif kind == 'entity-fixup':
                        Entity(vmf, keys={'classname': 'x'}, ent_id=rng.choice(IDS + [e.id for e in vmf.entities][:3]), fixup=[1, 2])  # type: ignore
                    else:
                        VisGroup(vmf, 'v', 'not-a-number')  # type: ignore
                    self.log.append(f'{op} map{mi} {kind}: unexpectedly accepted')
                except (ValueError, TypeError, AttributeError) as exc:
                    self.log.append(f'{op} map{mi} {kind}: rejected with {type(exc).__name__}')
                gc.collect()
                _sys.unraisablehook = old_hook
                self.released = True
            elif op == 'collapse':
                self.collapse(vmf, mi)
        except Exception as exc:
            self.fail(f'operation {op} raised {type(exc).__name__}: {exc}', f'op-raises:{op}', traceback.format_exc()[-900:])

    def collapse(self, vmf, mi: int) -> None:
        """Collapse a small template (two entities, one brush entity, one world brush) into the map."""
        from srctools.vmf import VMF
        from srctools.math import Vec
        from srctools import instancing
        rng = self.rng
        shared = getattr(self, 'shared_ifile', None)
        if shared is not None and rng.random() < 0.5:
            # the instance file of an earlier collapse, used again - for this map or for the other one
            inst_ent = vmf.create_ent('func_instance', targetname='inst_again', origin='0 64 0', angles='0 0 0', file='x.vmf')
            inst = instancing.Instance.from_entity(inst_ent)
            instancing.collapse_one(vmf, inst, shared, visgroup=rng.choice((True, True, False)))
            self.run.count('instance_files_collapsed_again')
            self.log.append(f'collapse map{mi} an instance file used before collapsed again (visgroups kept or not)')
            self.nontrivial = True
            return
        tmpl = VMF()
        tmpl.add_brush(tmpl.make_prism(Vec(0, 0, 0), Vec(16, 16, 16)).solid)
        tmpl.create_ent('info_target', targetname='t', origin='0 0 0')
        be = tmpl.create_ent('func_brush', targetname='b')
        be.solids.append(tmpl.make_prism(Vec(0, 0, 0), Vec(4, 4, 4)).solid)
        from srctools.vmf import VisGroup
        # visgroups in the template (IDs that collide with the target's) and the three visgroup modes of collapse_one
        tv = VisGroup(tmpl, 'tv', rng.choice((-1, 1, 3)))
        tv.child_groups.append(VisGroup(tmpl, 'child', rng.choice((-1, 2))))
        tmpl.vis_tree.append(tv)
        be.visgroup_ids.add(tv.id)
        tmpl.create_ent('info_node', nodeid=rng.choice((1, 2, 5)), origin='1 1 1')
        inst_ent = vmf.create_ent('func_instance', targetname='inst', origin='64 0 0', angles='0 90 0', file='x.vmf')
        inst = instancing.Instance.from_entity(inst_ent)
        ifile = instancing.InstanceFile(tmpl)
        self.shared_ifile = ifile
        for _ in range(rng.randint(1, 2)):
            mode = rng.choice((False, True, 'group'))
            if mode == 'group':
                holder = VisGroup(vmf, 'holder')
                vmf.vis_tree.append(holder)
                instancing.collapse_one(vmf, inst, ifile, visgroup=holder)
            else:
                instancing.collapse_one(vmf, inst, ifile, visgroup=mode)
        self.log.append(f'collapse map{mi} template collapsed into the map')
        self.nontrivial = self.nontrivial or self.released


def run_history(run, seed: int, i: int, engine: str = 'history') -> None:
    rng = sub_rng(seed, engine, i)
    h = Hist(run, rng, i, engine)
    for _ in range(rng.randint(8, 50)):
        h.step()
        if h.bad:
            break
        h.scan_all()
        if h.bad:
            break
    if not h.bad:
        h.final_text_scan()
    run.count('history_steps', len(h.log))
    run.case([engine, i, h.log], h.nontrivial, sample={'history': h.log[:8]} if i < 2 else None, tag=engine)
    h.held.clear()
    h.maps.clear()


def main(run, shard=(0, 1)) -> None:
    import srctools.vmf as vm
    probe = ReachProbe({
        'IDMan.get_id': (vm, 'IDMan.get_id'), 'IDMan.discard': (vm, 'IDMan.discard'), 'Entity.__del__': (vm, 'Entity.__del__'),
        'Solid.__del__': (vm, 'Solid.__del__'), 'Side.__del__': (vm, 'Side.__del__'), 'VMF.remove_ent': (vm, 'VMF.remove_ent'),
        'EntityFixup.__setitem__': (vm, 'EntityFixup.__setitem__'), 'EntityFixup.__init__': (vm, 'EntityFixup.__init__'),
    })
    probe.start()
    n = 100000 if run.tier == "thorough" else 400
    for i in range(n):
        if mine(i, shard):
            run_history(run, run.seed, i)
    probe.report(run)
    probe.check_reached(run)
    if shard[0] == 0:
        # the repository's own tests as an additional workload, with runtime contracts attached (rv/contracts.py)
        from rv.repo_tests_engine import run_repo_tests_with_contracts
        run_repo_tests_with_contracts(run, 'C08', ['test_vmf.py', 'test_instancing.py', 'test_bsp_entities.py', 'test_packlist.py'] if run.tier == 'thorough' else ['test_vmf.py', 'test_instancing.py'])
    run.require('invariant_evaluations', 'text_scans', 'entities_added_again', 'faces_replaced_in_live_brushes')


def replay(run, data) -> None:
    run_history(run, run.seed, int(data['case']['id']))
    run.case('pad', True)
    run.case('pad2', True)


# (kept at the end of the file so that the text above stays the description the check was first built to)
RULE += ' ' + 'Later additions: entities added again (the file must not hold them twice); faces replaced / deleted in live brushes; add_ents() of detached node entities; the node-ID key addressed in the spelling it is stored under (NodeID, NODEID); fixup indexes 0, -1, 100 and replace00 / replace-1 / replace100 in parsed documents; group, visgroup and replaceNN lines in the text scan. Brushes are moved out of a brush entity into the world or another entity before the entity is removed and collected; brushes made afterwards must not receive the IDs of the moved ones. The instance file of an earlier collapse is collapsed again, into the same map or into the other one, with its visgroups kept.'
