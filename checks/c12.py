"""C12 Atomic file replacement: old or new contents, never a mixture.

Fault enumeration.  rv/failpoints.py numbers every file-operation boundary of the writer; a recording run counts
them, then EVERY boundary is re-run with (a) a crash (fork + os._exit(137) at the boundary, parent inspects the
directory), (b) an injected OSError (EIO, ENOSPC, EACCES).  Two writers in one directory are interleaved
deterministically by gating threads at pairs of boundaries.  The thorough tier repeats the matrix at system-call
level with `strace -e inject=` (no in-process instrumentation at all).
"""
from __future__ import annotations

import errno
import itertools
import os
import pathlib
import shutil
import signal
import subprocess
import sys
import tempfile
import threading
import traceback
from typing import Any, Dict, List, Optional, Tuple

from rv import bootstrap
from rv.util import mine, sub_rng, quiet_stdout
from rv.failpoints import Layer
from rv.probes import ReachProbe

PROP = 'C12'
LEVEL = 'fault_enumeration'
RULE = ('scenarios = AtomicWriter in bytes/text mode with 0..5 body writes (sizes straddling the io buffer), explicit '
        'flushes, body raising at each write, writers abandoned without exit (dropped and garbage collected, reference cycle, ExitStack.pop_all, interpreter shutdown), pre-existing stale tmp_1, missing parent directory, writer object used for two consecutive cycles, '
        'destination present or absent; for each scenario EVERY operation boundary (before/after each open, write, '
        'flush, close, replace, unlink, mkdir) x {crash, EIO, ENOSPC, EACCES}; BSP.save on tests/test_vec/rot_main.bsp: '
        'every boundary for crashes (a seeded third in quick), seeded sample for faults; two writers in one directory '
        'interleaved at every pair of boundaries (both orders; destination name pairs: unrelated, same stem with different extensions, one name extending the other); thorough: the same scenarios under strace inject= at '
        'the k-th openat/write/close/rename/unlink system call (errors and SIGKILL). Oracle after each run: directory '
        'listing and bytes - crash: destination in {old, new}; handled failure: destination == old and no new tmp_*; '
        'success: destination == new and no new tmp_*. Non-trivial = the boundary lies strictly inside the write '
        'sequence (after the temp file was opened, before the writer returned); distinct = distinct (scenario, boundary, action).')
ASSUMPTIONS = ['durability under power loss (fsync before rename) is not claimed by the property and not observable with process kills',
               'a fault injected into the cleanup unlink itself cannot leave the directory clean; such runs are judged on the destination only',
               'crash = os._exit(137) in a forked child at the boundary (no finally, no buffered flush), cross-checked by SIGKILL under strace in thorough']
JOBS = {'quick': 1, 'thorough': 1}
WATCHDOG_S = {'quick': 900, 'thorough': 3600}

OLD = b'OLD-CONTENT-' + bytes(range(256)) * 40 + b'-END-OLD'
ERRNOS = [errno.EIO, errno.ENOSPC, errno.EACCES]


def new_chunks(scn: dict) -> List[bytes]:
    out = []
    for i, n in enumerate(scn['writes']):
        out.append((b'N%d-' % i) + bytes((i * 7 + j) % 251 for j in range(n)))
    return out


def expected_new(scn: dict) -> bytes:
    return b''.join(new_chunks(scn))


class BodyError(Exception):
    pass


def run_writer(directory: str, scn: dict, dest_name: str = 'dest.bin') -> str:
    """Drive the real AtomicWriter through one scenario.  Returns 'ok' or 'handled:<Exc>'."""
    from srctools import AtomicWriter
    sub = os.path.join(directory, 'newdir', 'deep') if scn.get('missing_parent') else directory
    dest = os.path.join(sub, dest_name)
    dest_arg: Any = pathlib.Path(dest) if len(scn['writes']) % 2 else dest  # str and os.PathLike are both documented
    writer = AtomicWriter(dest_arg, is_bytes=True) if scn['is_bytes'] else AtomicWriter(dest_arg, is_bytes=False, encoding=scn.get('encoding', 'latin1'))
    try:
        if scn.get('reenter'):
            # "can be repeated": a first complete cycle with the same writer object (it commits the OLD bytes again,
            # so the expected previous contents stay well defined wherever a fault lands)
            with writer as f0:
                f0.write(OLD if scn['is_bytes'] else OLD.decode('latin1'))
        if scn.get('restart'):
            # an attempt that was started and never finished, then the same writer is started again: "starting the context
            # manager clears the file" - the first temporary file is closed and deleted by the second start
            f_first = writer.__enter__()
            f_first.write(b'FIRST-ATTEMPT' * 700 if scn['is_bytes'] else 'FIRST-ATTEMPT' * 700)
        if scn.get('exit_only'):
            writer.__exit__(None, None, None)  # exit without enter: nothing to commit, nothing to clean
            return 'handled:never-entered:'
        with writer as f:
            for i, chunk in enumerate(new_chunks(scn)):
                if scn.get('raise_at') == i:
                    # the body can be left by any BaseException: an ordinary error, Ctrl-C, sys.exit() or the close of a
                    # generator that holds the writer open
                    raise {'KeyboardInterrupt': KeyboardInterrupt, 'SystemExit': SystemExit, 'GeneratorExit': GeneratorExit}.get(scn.get('exc'), BodyError)('body failed')
                f.write(chunk if scn['is_bytes'] else chunk.decode('latin1'))
                if i in scn.get('flush_after', ()):
                    f.flush()
            if scn.get('raise_at') == len(scn['writes']):
                raise BodyError('body failed at the end')
    except BaseException as exc:
        if isinstance(exc, SystemExit) and scn.get('exc') != 'SystemExit':
            raise
        return f'handled:{type(exc).__name__}:{getattr(exc, "errno", "")}'
    return 'ok'


def prepare(scn: dict) -> Tuple[str, str, set]:
    d = tempfile.mkdtemp(prefix='rv-c12-')
    sub = os.path.join(d, 'newdir', 'deep') if scn.get('missing_parent') else d
    dest = os.path.join(sub, 'dest.bin')
    if scn.get('dest_exists', True) and not scn.get('missing_parent'):
        with open(dest, 'wb') as f:
            f.write(OLD)
        if scn.get('dest_mode') is not None:
            os.chmod(dest, scn['dest_mode'])
    if scn.get('stale_tmp'):
        with open(os.path.join(d, 'tmp_1'), 'wb') as f:
            f.write(b'stale temp of a dead process')
    before = set(os.listdir(sub)) if os.path.isdir(sub) else set()
    return d, dest, before


def inspect(dest: str, before: set) -> Tuple[Optional[bytes], List[str]]:
    sub = os.path.dirname(dest)
    content = None
    if os.path.exists(dest):
        with open(dest, 'rb') as f:
            content = f.read()
    # anything new beside the destination counts as a leftover, whatever the writer calls its temporary files
    new_tmps = sorted(n for n in (os.listdir(sub) if os.path.isdir(sub) else []) if n not in before and n != os.path.basename(dest))
    return content, new_tmps


def judge(run, scn: dict, outcome: str, dest: str, before: set, action: tuple, log: List[tuple], engine: str, case: dict) -> None:
    """Directory oracle after one run."""
    content, tmps = inspect(dest, before)
    sub = os.path.dirname(dest)
    gone = sorted(n for n in before if n != os.path.basename(dest) and not os.path.exists(os.path.join(sub, n)))
    if gone and outcome != 'crashed':
        # a file that was in the directory before this writer started is not this writer's to delete (it may be the
        # temporary file of another writer, or what a dead process left behind)
        run.violation(f'the writer removed {gone} which it had not created [outcome {outcome}]', witness={'scenario': scn, 'action': list(action)},
                      case=case, engine=engine, key='foreign-file-removed')
    # the destination itself is only ever replaced by a rename: the writer never opens it for writing (a fallback that
    # rewrites it in place is not atomic, whether or not this particular run was interrupted there)
    dname = os.path.basename(dest)
    in_place = [f'{k}:{kind} {name}' for k, kind, name in log if name == dname and kind.startswith('open ') and any(c in kind[5:] for c in 'wxa+')]
    if in_place:
        run.violation(f'the writer opened the destination itself for writing ({in_place[0]}) [outcome {outcome}]',
                      witness={'scenario': scn, 'action': list(action), 'boundaries': [f'{k}:{kind} {name}' for k, kind, name in log][:40]},
                      case=case, engine=engine, key='destination-written-in-place')
    old = OLD if (scn.get('dest_exists', True) and not scn.get('missing_parent')) else None
    new = expected_new(scn)
    what_boundary = next((f'{k}:{kind} {name}' for k, kind, name in log if action[0] != 'none' and k == action[1]), 'none')
    tag = {'none': 'no injection', 'crash': 'crash',
           'fault': 'injected ' + (action[2] if isinstance(action[2], str) else errno.errorcode.get(action[2], '?')) if action[0] == 'fault' else ''}[action[0]]
    run.count('directory_inspections')

    def fail(what: str, key: str) -> None:
        run.violation(f'{what} [{tag} at boundary {what_boundary}; outcome {outcome}]',
                      witness={'boundaries': [f'{k}:{kind} {name}' for k, kind, name in log][:60], 'dest_len': None if content is None else len(content),
                               'old_len': None if old is None else len(old), 'new_len': len(new), 'leftover': tmps, 'scenario': scn},
                      case=case, engine=engine, key=key)
    if outcome == 'crashed':
        if content != old and content != new:
            fail('after a crash the destination holds neither the old nor the new contents', 'torn-destination:crash')
        return
    if outcome == 'ok':
        if content != new:
            fail('the writer returned normally but the destination does not hold the new contents', 'success-wrong-content')
        if tmps:
            fail(f'the writer returned normally but left {tmps} behind', 'temp-left-on-success')
        return
    # handled failure
    if content != old:
        key = 'torn-destination:fault' if content != new else 'failure-but-destination-replaced'
        fail('a handled failure changed the destination', key)
    if tmps:
        kind = what_boundary.split(':', 1)[1].split(' ')[0] if ':' in what_boundary else 'body'
        if kind in ('unlink', 'remove'):
            run.count('cleanup_unlink_faults_excused')
            return
        mech = {'close': 'temp-left-on-close-failure', 'replace': 'temp-left-on-replace-failure', 'rename': 'temp-left-on-replace-failure'}.get(kind, f'temp-left-on-{kind}-failure')
        if action[0] == 'none':
            mech = 'temp-left-on-body-failure'
        fail(f'a handled failure left {tmps} behind', mech)


def scenarios(thorough: bool) -> List[dict]:
    out: List[dict] = []
    sizes = [[], [5], [9000], [3, 70000], [8192, 1, 8191], [100, 0, 20000, 7, 40000]]
    for is_bytes in (True, False):
        for w in sizes:
            out.append({'is_bytes': is_bytes, 'writes': w})
            if w:
                out.append({'is_bytes': is_bytes, 'writes': w, 'flush_after': [0]})
            for r in range(len(w) + 1):
                if thorough or r in (0, len(w)):
                    out.append({'is_bytes': is_bytes, 'writes': w, 'raise_at': r})
    for kind in ('KeyboardInterrupt', 'SystemExit', 'GeneratorExit'):
        out.append({'is_bytes': True, 'writes': [9000, 20000], 'raise_at': 1, 'exc': kind, 'no_faults': True})
        out.append({'is_bytes': False, 'writes': [70000], 'raise_at': 1, 'exc': kind, 'no_faults': True})
    out.append({'is_bytes': True, 'writes': [9000, 9000], 'stale_tmp': True})
    out.append({'is_bytes': True, 'writes': [9000, 9000], 'stale_tmp': True, 'raise_at': 1})
    out.append({'is_bytes': True, 'writes': [20000], 'missing_parent': True})
    out.append({'is_bytes': True, 'writes': [20000], 'dest_exists': False})
    out.append({'is_bytes': True, 'writes': [20000], 'dest_exists': False, 'raise_at': 0})
    # the destination as the operating system may present it: read-only (a checked-in or write-protected file), owner-only
    out.append({'is_bytes': True, 'writes': [9000, 20000], 'dest_mode': 0o444})
    out.append({'is_bytes': False, 'writes': [70000], 'dest_mode': 0o444, 'raise_at': 1})
    out.append({'is_bytes': True, 'writes': [5], 'dest_mode': 0o400, 'flush_after': [0]})
    # a text writer whose encoding name is unknown: the failure happens in __enter__, after open() has created the file
    out.append({'is_bytes': False, 'writes': [5], 'encoding': 'no-such-encoding', 'no_faults': True})
    out.append({'is_bytes': True, 'writes': [12000, 5], 'reenter': True})
    out.append({'is_bytes': False, 'writes': [12000, 5], 'reenter': True, 'raise_at': 1})
    # restarted attempts and an exit without enter: judged without injected faults and under crashes only (an injected
    # failure of the clean-up of the FIRST attempt leaves that attempt's file, which no clause speaks about)
    out.append({'is_bytes': True, 'writes': [12000, 5], 'restart': True, 'no_faults': True})
    out.append({'is_bytes': False, 'writes': [9000], 'restart': True, 'raise_at': 1, 'no_faults': True})
    out.append({'is_bytes': True, 'writes': [5], 'restart': True, 'no_faults': True})   # the second attempt is SHORTER than the abandoned one
    out.append({'is_bytes': False, 'writes': [], 'restart': True, 'no_faults': True})    # ... or writes nothing at all
    out.append({'is_bytes': True, 'writes': [5], 'exit_only': True, 'no_faults': True})
    return out


def record(scn: dict) -> List[tuple]:
    d, dest, before = prepare(scn)
    layer = Layer(d)
    layer.install()
    try:
        run_writer(d, scn)
    finally:
        layer.uninstall()
        shutil.rmtree(d, ignore_errors=True)
    return layer.log


def run_with_action(run, scn: dict, action: tuple, engine: str, case: dict) -> None:
    d, dest, before = prepare(scn)
    try:
        if action[0] == 'crash':
            sys.stdout.flush()
            pid = os.fork()
            if pid == 0:
                try:
                    layer = Layer(d)
                    layer.action = action
                    layer.install()
                    run_writer(d, scn)
                finally:
                    os._exit(0)
            _, status = os.waitpid(pid, 0)
            code = os.waitstatus_to_exitcode(status)
            run.count('crash_runs')
            log = record_cache(scn)
            if code == 137:
                judge(run, scn, 'crashed', dest, before, action, log, engine, case)
            else:
                run.count('crash_boundary_not_reached')
        else:
            layer = Layer(d)
            layer.action = action if action[0] == 'fault' else None
            layer.install()
            try:
                outcome = run_writer(d, scn)
            finally:
                layer.uninstall()
            if action[0] == 'fault':
                run.count('fault_runs')
                if not layer.fired:
                    run.count('fault_boundary_not_reached')
            judge(run, scn, outcome, dest, before, action, layer.log, engine, case)
    finally:
        shutil.rmtree(d, ignore_errors=True)


_record_cache: Dict[str, List[tuple]] = {}


def record_cache(scn: dict) -> List[tuple]:
    key = repr(sorted(scn.items()))
    if key not in _record_cache:
        _record_cache[key] = record(scn)
    return _record_cache[key]


def enumerate_writer(run, thorough: bool) -> None:
    total = 0
    for si, scn in enumerate(scenarios(thorough)):
        log = record_cache(scn)
        case = {'scenario': scn}
        run_with_action(run, scn, ('none',), 'atomicwriter', case)
        n = len(log)
        run.count('boundaries_enumerated', n)
        opened = next((k for k, kind, _ in log if kind.startswith('open x')), 0)
        for k, kind, name in log:
            inside = k > opened
            run_with_action(run, scn, ('crash', k), 'atomicwriter', {'scenario': scn, 'action': ['crash', k]})
            run.case([si, 'crash', k], inside)
            if not kind.endswith('/done') and not scn.get('no_faults'):
                for e in ERRNOS:
                    run_with_action(run, scn, ('fault', k, e), 'atomicwriter', {'scenario': scn, 'action': ['fault', k, e]})
                    run.case([si, 'fault', k, e], inside)
                # an exception that is not an OSError arriving at the same boundary (Ctrl-C, out of memory)
                e2 = ('KeyboardInterrupt', 'MemoryError')[(si + k) % 2]
                run_with_action(run, scn, ('fault', k, e2), 'atomicwriter', {'scenario': scn, 'action': ['fault', k, e2]})
                run.count('non_oserror_injections')
                run.case([si, 'fault', k, e2], inside)
            total += 1
        if si < 2:
            run.sample({'scenario': scn, 'boundaries': [f'{k}:{kind} {name}' for k, kind, name in log]}, 'atomicwriter')
    run.extra['scenarios'] = len(scenarios(thorough))
    run.extra['exhaustive_over_recorded_boundaries'] = True


def directory_destination(run) -> None:
    """The destination path is an existing directory: the commit cannot happen, which is a handled failure like any other -
    an error is raised, the directory stays as it was and the temporary file is gone."""
    from srctools import AtomicWriter
    for is_bytes in (True, False):
        d = tempfile.mkdtemp(prefix='rv-c12-')
        try:
            dest = os.path.join(d, 'output')
            os.mkdir(dest)
            with open(os.path.join(dest, 'kept.txt'), 'w') as f:
                f.write('inside')
            case = {'scenario': {'dest_is_directory': True, 'is_bytes': is_bytes}}
            outcome = 'ok'
            try:
                with AtomicWriter(dest, is_bytes=is_bytes) as f:
                    f.write(b'NEW' * 3000 if is_bytes else 'NEW' * 3000)
            except OSError as exc:
                outcome = f'handled:{type(exc).__name__}'
            except Exception as exc:
                outcome = f'other:{type(exc).__name__}'
            run.count('directory_destination_runs')
            inside, beside = sorted(os.listdir(dest)), sorted(os.listdir(d))
            if not outcome.startswith('handled:') or inside != ['kept.txt'] or beside != ['output']:
                run.violation(f'writing to a path that is a directory ended with {outcome}; the directory holds {inside}, its parent {beside}',
                              case=case, engine='atomicwriter', key='directory-destination')
        finally:
            shutil.rmtree(d, ignore_errors=True)


# ------------------------------------------------------------------ abandoned writers
ABANDON_DRIVER = r'''
import sys, os
sys.path[:0] = [{src!r}, {shim!r}]
from srctools import AtomicWriter
w = AtomicWriter(sys.argv[1], is_bytes=True)
f = w.__enter__()
f.write(b'PARTIAL-NEW-DATA' * int(sys.argv[2]))
{ending}
'''


def abandoned(run, thorough: bool) -> None:
    """A writer that is entered, partly written and never exited: dropped + garbage collected in-process, and left open
    at interpreter shutdown (sys.exit, falling off the end of the script, an uncaught exception).  The destination must
    keep its previous contents (a leftover temp file is not a *handled* failure and is not judged)."""
    import gc
    from srctools import AtomicWriter
    for is_bytes in (True, False):
        for n_writes in (0, 1, 3):
            for how in ('del+gc', 'cycle+gc', 'exitstack-pop_all'):
                d = tempfile.mkdtemp(prefix='rv-c12-')
                try:
                    dest = os.path.join(d, 'dest.bin')
                    with open(dest, 'wb') as f0:
                        f0.write(OLD)
                    w = AtomicWriter(dest, is_bytes=True) if is_bytes else AtomicWriter(dest, is_bytes=False, encoding='latin1')
                    if how == 'exitstack-pop_all':
                        import contextlib
                        with contextlib.ExitStack() as stack:
                            fh = stack.enter_context(w)
                            for k in range(n_writes):
                                fh.write(b'PARTIAL' * 3000 if is_bytes else 'PARTIAL' * 3000)
                            stack.pop_all()  # ownership dropped: nobody will ever call __exit__
                    else:
                        fh = w.__enter__()
                        for k in range(n_writes):
                            fh.write(b'PARTIAL' * 3000 if is_bytes else 'PARTIAL' * 3000)
                        if how == 'cycle+gc':
                            w._self_cycle = w  # only reachable through a reference cycle
                    del w, fh
                    gc.collect()
                    run.count('abandon_runs')
                    with open(dest, 'rb') as f0:
                        now = f0.read()
                    case = {'abandon': [is_bytes, n_writes, how]}
                    if now != OLD:
                        run.violation(f'an abandoned writer ({how}, {n_writes} writes) changed the destination ({len(now)} bytes, old {len(OLD)})',
                                      case=case, engine='abandon', key='abandoned-write-committed')
                    run.case(['abandon', is_bytes, n_writes, how], n_writes > 0)
                finally:
                    shutil.rmtree(d, ignore_errors=True)
    # interpreter shutdown with a write still open
    endings = {'sys.exit': 'sys.exit(0)', 'end-of-script': 'pass', 'uncaught-exception': 'raise RuntimeError("boom")',
               'os._exit': 'os._exit(0)'}
    for name, ending in endings.items():
        for n in ((1, 2000) if thorough else (2000,)):
            d = tempfile.mkdtemp(prefix='rv-c12-')
            try:
                dest = os.path.join(d, 'dest.bin')
                with open(dest, 'wb') as f0:
                    f0.write(OLD)
                drv = os.path.join(d, 'drv.py')
                with open(drv, 'w') as f0:
                    f0.write(ABANDON_DRIVER.format(src=os.path.join(bootstrap.REPO, 'src'), shim=os.path.join(bootstrap.VERIF, 'shim'), ending=ending))
                subprocess.run([sys.executable, drv, dest, str(n)], capture_output=True, timeout=120)
                run.count('abandon_runs')
                with open(dest, 'rb') as f0:
                    now = f0.read()
                if now != OLD:
                    run.violation(f'a writer left open at interpreter shutdown ({name}) changed the destination ({len(now)} bytes)',
                                  case={'abandon': ['shutdown', name, n]}, engine='abandon', key='abandoned-write-committed')
                run.case(['abandon-shutdown', name, n], True)
            finally:
                shutil.rmtree(d, ignore_errors=True)


# ------------------------------------------------------------------ two writers
def interleavings(run, thorough: bool) -> None:
    scn_a = {'is_bytes': True, 'writes': [9000, 5000]}
    variants = [({'is_bytes': True, 'writes': [7000, 9000]}, 'both succeed'), ({'is_bytes': True, 'writes': [7000, 9000], 'raise_at': 1}, 'B aborts'),
                ({'is_bytes': False, 'writes': [100], 'raise_at': 1}, 'B aborts at the end')]
    na = len(record_cache(scn_a))
    # destination name pairs: unrelated, same stem with different extensions, one name extending the other
    name_pairs = [('a.bin', 'b.bin'), ('mymap.bsp', 'mymap.lin'), ('data.txt', 'data.txt.bak'), ('x', 'x.tmp')]
    for scn_b, label in variants:
        nb = len(record_cache(scn_b))
        for i in range(na):
            for j in range(nb):
                if not thorough and (i * 31 + j * 17 + run.seed) % 3:
                    continue
                names = name_pairs[(i + j) % len(name_pairs)] if not thorough else None
                for first in ('A', 'B'):
                    for pair in ([names] if names else name_pairs):
                        two_writers(run, scn_a, scn_b, i, j, first, label, pair)
    run.extra['interleaving_grid'] = [na, [len(record_cache(v[0])) for v in variants]]
    # both writers in a folder that has to be created first; one of them fails: what the failing one cleans up is its own
    scn_ok = {'is_bytes': True, 'writes': [7000, 9000]}
    scn_fail = {'is_bytes': True, 'writes': [5000, 100], 'raise_at': 1}
    n_ok, n_fail = len(record_cache(scn_ok)), len(record_cache(scn_fail))
    for i in range(n_fail):
        for j in range(n_ok):
            if not thorough and (i * 23 + j * 11 + run.seed) % 3:
                continue
            for first in ('A', 'B'):
                two_writers(run, scn_fail, scn_ok, i, j, first, 'new folder, A aborts', ('a.bin', 'b.bin'), new_folder=True)
                run.count('interleavings_in_a_new_folder')
    # a writer object that is used a second time ("can be repeated") while another writer is at work in the same directory:
    # whatever the first cycle left in the object must not reach the other writer's temporary file
    scn_r = {'is_bytes': True, 'writes': [6000, 3000], 'reenter': True}
    scn_b = {'is_bytes': True, 'writes': [7000, 9000]}
    nr, nb = len(record_cache(scn_r)), len(record_cache(scn_b))
    for i in range(nr):
        for j in range(nb):
            if not thorough and (i * 29 + j * 13 + run.seed) % 3:
                continue
            for first in ('A', 'B'):
                two_writers(run, scn_r, scn_b, i, j, first, 'A is a reused writer', name_pairs[(i + j) % len(name_pairs)])
                run.count('interleavings_with_a_reused_writer')


def two_writers(run, scn_a: dict, scn_b: dict, i: int, j: int, first: str, label: str, names=('a.bin', 'b.bin'), new_folder: bool = False) -> None:
    d = tempfile.mkdtemp(prefix='rv-c12-')
    case = {'two_writers': [scn_a, scn_b], 'gates': [i, j], 'first': first, 'names': list(names), 'new_folder': new_folder}
    name_a, name_b = names
    OLD_HERE: Optional[bytes] = OLD
    try:
        if new_folder:
            # both destinations lie in a folder that does not exist yet (the first writer to start creates it)
            OLD_HERE = None
            name_a, name_b = (os.path.join('made', 'deep', n) for n in names)
        else:
            for name in names:
                with open(os.path.join(d, name), 'wb') as f:
                    f.write(OLD)
        before = set(os.listdir(d))
        layer = Layer(d)
        ga = (threading.Event(), threading.Event())
        gb = (threading.Event(), threading.Event())
        layer.gates[('A', i)] = ga
        layer.gates[('B', j)] = gb
        results: Dict[str, str] = {}

        def work(tag: str, scn: dict, fname: str) -> None:
            try:
                results[tag] = run_writer(d, scn, fname)
            except BaseException as exc:  # pragma: no cover
                results[tag] = 'thread-error:' + repr(exc)
        ta = threading.Thread(target=work, args=('A', scn_a, name_a), name='A')
        tb = threading.Thread(target=work, args=('B', scn_b, name_b), name='B')
        layer.install()
        try:
            order = [(ta, ga), (tb, gb)] if first == 'A' else [(tb, gb), (ta, ga)]
            for t, g in order:
                t.start()
                # wait until the thread reached its gate or finished
                while t.is_alive() and not g[0].wait(0.002):
                    pass
            for t, g in order:
                g[1].set()
                t.join(30)
        finally:
            ga[1].set()
            gb[1].set()
            layer.uninstall()
        run.count('interleavings_run')
        # direct monitor over the operation log: a temporary file is OWNED by the writer that created it, from its
        # successful open until its own rename/unlink.  Any successful operation of the other writer on a live temp
        # file of this one (re-open, write, rename, unlink) is a clobber.  Re-using a NAME after the owner has renamed
        # its file away is fine.
        owner: Dict[str, str] = {}
        shared = []
        for (k, kind, fname), tname in zip(layer.log, layer.log_threads):
            if fname in names or tname not in ('A', 'B') or not kind.endswith('/done') or kind.startswith('mkdir'):
                continue
            cur = owner.get(fname)
            if cur is not None and cur != tname:
                shared.append(f'{k}:{tname} {kind} on {fname} owned by {cur}')
            if kind.startswith('open'):
                owner[fname] = tname
            elif kind.startswith(('replace', 'rename', 'unlink', 'remove')):
                owner.pop(fname, None)
        if shared:
            run.violation(f'two writers ({label}, destinations {names}, gates A@{i} B@{j}, {first} first): one writer operated on the live temporary file of the other: {shared[0]}',
                          witness={'events': shared[:6], 'log': [f'{t}:{k}:{kind} {n}' for (k, kind, n), t in zip(layer.log, layer.log_threads)][:80]}, case=case,
                          engine='two-writers', key='writers-share-temp-file')
        for tag, scn, fname in (('A', scn_a, name_a), ('B', scn_b, name_b)):
            content, tmps = inspect(os.path.join(d, fname), before)
            want_ok = scn.get('raise_at') is None
            res = results.get(tag, 'missing')
            if want_ok and (res != 'ok' or content != expected_new(scn)):
                run.violation(f'two writers ({label}, gates A@{i} B@{j}, {first} first): writer {tag} ended with {res} and its destination is {"new" if content == expected_new(scn) else "not new"}',
                              witness={'log': [f'{k}:{kind} {n}' for k, kind, n in layer.log][:80]}, case=case, engine='two-writers', key='writers-clobber-each-other')
            if not want_ok and (not res.startswith('handled:BodyError') or content != OLD_HERE):
                run.violation(f'two writers ({label}, gates A@{i} B@{j}, {first} first): aborting writer {tag} ended with {res}, destination changed={content != OLD_HERE}',
                              witness={'log': [f'{k}:{kind} {n}' for k, kind, n in layer.log][:80]}, case=case, engine='two-writers', key='writers-clobber-each-other')
        if new_folder:
            sub_dir = os.path.join(d, 'made', 'deep')
            sub_now = set(os.listdir(sub_dir)) if os.path.isdir(sub_dir) else set()
        else:
            sub_now = set(os.listdir(d))
        tmps = sorted(n for n in sub_now - before if n not in names)
        if tmps:
            run.violation(f'two writers ({label}, destinations {names}, gates A@{i} B@{j}): files {tmps} left behind', case=case, engine='two-writers', key='writers-leave-temp')
        run.case(['two', label, i, j, first, names], True)
    finally:
        shutil.rmtree(d, ignore_errors=True)


# ------------------------------------------------------------------ BSP.save
def bsp_engine(run, thorough: bool) -> None:
    from srctools.bsp import BSP
    src = os.path.join(bootstrap.REPO, 'tests', 'test_vec', 'rot_main.bsp')
    if not os.path.exists(src):
        run.note_inconclusive('sample BSP missing')
        return
    d0 = tempfile.mkdtemp(prefix='rv-c12-')
    try:
        with quiet_stdout():
            bsp = BSP(src)
            _ = bsp.ents  # make save rebuild at least one lump
            ref = os.path.join(d0, 'ref.bsp')
            layer = Layer(d0)
            layer.install()
            try:
                bsp.save(ref)
            finally:
                layer.uninstall()
        log = layer.log
        with open(ref, 'rb') as f:
            new = f.read()
        run.count('bsp_save_boundaries', len(log))
        run.extra['bsp_boundary_kinds'] = sorted({kind.split('[')[0] for _, kind, _ in log})
        # every write goes through the temp file: no boundary may name the destination before the final replace
        for k, kind, name in log:
            if name == 'ref.bsp' and not kind.startswith('replace') and 'replace' not in kind:
                run.violation(f'BSP.save touched the destination directly at boundary {k}:{kind}', case={'bsp': True}, engine='bsp-save', key='bsp-save-bypasses-atomic-writer')
        stride = 1 if thorough else 3
        ks = [k for k, _, _ in log if (k + run.seed) % stride == 0]
        for k in ks:
            d = tempfile.mkdtemp(prefix='rv-c12-')
            try:
                dest = os.path.join(d, 'map.bsp')
                with open(dest, 'wb') as f:
                    f.write(OLD)
                before = set(os.listdir(d))
                sys.stdout.flush()
                pid = os.fork()
                if pid == 0:
                    try:
                        devnull = os.open(os.devnull, os.O_WRONLY)
                        os.dup2(devnull, 1)
                        lay = Layer(d)
                        lay.action = ('crash', k)
                        lay.install()
                        bsp.save(dest)
                    finally:
                        os._exit(0)
                _, status = os.waitpid(pid, 0)
                code = os.waitstatus_to_exitcode(status)
                run.count('bsp_crash_runs')
                content, tmps = inspect(dest, before)
                if code == 137 and content != OLD and content != new:
                    run.violation(f'BSP.save crashed at boundary {k}:{log[k][1]}: destination holds neither the old nor the new file ({len(content or b"")} bytes)',
                                  case={'bsp': True, 'action': ['crash', k]}, engine='bsp-save', key='torn-destination:crash')
                run.case(['bsp', 'crash', k], 0 < k < len(log) - 1)
            finally:
                shutil.rmtree(d, ignore_errors=True)
        # faults: seeded sample of boundaries
        rng = sub_rng(run.seed, 'bspfault', 0)
        fault_ks = [k for k, kind, _ in log if not kind.endswith('/done')]
        for k in (fault_ks if thorough else rng.sample(fault_ks, min(25, len(fault_ks)))):
            e = rng.choice(ERRNOS)
            d = tempfile.mkdtemp(prefix='rv-c12-')
            try:
                dest = os.path.join(d, 'map.bsp')
                with open(dest, 'wb') as f:
                    f.write(OLD)
                before = set(os.listdir(d))
                lay = Layer(d)
                lay.action = ('fault', k, e)
                lay.install()
                outcome = 'ok'
                try:
                    with quiet_stdout():
                        BSP(src).save(dest) if False else bsp.save(dest)
                except OSError as exc:
                    outcome = f'handled:{type(exc).__name__}'
                finally:
                    lay.uninstall()
                run.count('bsp_fault_runs')
                content, tmps = inspect(dest, before)
                kind = log[k][1].split(' ')[0].split('[')[0]
                if outcome == 'ok':
                    if content != new or tmps:
                        run.violation('BSP.save returned normally after an injected fault but the destination is not the new file',
                                      case={'bsp': True, 'action': ['fault', k, e]}, engine='bsp-save', key='success-wrong-content')
                else:
                    if content != OLD:
                        run.violation(f'BSP.save failed ({outcome}) at {k}:{log[k][1]} and the destination changed', case={'bsp': True, 'action': ['fault', k, e]},
                                      engine='bsp-save', key='torn-destination:fault')
                    if tmps and kind not in ('unlink', 'remove'):
                        mech = {'close': 'temp-left-on-close-failure', 'replace': 'temp-left-on-replace-failure'}.get(kind, f'temp-left-on-{kind}-failure')
                        run.violation(f'BSP.save failed ({outcome}) at {k}:{log[k][1]} and left {tmps} behind', case={'bsp': True, 'action': ['fault', k, e]},
                                      engine='bsp-save', key=mech)
                run.case(['bsp', 'fault', k, e], 0 < k < len(log) - 1)
            finally:
                shutil.rmtree(d, ignore_errors=True)
    finally:
        shutil.rmtree(d0, ignore_errors=True)


# ------------------------------------------------------------------ strace cross-check (thorough)
DRIVER = r'''
import sys, os
sys.path[:0] = [{src!r}, {shim!r}]
from srctools import AtomicWriter
d = sys.argv[1]
chunks = [b'N0-' + bytes(range(200)) * 60, b'N1-' + b'x' * 30000]
try:
    with AtomicWriter(os.path.join(d, 'dest.bin'), is_bytes=True) as f:
        for c in chunks:
            f.write(c)
    print('OK')
except BaseException as exc:
    print('HANDLED', type(exc).__name__)
'''


def strace_engine(run) -> None:
    if not shutil.which('strace'):
        run.extra['strace'] = 'strace not available: sub-engine skipped'
        return
    new = b'N0-' + bytes(range(200)) * 60 + b'N1-' + b'x' * 30000
    work = tempfile.mkdtemp(prefix='rv-c12-')
    try:
        drv = os.path.join(work, 'driver.py')
        with open(drv, 'w') as f:
            f.write(DRIVER.format(src=os.path.join(bootstrap.REPO, 'src'), shim=os.path.join(bootstrap.VERIF, 'shim')))
        runs = 0
        for syscall, maxk in (('openat', 2), ('write', 4), ('close', 2), ('rename', 1), ('unlink', 1)):
            for k in range(1, maxk + 1):
                for what in ('error=EIO', 'error=ENOSPC', 'error=EACCES', 'signal=SIGKILL'):
                    d = os.path.join(work, f'd-{syscall}-{k}-{what.replace("=", "")}')
                    os.mkdir(d)
                    dest = os.path.join(d, 'dest.bin')
                    with open(dest, 'wb') as f:
                        f.write(OLD)
                    before = set(os.listdir(d))
                    cmd = ['strace', '-f', '-o', os.devnull, '-P', os.path.join(d, 'tmp_1'), '-P', dest,
                           '-e', f'trace={syscall}', '-e', f'inject={syscall}:{what}:when={k}', sys.executable, drv, d]
                    try:
                        cp = subprocess.run(cmd, capture_output=True, text=True, timeout=120)
                    except subprocess.TimeoutExpired:
                        run.count('strace_timeouts')
                        continue
                    runs += 1
                    content, tmps = inspect(dest, before)
                    out = cp.stdout.strip()
                    case = {'strace': [syscall, k, what]}
                    killed = cp.returncode < 0 or cp.returncode == 137 or (out == '' and 'SIGKILL' in what)
                    if killed:
                        if content != OLD and content != new:
                            run.violation(f'SIGKILL at {syscall} #{k}: destination holds neither old nor new contents', case=case, engine='strace', key='torn-destination:crash')
                    elif out.startswith('OK'):
                        if content != new or tmps:
                            run.violation(f'{what} at {syscall} #{k}: writer reported success but destination/new-temp state is wrong', case=case, engine='strace', key='success-wrong-content')
                    elif out.startswith('HANDLED'):
                        if content != OLD:
                            run.violation(f'{what} at {syscall} #{k}: handled failure changed the destination', case=case, engine='strace', key='torn-destination:fault')
                        if tmps and syscall != 'unlink':
                            mech = {'close': 'temp-left-on-close-failure', 'write': 'temp-left-on-close-failure', 'rename': 'temp-left-on-replace-failure'}.get(syscall, f'temp-left-on-{syscall}-failure')
                            run.violation(f'{what} at {syscall} #{k}: handled failure ({out}) left {tmps} behind', case=case, engine='strace', key=mech)
                    run.case(['strace', syscall, k, what], True)
        run.count('strace_runs', runs)
    finally:
        shutil.rmtree(work, ignore_errors=True)


def main(run, shard=(0, 1)) -> None:
    import srctools as st
    probe = ReachProbe({'AtomicWriter.make_tempfile': (st, 'AtomicWriter.make_tempfile'), 'AtomicWriter.__exit__': (st, 'AtomicWriter.__exit__'),
                        'AtomicWriter.__enter__': (st, 'AtomicWriter.__enter__')})
    probe.start()
    thorough = run.tier == 'thorough'
    enumerate_writer(run, thorough)
    interleavings(run, thorough)
    abandoned(run, thorough)
    directory_destination(run)
    bsp_engine(run, thorough)
    if thorough:
        strace_engine(run)
    run.exhaustive = False
    probe.report(run)
    probe.check_reached(run)
    run.require('boundaries_enumerated', 'crash_runs', 'fault_runs', 'directory_inspections', 'interleavings_run', 'bsp_crash_runs', 'bsp_save_boundaries', 'abandon_runs', 'non_oserror_injections', 'interleavings_with_a_reused_writer', 'directory_destination_runs', 'interleavings_in_a_new_folder')


def replay(run, data) -> None:
    case = data['case']
    if 'scenario' in case:
        act = tuple(case.get('action', ['none']))
        run_with_action(run, case['scenario'], act, 'replay', case)
    elif 'two_writers' in case:
        a, b = case['two_writers']
        two_writers(run, a, b, case['gates'][0], case['gates'][1], case['first'], 'replay', tuple(case.get('names', ('a.bin', 'b.bin'))))
    elif 'strace' in case:
        strace_engine(run)
    elif 'abandon' in case:
        abandoned(run, True)
    else:
        bsp_engine(run, False)
    run.case(case, True, sample=case, tag='replay')
    run.case('pad', True)


# (kept at the end of the file so that the text above stays the description the check was first built to)
RULE += ' ' + 'Later additions: KeyboardInterrupt / MemoryError injected at every boundary; read-only (0o444 / 0o400) destinations; a text writer with an unknown encoding (failure inside __enter__); interleavings in which writer A is a reused object; files that were in the directory before the writer started must still be there afterwards.'
