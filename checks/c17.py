"""C17 Instance collapse transforms contents exactly and leaves the template intact."""
from __future__ import annotations

import math
import os
import re
import traceback
from typing import Any, Dict, List, Optional, Tuple

from rv.util import mine, sub_rng
from rv.probes import ReachProbe
from rv import gen_vmf
from checks.c04 import model_matrix, vmul, mmul, maxdiff, horiz

PROP = 'C17'
LEVEL = 'exploration'
RULE = ('instance templates (world brushes incl. displacements and Strata points from the C06 generator, visible and '
        'hidden brushes/entities, point and brush entities of real engine classes with origin/angles/targetname/'
        'parentname/target/$var-bearing keys, outputs, nested func_instance with fixup tables) collapsed with '
        'collapse_one at identity, axis-aligned and arbitrary placements under the three fixup styles, repeatedly and '
        'interleaved through one InstanceFile. Laws: one copy per visible brush/entity; plane points, displacement '
        'start positions and entity origins equal R*p+o with R built by an independent rotation model (1e-6 relative '
        'in memory, 5e-6 for text-rounded keyvalues); entity orientation = template orientation composed with the '
        'instance rotation; names/targets follow the fixup style; FGD-known keys contain no defined $variable and equal '
        'the substituted template value; texture coordinates u.p/scale+offset of the plane points are unchanged; the '
        'template exports identically before and after every collapse. collapse_all on self-/mutually-recursive '
        'graphs (fan-out<=2) with small recur_limit: the number of collapse_one calls is within the analytic budget and '
        'the call returns or raises RecursionError (bounded progress). '
        'Non-trivial = non-identity placement or a repeated collapse; distinct = distinct (template, placement).')
ASSUMPTIONS = ['keys unknown to the bundled FGD are not checked for substitution (collapse_one documents skipping them)',
               'termination is restated as bounded progress: collapse_one calls <= sum_k fanout^k for k <= recur_limit',
               'orientation compared as matrices with 2h+1e-5 slack when the composed forward vector is within the gimbal threshold']
JOBS = {'quick': 2, 'thorough': 16}

POINT_CLASSES = ['info_target', 'logic_relay', 'env_sprite', 'ambient_generic', 'prop_dynamic', 'point_template', 'light']
NAME_KEYS = {'info_target': ['parentname'], 'logic_relay': ['parentname'], 'env_sprite': ['parentname'],
             'ambient_generic': ['sourceentityname', 'parentname'], 'prop_dynamic': ['lightingorigin', 'parentname'],
             'point_template': ['template01', 'template02', 'parentname'], 'light': ['parentname']}
STR_KEYS = {'info_target': ['globalname', 'responsecontext'], 'logic_relay': ['globalname'], 'env_sprite': ['model', 'globalname'],
            'ambient_generic': ['message'], 'prop_dynamic': ['defaultanim', 'skinset'], 'point_template': ['globalname'],
            'light': ['pattern', '_constant_attn']}


def gen_placement(rng) -> Tuple[Tuple[float, float, float], Tuple[float, float, float]]:
    kind = rng.randrange(5)
    if kind == 4:
        # rotation about one axis only (by far the most common placement: yaw only)
        ang = rng.choice(((0.0, rng.uniform(0, 360), 0.0), (0.0, float(rng.randrange(0, 360, 15)), 0.0), (float(rng.randrange(-80, 81)), 0.0, 0.0), (0.0, 0.0, rng.uniform(0, 360))))
    elif kind == 0:
        ang = (0.0, 0.0, 0.0)
    elif kind == 1:
        ang = (90.0 * rng.randrange(4), 90.0 * rng.randrange(4), 90.0 * rng.randrange(4))
    else:
        ang = (float(rng.randrange(-80, 81)), rng.uniform(0, 360), rng.uniform(0, 360) if rng.random() < 0.5 else 0.0)
    pos = (0.0, 0.0, 0.0) if rng.random() < 0.2 else (float(rng.randrange(-2048, 2048)), rng.uniform(-2048, 2048), float(rng.randrange(-512, 512)))
    return pos, ang


def gen_template(rng, features: Dict[str, int]):
    from srctools.vmf import VMF, Entity, Output
    from srctools.math import Vec
    tmpl = VMF()
    # (the last five already carry what the affix of one of the instance names used below would add: they get it once more)
    names = ['relay', 'Door_A', 'tgt', '@global', '!player', 'br', 'inst-relay', 'relay-inst', 'Inst_B-tgt', 'br-i2', 'i2-br']
    for _ in range(rng.randint(0, 3)):
        s = gen_vmf.gen_solid(rng, tmpl, features)
        s.vis_shown = rng.random() < 0.85
        tmpl.add_brush(s)
    varnames = ['var', 'Name2', 'x_1', 'var2', 'v']   # names that are prefixes of each other: the longest defined name wins
    for _ in range(rng.randint(1, 5)):
        cls = rng.choice(POINT_CLASSES)
        # class names are case-insensitive in Hammer and in the bundled FGD lookups; NAME_KEYS / STR_KEYS stay keyed by the lower-case name
        spelled = cls if rng.random() < 0.75 else rng.choice((cls.upper(), cls.title(), cls.capitalize()))
        keys: Dict[str, Any] = {'classname': spelled}
        keys['origin'] = Vec(rng.randrange(-256, 256), rng.uniform(-256, 256), rng.randrange(-64, 64))
        if rng.random() < 0.8:
            keys['angles'] = f'{rng.randrange(-70, 70)} {rng.randrange(0, 360)} {rng.choice((0, 0, 45, 180))}'
        if rng.random() < 0.8:
            keys['targetname'] = rng.choice(names)
        if rng.random() < 0.12:
            keys['spawnflags'] = rng.choice(('$x_1', '$var2', '1$v'))
        if rng.random() < 0.08 and 'angles' in keys:
            keys['angles'] = rng.choice(('$ang', '0 $yawvar 0'))
        for k in NAME_KEYS[cls]:
            if rng.random() < 0.5:
                keys[k] = rng.choice(names + ['', 'pre_$var', '$Name2'])
        for k in STR_KEYS[cls]:
            if rng.random() < 0.6:
                keys[k] = rng.choice(('plain', 'a/$var/b.mdl', '$x_1', 'x $var y $Name2', '', 'cost: $5 $undefined_var end',
                                      '$var2 $var $v', '$var2x$vy', 'a$VAR2b'))
        ent = Entity(tmpl, keys=keys, hidden=rng.random() < 0.15, vis_shown=rng.random() < 0.9,
                     outputs=[Output(rng.choice(('OnTrigger', 'OnUser1')), rng.choice(names + ['$var', 'p_$var']), rng.choice(('Trigger', 'FireUser2')),
                                     rng.choice(('', '$var', '1')), rng.choice((0.0, 1.5)), times=rng.choice((-1, 1, 3)))
                              for _ in range(rng.choice((0, 0, 1, 2)))])
        tmpl.add_ent(ent)
    if rng.random() < 0.5:
        be = Entity(tmpl, keys={'classname': 'func_brush', 'targetname': rng.choice(names), 'origin': Vec(8, 8, 8)},
                    solids=[gen_vmf.gen_solid(rng, tmpl, features) for _ in range(rng.randint(1, 2))])
        for s in be.solids:
            # a brush of a visible entity can be hidden on its own in Hammer; it must stay hidden after the collapse
            s.hidden = rng.random() < 0.3
        tmpl.add_ent(be)
        features['brush_ent'] = features.get('brush_ent', 0) + 1
    # entities whose keyvalues have a geometric / referential FGD type (fixed up by Instance.fixup_key)
    def v3(lo=-256, hi=256) -> str:
        return ' '.join(str(rng.choice((rng.randrange(lo, hi), round(rng.uniform(lo, hi), 3)))) for _ in range(3))
    face_ids = [f.id for s in tmpl.brushes for f in s.sides] + [f.id for e in tmpl.entities for s in e.solids for f in s.sides]
    for _ in range(rng.choice((0, 1, 2, 3))):
        kind = rng.choice(('beam', 'hinge', 'overlay', 'door', 'spot', 'sun', 'nodes', 'follow', 'cubemap', 'movedir', 'movedir'))
        keys = {'origin': v3()}
        if rng.random() < 0.7:
            keys['angles'] = f'{rng.randrange(-70, 70)} {rng.randrange(0, 360)} {rng.choice((0, 0, 45, 180))}'
        if kind == 'beam':
            keys.update(classname='env_beam', targetpoint=v3(), lightningstart=rng.choice(names))
        elif kind == 'hinge':
            keys.update(classname='phys_hinge', hingeaxis=v3(), attach1=rng.choice(names))
        elif kind == 'overlay':
            ids = rng.sample(face_ids, min(len(face_ids), rng.randint(0, 3))) + ([987654] if rng.random() < 0.3 else [])
            keys.update(classname='info_overlay', basisorigin=v3(), basisu=v3(-1, 2), basisv=v3(-1, 2), basisnormal=v3(-1, 2),
                        uv0=v3(-64, 64), sides=' '.join(map(str, ids)), material='overlays/x')
        elif kind == 'cubemap':
            ids = rng.sample(face_ids, min(len(face_ids), rng.randint(0, 2)))
            keys.update(classname='env_cubemap', sides=' '.join(map(str, ids)))
        elif kind == 'door':
            keys.update(classname='prop_door_rotating', axis=v3() + ', ' + v3())
        elif kind in ('spot', 'sun'):
            keys.update(classname='light_spot' if kind == 'spot' else 'light_environment', pitch=str(rng.choice((-90, -45, -30.5, 0, 20, 75))))
            keys.setdefault('angles', '0 0 0')
        elif kind == 'nodes':
            n1 = Entity(tmpl, keys={'classname': 'info_node', 'origin': v3(), 'nodeid': str(rng.randrange(1, 9))})
            n2 = Entity(tmpl, keys={'classname': 'info_node', 'origin': v3(), 'nodeid': str(rng.randrange(1, 9))})
            tmpl.add_ent(n1)
            tmpl.add_ent(n2)
            a, b = n1['nodeid'], n2['nodeid']  # the map may have handed out other IDs than the ones asked for
            keys = {'classname': 'info_node_link', 'origin': v3(), 'startnode': a, 'endnode': rng.choice((b, a, '99'))}
        elif kind == 'movedir':
            # an orientation stored in a key other than "angles" (0 0 0, the FGD default "along +X", is the common value)
            cls, key = rng.choice((('func_door', 'movedir'), ('trigger_push', 'pushdir'), ('env_blood', 'spraydir'), ('prop_door_rotating', 'ajarangles')))
            val = rng.choice(('0 0 0', '0 0 0', '0 90 0', '-90 0 0', f'{rng.randrange(-80, 80)} {rng.randrange(0, 360)} 0', '0 270 15'))
            keys.update({'classname': cls, key: val})
        elif kind == 'follow':
            keys.update(classname='ai_goal_follow', actor=rng.choice(('npc_citizen', 'NPC_Citizen', 'Door_A', '!player', 'relay')), goal='tgt')
        tmpl.add_ent(Entity(tmpl, keys=keys))
        features['typed_' + kind] = features.get('typed_' + kind, 0) + 1
    if rng.random() < 0.3:
        ne = Entity(tmpl, keys={'classname': 'func_instance', 'targetname': 'nested', 'file': 'other.vmf', 'origin': '1 2 3', 'angles': '0 0 0'})
        ne.fixup['inner'] = rng.choice(('relay', '@glob', '123', 'Door_A', 'r2d2', 'x1', '-5', '.5', '64 0 -32', '0 45 0', '255 128 0 200', '1e3', '3rd_door'))
        ne.fixup['second'] = '$var'
        tmpl.add_ent(ne)
        features['nested_instance'] = features.get('nested_instance', 0) + 1
    return tmpl, varnames


def substitute_model(text: str, table: Dict[str, str]) -> str:
    """Independent model of $variable substitution with default '' (longest defined name first, identifiers otherwise)."""
    names = sorted(table, key=len, reverse=True)
    pat = re.compile(r'\$(' + '|'.join(map(re.escape, names)) + (r'|' if names else '') + r'[a-z_][a-z0-9_]*)', re.IGNORECASE)
    return pat.sub(lambda m: table.get(m.group(1).casefold(), ''), text)


def fixup_name_model(style: int, inst_name: str, name: str) -> str:
    if not name or name[0] in '@!':
        return name
    return {0: f'{inst_name}-{name}', 1: f'{name}-{inst_name}', 2: name}[style]


def rot_point(p, R, o):
    v = vmul(p, R)
    return (v[0] + o[0], v[1] + o[1], v[2] + o[2])


def close(a, b, tol) -> bool:
    return all(abs(x - y) <= tol * (1 + abs(y)) for x, y in zip(a, b))


class Collapser:
    def __init__(self, run, rng, case_id: int, engine: str) -> None:
        self.run, self.rng, self.case_id, self.engine = run, rng, case_id, engine
        self.features: Dict[str, int] = {}
        self.bad = False

    def fail(self, what: str, key: str, witness: Any = None) -> None:
        self.bad = True
        self.run.violation(what, witness=witness, case={'id': self.case_id}, engine=self.engine, key=key)

    def run_case(self) -> Tuple[bool, Any]:
        from srctools.vmf import VMF
        from srctools import instancing
        from srctools.fgd import EntityDef
        rng = self.rng
        tmpl, varnames = gen_template(rng, self.features)
        ifile = instancing.InstanceFile(tmpl)
        tmpl_text0 = tmpl.export(inc_version=False)
        # snapshot of the template taken once, before any collapse
        snap_brushes = [self.snap_solid(s) for s in tmpl.brushes if not (s.hidden or not s.vis_shown)]
        snap_ents = [self.snap_ent(e) for e in tmpl.entities if not (e.hidden or not e.vis_shown)]
        target = VMF()
        target.create_ent('info_target', targetname='existing')
        cache: Dict[str, Any] = {}
        n_coll = rng.randint(1, 3)
        nontrivial = n_coll > 1
        placements = []
        for c in range(n_coll):
            pos, ang = gen_placement(rng)
            placements.append((pos, ang))
            if ang != (0.0, 0.0, 0.0) or pos != (0.0, 0.0, 0.0):
                nontrivial = True
            style = rng.randrange(3)
            inst_name = rng.choice(('inst', 'Inst_B', 'i2'))
            table = {v.casefold(): rng.choice(('val', 'Other_7', 'models/x', '12', 'dir\\sub', '\\1\\g<0>', 'c$d', '')) for v in varnames if rng.random() < 0.8}
            table['ang'] = rng.choice(('0 90 0', '15 200 45', '-30 0 0'))   # (always defined: templates may spell angles through them)
            table['yawvar'] = rng.choice(('45', '270'))
            inst_ent = target.create_ent('func_instance', targetname=inst_name, origin=' '.join(repr(x) for x in pos),
                                         angles=' '.join(repr(x) for x in ang), file='tmpl.vmf', fixup_style=str(style))
            for v, val in table.items():
                inst_ent.fixup[v] = val
            inst = instancing.Instance.from_entity(inst_ent)
            if rng.random() < 0.3:
                # the same instance built through the constructor, its tables supplied in every form an Iterable can take
                supply = rng.choice((list, tuple, iter, lambda seq: (x for x in seq), lambda seq: map(lambda x: x, seq)))
                inst = instancing.Instance(inst.name, inst.filename, inst.pos, inst.orient, inst.fixup_type,
                                           supply(list(inst.outputs)), supply(list(inst.fixup.copy_values())))
                self.run.count('instances_built_through_the_constructor')
            inst_ent.remove()
            before_brushes = list(target.brushes)
            before_ents = list(target.entities)
            # visgroup handling: stripped (default), kept, or gathered under a holder group.  With visgroups kept the
            # library also copies hidden entities, which the statement does not speak about, so those modes are only
            # used for templates in which everything is visible.
            vis_mode: Any = False
            all_visible = len(snap_brushes) == len(tmpl.brushes) and len(snap_ents) == len(tmpl.entities)
            if all_visible and rng.random() < 0.35:
                from srctools.vmf import VisGroup
                vis_mode = True if rng.random() < 0.5 else VisGroup(target, 'holder')
                if vis_mode is not True:
                    target.vis_tree.append(vis_mode)
                self.run.count('collapses_keeping_visgroups')
            try:
                instancing.collapse_one(target, inst, ifile, engine_cache=cache, visgroup=vis_mode)
            except Exception as exc:
                self.fail(f'collapse_one raised {type(exc).__name__}: {exc}', 'collapse-raises', traceback.format_exc()[-1200:])
                return nontrivial, placements
            self.run.count('collapses')
            new_brushes = [b for b in target.brushes if b not in before_brushes]
            new_ents = [e for e in target.entities if e not in before_ents]
            self.check_result(pos, ang, style, inst_name, table, snap_brushes, snap_ents, new_brushes, new_ents, c)
            if self.bad:
                return nontrivial, placements
            text_now = tmpl.export(inc_version=False)
            if text_now != tmpl_text0:
                a, b = tmpl_text0.splitlines(), text_now.splitlines()
                k = next((i for i, (x, y) in enumerate(zip(a, b)) if x != y), min(len(a), len(b)))
                self.fail(f'the instance template changed during collapse #{c + 1} (line {k + 1}: {a[k].strip() if k < len(a) else ""!r} -> {b[k].strip() if k < len(b) else ""!r})',
                          'template-mutated', {'before': a[max(0, k - 2):k + 2], 'after': b[max(0, k - 2):k + 2]})
                return nontrivial, placements
            self.run.count('template_snapshots_compared')
            # the collapsed copies are independent of the template: editing every mutable thing reachable from them
            # must leave the template (and therefore the next collapse of the same file) untouched
            if rng.random() < 0.6:
                from checks.c09 import mutate_everything
                n_mut = 0
                for o in new_ents + new_brushes:
                    try:
                        n_mut += mutate_everything(o, rng)
                    except Exception:
                        pass  # a mutation the object refuses is not this property's subject
                self.run.count('collapsed_copies_mutated', n_mut)
                text_now = tmpl.export(inc_version=False)
                if text_now != tmpl_text0:
                    a, b = tmpl_text0.splitlines(), text_now.splitlines()
                    k = next((i for i, (x, y) in enumerate(zip(a, b)) if x != y), min(len(a), len(b)))
                    self.fail(f'editing the collapsed copies of collapse #{c + 1} changed the instance template (line {k + 1}: '
                              f'{a[k].strip() if k < len(a) else ""!r} -> {b[k].strip() if k < len(b) else ""!r})',
                              'template-aliased-by-collapsed-copy', {'before': a[max(0, k - 2):k + 2], 'after': b[max(0, k - 2):k + 2]})
                    return nontrivial, placements
        return nontrivial, placements

    # ---- snapshots of template objects (plain tuples, so later mutation cannot affect them)
    def snap_side(self, f) -> dict:
        return {'id': f.id, 'planes': [tuple(p) for p in f.planes], 'u': (f.uaxis.x, f.uaxis.y, f.uaxis.z, f.uaxis.offset, f.uaxis.scale),
                'v': (f.vaxis.x, f.vaxis.y, f.vaxis.z, f.vaxis.offset, f.vaxis.scale), 'mat': f.mat,
                'disp_pos': tuple(f.disp_pos) if f.is_disp else None, 'power': f.disp_power,
                'verts': [(tuple(f[x, y].normal), tuple(f[x, y].offset), f[x, y].distance, f[x, y].alpha, tuple(f[x, y].offset_norm)) for y in range(f.disp_size) for x in range(f.disp_size)] if f.is_disp else None,
                'allowed': list(f.disp_allowed_vert) if f.is_disp else None}

    def snap_solid(self, s) -> list:
        sides = [self.snap_side(f) for f in s.sides]
        if sides:
            sides[0]['solid_hidden'] = bool(s.hidden)
        return sides

    def snap_ent(self, e) -> dict:
        return {'keys': {k: e[k] for k in e}, 'outputs': [(o.output, o.target, o.input, o.params, o.delay, o.times, o.inst_out, o.inst_in) for o in e.outputs],
                'solids': [self.snap_solid(s) for s in e.solids], 'fixup': {k: v for k, v in e.fixup.items()} if e._fixup is not None else {}}

    # ---- the laws
    def check_solid(self, snap: list, new, R, o, label: str) -> None:
        if len(new.sides) != len(snap):
            self.fail(f'{label}: face count changed', 'brush-shape')
            return
        for fs, f in zip(snap, new.sides):
            for p0, p1 in zip(fs['planes'], f.planes):
                want = rot_point(p0, R, o)
                if not close(tuple(p1), want, 1e-6):
                    self.fail(f'{label}: plane point {tuple(p1)} is not R*p+o = {want}', 'brush-position', {'template_point': p0})
                    return
                self.run.count('plane_points_checked')
            # texture alignment moves with the geometry
            for axis_name, ax0, ax1 in (('u', fs['u'], f.uaxis), ('v', fs['v'], f.vaxis)):
                if abs(ax0[4]) < 1e-9:
                    continue
                for p0, p1 in zip(fs['planes'], f.planes):
                    t0 = (ax0[0] * p0[0] + ax0[1] * p0[1] + ax0[2] * p0[2]) / ax0[4] + ax0[3]
                    t1 = (ax1.x * p1.x + ax1.y * p1.y + ax1.z * p1.z) / ax1.scale + ax1.offset
                    if abs(t0 - t1) > 1e-5 * (1 + abs(t0) + abs(ax0[3])):
                        self.fail(f'{label}: texture coordinate along {axis_name} moved from {t0!r} to {t1!r}', 'texture-alignment',
                                  {'axis_before': ax0, 'axis_after': (ax1.x, ax1.y, ax1.z, ax1.offset, ax1.scale)})
                        return
                self.run.count('texture_projections_checked')
            if f.mat != fs['mat'] or f.disp_power != fs['power']:
                self.fail(f'{label}: material/power not copied', 'brush-shape')
                return
            if fs['power']:
                want = rot_point(fs['disp_pos'], R, o)
                if not close(tuple(f.disp_pos), want, 1e-6):
                    self.fail(f'{label}: displacement start position {tuple(f.disp_pos)} is not R*p+o = {want}', 'disp-position')
                    return
                if list(f.disp_allowed_vert) != fs['allowed']:
                    self.fail(f'{label}: displacement allowed_verts not carried over', 'disp-data-lost')
                    return
                size = f.disp_size
                for i, (n0, off0, dist0, alpha0, offn0) in enumerate(fs['verts']):
                    v = f[i % size, i // size]
                    if not close(tuple(v.normal), vmul(n0, R), 1e-6) or not close(tuple(v.offset), vmul(off0, R), 1e-6) or v.distance != dist0 or v.alpha != alpha0 \
                            or not close(tuple(v.offset_norm), vmul(offn0, R), 1e-6):
                        self.fail(f'{label}: displacement vertex {i} not rotated with the instance', 'disp-vertex')
                        return
                self.run.count('displacements_checked')

    def check_result(self, pos, ang, style, inst_name, table, snap_brushes, snap_ents, new_brushes, new_ents, c) -> None:
        from srctools.math import Matrix, Angle, Vec
        from srctools.fgd import EntityDef
        R = model_matrix(*ang)
        if len(new_brushes) != len(snap_brushes):
            self.fail(f'collapse #{c + 1} added {len(new_brushes)} world brushes for {len(snap_brushes)} visible template brushes', 'brush-count')
            return
        if len(new_ents) != len(snap_ents):
            self.fail(f'collapse #{c + 1} added {len(new_ents)} entities for {len(snap_ents)} visible template entities', 'entity-count')
            return
        for snap, new in zip(snap_brushes, new_brushes):
            self.check_solid(snap, new, R, pos, 'world brush')
            if self.bad:
                return
        # old face id -> new face id, from the positional pairing of template and collapsed brushes
        face_map: Dict[int, int] = {}
        for snap, new in zip(snap_brushes, new_brushes):
            for fs, f in zip(snap, new.sides):
                face_map[fs['id']] = f.id
        for snap, new in zip(snap_ents, new_ents):
            for ss, ns in zip(snap['solids'], new.solids):
                for fs, f in zip(ss, ns.sides):
                    face_map[fs['id']] = f.id
        node_map: Dict[int, int] = {}
        for snap, new in zip(snap_ents, new_ents):
            keys = snap['keys']
            cls = keys.get('classname', '')
            label = f'{cls} entity'
            for ss, ns in zip(snap['solids'], new.solids):
                self.check_solid(ss, ns, R, pos, label + ' brush')
                if self.bad:
                    return
                if ss and ss[0].get('solid_hidden') and not ns.hidden:
                    self.fail(f'{label}: a brush that is individually hidden in the template is visible in the collapsed copy',
                              'hidden-brush-became-visible')
                    return
                if ss and ss[0].get('solid_hidden'):
                    self.run.count('hidden_entity_brushes_checked')
            if len(snap['solids']) != len(new.solids):
                self.fail(f'{label}: solids not copied', 'brush-count')
                return
            try:
                edef = EntityDef.engine_def(cls)
            except KeyError:
                edef = None
            for k, old in keys.items():
                f = k.casefold()
                new_val = new[k]
                sub = substitute_model(old, table)
                if f == 'origin':
                    p0 = tuple(float(x) for x in sub.split())
                    want = rot_point(p0, R, pos)
                    got = tuple(float(x) for x in new_val.split())
                    if not close(got, want, 5e-6):
                        self.fail(f'{label}: origin {new_val!r} is not R*p+o = {want}', 'entity-origin', {'template': old})
                        return
                    self.run.count('origins_checked')
                elif f == 'angles':
                    # (angles, pitch and yaw may be given through $variables like any other value)
                    a0 = tuple(float(x) for x in sub.split())
                    # the special "pitch" / "yaw" keys override the components of angles before the rotation
                    folded_keys = {kk.casefold(): substitute_model(vv, table) for kk, vv in keys.items()}
                    if 'pitch' in folded_keys:
                        pk = float(folded_keys['pitch'])
                        if edef is not None and 'pitch' in edef.kv and edef.kv['pitch'].type.name == 'ANGLE_NEG_PITCH':
                            pk = -pk
                        a0 = (pk, a0[1], a0[2])
                    if 'yaw' in folded_keys:
                        a0 = (a0[0], float(folded_keys['yaw']), a0[2])
                    want_m = mmul(model_matrix(*a0), R)
                    got_a = tuple(float(x) for x in new_val.split())
                    got_m = model_matrix(*got_a)
                    h = horiz(want_m)
                    tol = 1e-5 if h > 0.001 else 2 * h + 1e-5
                    if maxdiff(got_m, want_m) > tol:
                        self.fail(f'{label}: angles {new_val!r} are not the template angles {old!r} composed with the instance rotation {ang}',
                                  'entity-orientation', {'diff': maxdiff(got_m, want_m)})
                        return
                    self.run.count('orientations_checked')
                elif f == 'classname':
                    if new_val != old:
                        self.fail(f'{label}: {k} changed', 'key-changed')
                        return
                elif f in ('hammerid', 'spawnflags'):
                    # not transformed, but $variables are substituted here as everywhere
                    if new_val != sub:
                        self.fail(f'{label}: {k}={new_val!r}, expected {sub!r} (template {old!r})', 'key-changed' if '$' not in old else 'variable-substitution')
                        return
                    if '$' in old:
                        self.run.count('variables_in_untransformed_keys_checked')
                elif edef is not None and f in edef.kv:
                    t = edef.kv[f].type
                    if t.is_ent_name:
                        want = fixup_name_model(style, inst_name, sub)
                        if new_val != want:
                            self.fail(f'{label}: name key {k}={new_val!r}, expected {want!r} (template {old!r}, style {style})', 'name-fixup')
                            return
                        self.run.count('names_checked')
                    elif t.name in ('VEC_LINE', 'VEC_ORIGIN') or (t.name == 'VEC' and f == 'basisorigin'):
                        want = rot_point(tuple(float(x) for x in sub.split()), R, pos)
                        got = tuple(float(x) for x in new_val.split())
                        if len(got) != 3 or not close(got, want, 5e-6):
                            self.fail(f'{label}: position key {k}={new_val!r} is not R*p+o = {want}', 'typed-key-position', {'template': old, 'type': t.name})
                            return
                        self.run.count('typed_positions_checked')
                    elif t.name == 'ANGLES':
                        a1 = tuple(float(x) for x in sub.split())
                        want_m = mmul(model_matrix(*a1), R)
                        got_a = tuple(float(x) for x in new_val.split())
                        h = horiz(want_m)
                        if len(got_a) != 3 or maxdiff(model_matrix(*got_a), want_m) > (1e-5 if h > 0.001 else 2 * h + 1e-5):
                            self.fail(f'{label}: angle key {k}={new_val!r} is not the template value {old!r} composed with the instance rotation {ang}',
                                      'typed-key-angles', {'template': old})
                            return
                        self.run.count('typed_angle_keys_checked')
                    elif t.name == 'EXT_VEC_DIRECTION':
                        want = vmul(tuple(float(x) for x in sub.split()), R)
                        got = tuple(float(x) for x in new_val.split())
                        if len(got) != 3 or not close(got, want, 5e-6):
                            self.fail(f'{label}: direction key {k}={new_val!r} is not R*d = {want}', 'typed-key-direction', {'template': old})
                            return
                        self.run.count('typed_directions_checked')
                    elif t.name == 'EXT_VEC_LOCAL':
                        if tuple(float(x) for x in new_val.split()) != tuple(float(x) for x in sub.split()):
                            self.fail(f'{label}: local-space key {k} changed from {old!r} to {new_val!r}', 'typed-key-local')
                            return
                    elif t.name == 'VEC_AXIS':
                        try:
                            g1, g2 = [tuple(float(x) for x in part.split()) for part in new_val.split(',')]
                        except ValueError:
                            g1 = g2 = ()
                        w1, w2 = [rot_point(tuple(float(x) for x in part.split()), R, pos) for part in sub.split(',')]
                        if len(g1) != 3 or len(g2) != 3 or not close(g1, w1, 5e-6) or not close(g2, w2, 5e-6):
                            self.fail(f'{label}: axis key {k}={new_val!r} is not the two template points moved with the instance ({w1}, {w2})', 'typed-key-axis', {'template': old})
                            return
                        self.run.count('typed_axes_checked')
                    elif t.name == 'SIDE_LIST':
                        want_ids = sorted(face_map[int(x)] for x in sub.split() if int(x) in face_map)
                        try:
                            got_ids = sorted(int(x) for x in new_val.split())
                        except ValueError:
                            got_ids = [-1]
                        if got_ids != want_ids:
                            self.fail(f'{label}: side list {k}={new_val!r}, expected the new IDs {want_ids} of the listed template faces {sub!r}', 'typed-key-sidelist')
                            return
                        self.run.count('typed_sidelists_checked')
                    elif t.name in ('TARG_NODE_SOURCE', 'TARG_NODE_DEST'):
                        old_id = int(sub)
                        try:
                            new_id = int(new_val)
                        except ValueError:
                            new_id = -1
                        if new_id <= 0 or node_map.setdefault(old_id, new_id) != new_id:
                            self.fail(f'{label}: node id key {k}: template id {old_id} became {new_val!r}, but {node_map.get(old_id)} elsewhere in the same instance', 'typed-key-nodeid')
                            return
                        if len(set(node_map.values())) != len(node_map):
                            self.fail(f'{label}: two template node ids were mapped to the same new id: {node_map}', 'typed-key-nodeid')
                            return
                        self.run.count('typed_nodeids_checked')
                    elif t.name == 'TARG_DEST_CLASS':
                        want = sub if sub.casefold() in EntityDef.engine_classes() else fixup_name_model(style, inst_name, sub)
                        if new_val != want:
                            self.fail(f'{label}: name-or-class key {k}={new_val!r}, expected {want!r} (template {old!r}, style {style})', 'typed-key-name-or-class')
                            return
                        self.run.count('typed_name_or_class_checked')
                    elif t.name == 'ANGLE_NEG_PITCH' and f == 'pitch':
                        got_pitch = float(new['angles'].split()[0])
                        d = (float(new_val) + got_pitch) % 360.0
                        if min(d, 360.0 - d) > 1e-4:
                            self.fail(f'{label}: pitch key {new_val!r} is not the negated pitch of the new angles {new["angles"]!r}', 'typed-key-pitch')
                            return
                        self.run.count('typed_pitch_checked')
                    elif t.name in ('STRING', 'STR_SOUND', 'STR_SPRITE', 'STR_MODEL', 'STR_MATERIAL', 'INT', 'FLOAT', 'BOOL'):
                        if new_val != sub:
                            self.fail(f'{label}: key {k}={new_val!r}, expected the substituted template value {sub!r} (template {old!r})', 'variable-substitution')
                            return
                        self.run.count('substitutions_checked')
                    for var in table:
                        if '$' + var in new_val.casefold() and '$' + var not in sub.casefold():
                            self.fail(f'{label}: key {k}={new_val!r} still contains ${var}', 'variable-substitution')
                            return
            # fixup values of a nested func_instance that are entity names follow the fixup style too; '@'/'!' names and numbers stay
            if cls == 'func_instance':
                for var, raw0 in snap['fixup'].items():
                    got = new.fixup[var]
                    # the outer instance's variables are substituted into the values handed down to the nested instance first
                    val0 = substitute_model(raw0, table)
                    if '$' in raw0:
                        self.run.count('nested_fixup_values_with_variables')
                    # the documented rule ("Valve's logic"): a value that starts with a digit, a sign, a dot, '@' or '!' is
                    # taken for a number / vector / special name and handed down as it is; anything else is an entity name
                    if not val0 or val0[0] in '@!-.0123456789':
                        want = val0
                    else:
                        want = fixup_name_model(style, inst_name, val0)
                    self.run.count('nested_fixup_values_checked')
                    if got != want:
                        self.fail(f'{label}: fixup ${var} of the nested instance is {got!r}, expected {want!r} (template {val0!r}, style {style})', 'nested-fixup-name')
                        return
            if len(new.outputs) != len(snap['outputs']):
                self.fail(f'{label}: the collapsed copy has {len(new.outputs)} outputs, the template entity {len(snap["outputs"])}', 'output-list-changed')
                return
            for (o_out, o_tgt, o_in, o_par, o_delay, o_times, o_iout, o_iin), new_o in zip(snap['outputs'], new.outputs):
                want = fixup_name_model(style, inst_name, substitute_model(o_tgt, table))
                if new_o.target != want:
                    self.fail(f'{label}: output target {new_o.target!r}, expected {want!r} (template {o_tgt!r}, style {style})', 'output-target-fixup')
                    return
                # everything else of an output travels unchanged (only the target is a name)
                rest_new = (new_o.output, new_o.input, new_o.params, new_o.delay, new_o.times, new_o.inst_out, new_o.inst_in)
                rest_old = (o_out, o_in, o_par, o_delay, o_times, o_iout, o_iin)
                if rest_new != rest_old:
                    self.fail(f'{label}: output fields other than the target changed: {rest_old!r} -> {rest_new!r}', 'output-list-changed')
                    return
                self.run.count('output_targets_checked')


def bounded_progress(run, rng, case_id: int) -> None:
    """collapse_all on recursive instance graphs: count collapse_one calls against the analytic budget."""
    from srctools.vmf import VMF
    from srctools import instancing
    from srctools.filesys import VirtualFileSystem
    shape = rng.choice(('self', 'mutual', 'fan2', 'chain'))
    limit = rng.randint(1, 5)
    files: Dict[str, str] = {}

    def mk(contents: List[str]) -> str:
        v = VMF()
        v.create_ent('info_target', targetname='x', origin='0 0 0')
        for fn in contents:
            # (class names are case-insensitive: the nested instance may be spelled in any letter case)
            v.create_ent(rng.choice(('func_instance', 'func_instance', 'Func_Instance', 'FUNC_INSTANCE')), targetname='n', file=fn,
                         origin='16 0 0', angles='0 90 0')
        return v.export(inc_version=False)
    if shape == 'self':
        files['a.vmf'] = mk(['a.vmf'])
        fan = 1
    elif shape == 'mutual':
        files['a.vmf'] = mk(['b.vmf'])
        files['b.vmf'] = mk(['a.vmf'])
        fan = 1
    elif shape == 'fan2':
        files['a.vmf'] = mk(['a.vmf', 'a.vmf'])
        fan = 2
    else:
        files['a.vmf'] = mk(['b.vmf'])
        files['b.vmf'] = mk([])
        fan = 1
    top = VMF()
    n_top = rng.randint(1, 2)
    for _ in range(n_top):
        top.create_ent('func_instance', targetname='top', file='a.vmf', origin='0 0 0', angles='0 0 0')
    fsys = VirtualFileSystem(files)
    calls = [0]
    real = instancing.collapse_one

    budget = n_top * sum(fan ** k for k in range(0, limit + 1))

    class OverBudget(BaseException):
        pass

    def counting(*a, **kw):
        calls[0] += 1
        if calls[0] > 3 * budget + 10:
            raise OverBudget()  # far past the analytic bound: stop the run instead of waiting for the watchdog
        return real(*a, **kw)
    instancing.collapse_one = counting
    outcome = 'returned'
    try:
        instancing.collapse_all(top, fsys, recur_limit=limit)
    except RecursionError:
        outcome = 'RecursionError'
    except OverBudget:
        outcome = 'stopped by the monitor'
    except Exception as exc:
        run.violation(f'collapse_all({shape}, recur_limit={limit}) raised {type(exc).__name__}: {exc}', witness=traceback.format_exc()[-800:],
                      case={'id': case_id, 'bounded': True}, engine='bounded-progress', key='collapse-all-raises')
        return
    finally:
        instancing.collapse_one = real
    run.count('collapse_all_runs')
    run.count('collapse_all_calls_observed', calls[0])
    if calls[0] > budget:
        run.violation(f'collapse_all({shape}, recur_limit={limit}) made {calls[0]} collapse_one calls, budget {budget}',
                      case={'id': case_id, 'bounded': True}, engine='bounded-progress', key='collapse-all-over-budget')
    if outcome == 'returned' and list(top.by_class['func_instance']):
        run.violation('collapse_all returned with func_instance entities left in the map', case={'id': case_id, 'bounded': True},
                      engine='bounded-progress', key='collapse-all-incomplete')
    run.case(['bounded', shape, limit, n_top], True, sample={'shape': shape, 'recur_limit': limit, 'calls': calls[0], 'budget': budget, 'outcome': outcome} if case_id < 2 else None, tag='bounded-progress')


def rewritten_file(run, rng, case_id: int) -> None:
    """collapse_all twice in one process with the instance file rewritten in between (a compiler run per map, an editor that
    saves the instance): each call copies what the file holds at the time of that call."""
    import tempfile, shutil
    from srctools.vmf import VMF
    from srctools import instancing
    from srctools.filesys import RawFileSystem, VirtualFileSystem
    classes = ['logic_relay', 'info_target', 'env_sprite', 'prop_dynamic', 'logic_auto', 'math_counter']

    def version():
        v = VMF()
        want = []
        for j in range(rng.randint(1, 4)):
            cls = rng.choice(classes)
            marker = f'm{rng.randrange(10 ** 6)}'
            v.create_ent(cls, targetname=f'e{j}', origin=f'{16 * j} 0 0', marker=marker)
            want.append((cls, marker))
        return v.export(inc_version=False), sorted(want)

    backend = rng.choice(('raw-fresh', 'raw-same', 'virtual-fresh'))
    fname = rng.choice(('inst.vmf', 'sub/inst.vmf', 'Inst.VMF'))
    tmp = tempfile.mkdtemp(prefix='rv-c17-')
    case = {'id': case_id, 'rewritten_file': True, 'backend': backend}
    try:
        fsys = None
        for generation in range(rng.choice((2, 2, 3))):
            text, want = version()
            if backend.startswith('raw'):
                path = os.path.join(tmp, fname)
                os.makedirs(os.path.dirname(path), exist_ok=True)
                with open(path, 'w') as f:
                    f.write(text)
                if fsys is None or backend == 'raw-fresh':
                    fsys = RawFileSystem(tmp)
            else:
                fsys = VirtualFileSystem({fname: text})
            top = VMF()
            n_inst = rng.choice((1, 2))
            for j in range(n_inst):
                top.create_ent('func_instance', file=fname, origin=f'0 {256 * j} 0', angles='0 0 0', targetname=f'i{j}')
            try:
                instancing.collapse_all(top, fsys)
            except Exception as exc:
                run.violation(f'collapse_all raised {type(exc).__name__}: {exc} (generation {generation} of the file, {backend})',
                              witness=traceback.format_exc()[-800:], case=case, engine='rewritten-file', key='collapse-all-raises')
                return
            got = sorted((e['classname'], e['marker']) for e in top.entities if 'marker' in e)
            run.count('collapses_of_a_rewritten_file')
            if got != sorted(want * n_inst):
                run.violation(f'collapse_all copied {got} although the instance file holds {want} at the time of the call '
                              f'(generation {generation} of the file, {backend})',
                              witness={'file_holds': want, 'copied': got, 'instances': n_inst}, case=case,
                              engine='rewritten-file', key='stale-instance-file')
                return
        run.case(['rewritten', backend, fname], True, tag='rewritten-file')
    finally:
        shutil.rmtree(tmp, ignore_errors=True)


def nested_names(run, rng, case_id: int) -> None:
    """collapse_all over a non-recursive graph of (partly unnamed) instances at several nesting depths.  Every copy of the
    leaf template must stay a separate copy: its relay and its target carry one and the same instance name, no two copies
    share a name, and each relay's output still addresses exactly the target of its own copy (placement is composed)."""
    from srctools.vmf import VMF, Output
    from srctools import instancing
    from srctools.filesys import VirtualFileSystem
    style = rng.choice((0, 1))
    leaf = VMF()
    r = leaf.create_ent('logic_relay', targetname='relay', origin='0 0 0')
    r.add_out(Output('OnTrigger', 'target', 'Kill'))
    leaf.create_ent('info_target', targetname='target', origin='8 0 0')
    files = {'leaf.vmf': leaf.export(inc_version=False)}
    depth = rng.randint(1, 3)
    prev = 'leaf.vmf'
    expected_copies = 1
    for d in range(depth):
        w = VMF()
        k = rng.choice((1, 1, 2))
        for j in range(k):
            kw = dict(file=prev, origin=f'{64 * (j + 1)} 0 0', angles='0 0 0', fixup_style=str(style))
            if rng.random() < 0.35:
                kw['targetname'] = f'named{d}_{j}'
            w.create_ent('func_instance', **kw)
        expected_copies *= k
        if rng.random() < 0.5:  # the leaf also sits directly in this level
            w.create_ent('func_instance', file='leaf.vmf', origin='0 512 0', angles='0 0 0', fixup_style=str(style))
            expected_copies += 1
        prev = f'w{d}.vmf'
        files[prev] = w.export(inc_version=False)
    top = VMF()
    n_top = rng.choice((1, 2, 3))
    for j in range(n_top):
        kw = dict(file=prev, origin=f'0 0 {128 * j}', angles='0 0 0', fixup_style=str(style))
        if rng.random() < 0.3:
            kw['targetname'] = f'top{j}'
        top.create_ent('func_instance', **kw)
    expected_copies *= n_top
    case = {'id': case_id, 'nested_names': True, 'depth': depth, 'style': style}
    try:
        instancing.collapse_all(top, VirtualFileSystem(files), recur_limit=depth + 3)
    except Exception as exc:
        run.violation(f'collapse_all raised {type(exc).__name__}: {exc}', witness=traceback.format_exc()[-800:], case=case,
                      engine='nested-names', key='collapse-all-raises')
        return
    relays = list(top.by_class['logic_relay'])
    targets = list(top.by_class['info_target'])
    run.count('nested_name_maps')
    run.count('nested_copies_checked', len(relays))
    if len(relays) != expected_copies or len(targets) != expected_copies:
        run.violation(f'{expected_copies} copies of the leaf template expected, {len(relays)} relays and {len(targets)} targets found',
                      case=case, engine='nested-names', key='nested-copy-count')
        return
    rnames = [e['targetname'] for e in relays]
    tnames = [e['targetname'] for e in targets]
    if len(set(rnames)) != len(rnames) or len(set(tnames)) != len(tnames):
        dup = sorted(n for n in set(rnames + tnames) if (rnames + tnames).count(n) > 1)[:3]
        run.violation(f'separate copies of one instance file ended with the same entity names {dup} (style {style})', witness={'relays': sorted(rnames)[:8]},
                      case=case, engine='nested-names', key='copies-share-names')
        return
    for e in relays:
        tgt = e.outputs[0].target
        hits = [t for t in targets if t['targetname'] == tgt]
        same_copy = [t for t in hits if all(abs(a - b) < 1e-6 for a, b in zip(t.get_origin() - e.get_origin(), (8.0, 0.0, 0.0)))]
        if len(hits) != 1 or len(same_copy) != 1:
            run.violation(f'the output of {e["targetname"]!r} addresses {len(hits)} targets ({len(same_copy)} in its own copy)', case=case,
                          engine='nested-names', key='output-leaves-its-copy')
            return
    run.case(['nested-names', case_id, depth, n_top, style], depth > 1, tag='nested-names')


def one_case(run, seed: int, i: int, engine: str = 'collapse') -> None:
    rng = sub_rng(seed, engine, i)
    c = Collapser(run, rng, i, engine)
    nontrivial, placements = c.run_case()
    run.case([engine, i, placements, sorted(c.features.items())], nontrivial,
             sample={'id': i, 'placements': placements, 'features': c.features} if i < 2 else None, tag=engine)


def main(run, shard=(0, 1)) -> None:
    import srctools.instancing as inst
    import srctools.vmf as vm
    import logging
    logging.getLogger('srctools').setLevel(logging.ERROR)
    probe = ReachProbe({
        'collapse_one': (inst, 'collapse_one'), 'collapse_all': (inst, 'collapse_all'), 'Instance.fixup_key': (inst, 'Instance.fixup_key'),
        'Instance.fixup_name': (inst, 'Instance.fixup_name'), 'Solid.localise': (vm, 'Solid.localise'), 'Side.localise': (vm, 'Side.localise'),
        'UVAxis.localise': (vm, 'UVAxis.localise'), 'EntityFixup.substitute': (vm, 'EntityFixup.substitute'),
    })
    probe.start()
    thorough = run.tier == 'thorough'
    n = 80000 if thorough else 300
    for i in range(n):
        if mine(i, shard):
            one_case(run, run.seed, i)
    for i in range(10000 if thorough else 120):
        if mine(i, shard):
            bounded_progress(run, sub_rng(run.seed, 'bounded', i), i)
    for i in range(10000 if thorough else 150):
        if mine(i, shard):
            nested_names(run, sub_rng(run.seed, 'nested', i), i)
    for i in range(3000 if thorough else 60):
        if mine(i, shard):
            rewritten_file(run, sub_rng(run.seed, 'rewritten', i), i)
    probe.report(run)
    probe.check_reached(run)
    run.require('collapses', 'hidden_entity_brushes_checked', 'nested_name_maps', 'nested_copies_checked', 'nested_fixup_values_checked', 'collapses_keeping_visgroups', 'collapsed_copies_mutated', 'typed_positions_checked', 'typed_angle_keys_checked', 'variables_in_untransformed_keys_checked', 'nested_fixup_values_with_variables', 'typed_directions_checked', 'typed_axes_checked', 'typed_sidelists_checked', 'typed_nodeids_checked', 'typed_name_or_class_checked', 'typed_pitch_checked', 'plane_points_checked', 'texture_projections_checked', 'origins_checked', 'orientations_checked',
                'names_checked', 'substitutions_checked', 'template_snapshots_compared', 'collapse_all_runs', 'displacements_checked', 'collapses_of_a_rewritten_file', 'instances_built_through_the_constructor')


def replay(run, data) -> None:
    case = data['case']
    if case.get('bounded'):
        bounded_progress(run, sub_rng(run.seed, 'bounded', int(case['id'])), int(case['id']))
    elif case.get('rewritten_file'):
        rewritten_file(run, sub_rng(run.seed, 'rewritten', int(case['id'])), int(case['id']))
    elif case.get('nested_names'):
        nested_names(run, sub_rng(run.seed, 'nested', int(case['id'])), int(case['id']))
    else:
        one_case(run, run.seed, int(case['id']))
    run.case('pad', True)
    run.case('pad2', True)


# (kept at the end of the file so that the text above stays the description the check was first built to)
RULE += ' ' + "Later additions: ANGLES-typed keyvalues other than angles (movedir, pushdir, spraydir, ajarangles); every field of an output; variable names that are prefixes of each other and values with backslashes / '$'. collapse_all is called two or three times in one process with the instance file rewritten in between (same folder, fresh or reused filesystem object): each call copies what the file holds at that time. Three instances in ten are built through the Instance constructor with outputs and fixups supplied as list, tuple, iterator, generator or map object."
