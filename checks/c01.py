"""C01 KeyValues1 serialise/parse round trip preserves the whole tree."""
from __future__ import annotations

import io
import os
import pathlib
import tempfile
import warnings
from typing import Any, List, Optional, Tuple

from rv.util import mine, sub_rng, rand_text, random_chunks, ESC_SET
from rv.probes import ReachProbe

PROP = 'C01'
LEVEL = 'exploration'
RULE = ('seeded random trees (depth<=5, width<=6, empty blocks, duplicate and case-variant names, empty names/values; '
        'characters from the escape set, structure characters, controls, BOM, astral code points; names never contain '
        'CR/LF) serialised under every combination of indent in {TAB, 2 spaces, empty, space+TAB}, indent_braces, '
        'start_indent, to a string and to a file object, and through the deprecated export() line generator; parsed '
        'from a str, from a list of random chunks, from io.StringIO and from real file objects (TemporaryFile, open(path), open(fd)). Non-trivial = the tree contains a block and '
        'at least one escape-set character; distinct = distinct tree content.')
ASSUMPTIONS = ['Python tokenizer', 'names contain no CR/LF (excluded by the property)',
               'trees are acyclic and leaves hold str values']
JOBS = {'quick': 1, 'thorough': 16}

INDENTS = ['\t', '  ', '', ' \t']
START_INDENTS = ['', '\t\t']


# A tree is (name|None, str | list[tree]).
def gen_tree(rng, depth: int, root: bool) -> Tuple[Optional[str], Any]:
    hostile = rng.choice((0.1, 0.5, 0.9))
    names_pool: List[str] = []

    def name() -> str:
        if names_pool and rng.random() < 0.25:
            n = rng.choice(names_pool)
            return rng.choice((n, n.upper(), n.lower(), n.swapcase()))
        n = rand_text(rng, 10, allow_newlines=False, hostile=hostile)
        names_pool.append(n)
        return n

    made: List[Tuple[str, Any]] = []

    def node(d: int) -> Tuple[str, Any]:
        # the same subtree again (with sharing on, build() makes it the very same object): a legal, acyclic tree
        if made and rng.random() < 0.12:
            return rng.choice(made)
        n = fresh_node(d)
        made.append(n)
        return n

    def fresh_node(d: int) -> Tuple[str, Any]:
        if d <= 0 or rng.random() < 0.55:
            return (name(), rand_text(rng, 14, hostile=hostile))
        width = rng.choice((0, 0, 1, 2, 3, 6))
        return (name(), [node(d - 1) for _ in range(width)])

    if root:
        return (None, [node(depth) for _ in range(rng.choice((0, 1, 2, 4)))])
    n = node(depth)
    if rng.random() < 0.8 and isinstance(n[1], str):
        n = (n[0], [node(depth - 1) for _ in range(rng.choice((0, 1, 3)))])
    return n


def build(tree, share: Optional[dict] = None) -> Any:
    """The Keyvalues tree for a description.  With `share` (a dict), equal sub-descriptions become ONE object that
    sits in the tree several times (under one parent or under different ones)."""
    from srctools.keyvalues import Keyvalues
    name, val = tree
    key = repr(tree)
    if share is not None and name is not None and key in share:
        share['__hits__'] = share.get('__hits__', 0) + 1
        return share[key]
    if isinstance(val, str):
        kv = Keyvalues(name, val)
    else:
        kids = [build(c, share) for c in val]
        kv = Keyvalues.root(*kids) if name is None else Keyvalues(name, kids)
    if share is not None and name is not None:
        share[key] = kv
    return kv


class _ListSink(list):
    """A collector used as a file: write() appends.  Like every empty list it is falsy until something was written."""
    write = list.append


class _WriteOnly:
    __slots__ = ('parts',)

    def __init__(self) -> None:
        self.parts: List[str] = []

    def write(self, text: str) -> int:
        self.parts.append(text)
        return len(text)


def snapshot(kv) -> Any:
    """Structural content via the public API (real_name, value/children), never __eq__."""
    if kv.has_children():
        return (kv.real_name, [snapshot(c) for c in kv])
    return (kv.real_name, kv.value)


def first_diff(a, b, path='') -> Optional[dict]:
    if a[0] != b[0]:
        return {'path': path, 'field': 'name', 'want': a[0], 'got': b[0], 'is_block': isinstance(a[1], list)}
    if isinstance(a[1], str) or isinstance(b[1], str):
        if a[1] != b[1]:
            return {'path': path, 'field': 'value', 'want': a[1] if isinstance(a[1], str) else '<block>',
                    'got': b[1] if isinstance(b[1], str) else '<block>', 'is_block': isinstance(a[1], list)}
        return None
    for i, (x, y) in enumerate(zip(a[1], b[1])):
        d = first_diff(x, y, f'{path}/{i}')
        if d:
            return d
    if len(a[1]) != len(b[1]):
        return {'path': path, 'field': 'child-count', 'want': len(a[1]), 'got': len(b[1]), 'is_block': True}
    return None


def has_block_with_escape(tree) -> bool:
    name, val = tree
    if isinstance(val, list):
        if name is not None and any(c in ESC_SET for c in name):
            return True
        return any(has_block_with_escape(c) for c in val)
    return False


def stats(tree) -> Tuple[bool, bool]:
    """(has a named block, has an escape-set char anywhere)."""
    name, val = tree
    blk = isinstance(val, list) and name is not None
    esc = bool(name) and any(c in ESC_SET for c in name)
    if isinstance(val, str):
        esc = esc or any(c in ESC_SET for c in val)
    else:
        for c in val:
            b, e = stats(c)
            blk = blk or b
            esc = esc or e
    return blk, esc


def tok_stream(text: str) -> Any:
    """What the parser sees, with NEWLINE tokens dropped ("apart from whitespace")."""
    from srctools.tokenizer import Tokenizer, Token, TokenSyntaxError
    out = []
    try:
        for t, v in Tokenizer(text, string_bracket=True):
            if t is not Token.NEWLINE:
                out.append((t.name, v))
    except TokenSyntaxError as exc:
        out.append(('ERROR', str(exc.mess)))
    return out


def classify(tree, diff: Optional[dict], err: Optional[str]) -> str:
    if diff is not None and diff.get('is_block') and diff['field'] == 'name' and any(c in ESC_SET for c in (diff['want'] or '')):
        return 'block-name-unescaped'
    if err is not None and has_block_with_escape(tree):
        return 'block-name-unescaped'
    if diff is not None and has_block_with_escape(tree) and diff['field'] in ('child-count', 'value'):
        return 'block-name-unescaped'
    return 'roundtrip-mismatch' if diff is not None else 'parse-rejects-own-output'


def check_tree(run, rng, tree, engine: str, case_id: Any, share: Optional[bool] = None) -> None:
    from srctools.keyvalues import Keyvalues, KeyValError
    if share is None:
        share = isinstance(case_id, int) and case_id % 3 == 1
    case = {'id': case_id, 'tree': tree, 'share': share}
    memo: Optional[dict] = {} if share else None
    if isinstance(case_id, int) and case_id % 4 == 2:
        # history: an earlier, unrelated parse that stops early (single_block leaves a looked-ahead token in ITS tokenizer),
        # or a tokenizer dropped after a peek - the parses below start from a clean state
        try:
            if case_id % 8 == 2:
                Keyvalues.parse('"Name" "Value"', single_block=True)
            else:
                from srctools.tokenizer import Tokenizer as _Tk
                _Tk('{ "left" "behind" }').peek()
        except Exception:
            pass
        run.count('parses_after_an_abandoned_tokenizer')
    kv = build(tree, memo)
    if memo and memo.get('__hits__'):
        run.count('trees_with_one_object_in_two_places')
    before = snapshot(kv)
    want = before if tree[0] is not None else before
    # the accessors used as the reference below are themselves checked against the description the tree was built from
    def as_snap(t):
        return (t[0], t[1]) if isinstance(t[1], str) else (t[0], [as_snap(c) for c in t[1]])
    d0 = first_diff(as_snap(tree), before)
    if d0 is not None:
        run.violation(f'the tree just built does not report the names/values it was built from: {d0}', case=case, engine=engine,
                      key='accessors-differ-from-construction')
        return
    # --- serialise under one random option set + the default, compare all outputs modulo whitespace
    opt_sets = [dict(indent='\t', indent_braces=False, start_indent='')]
    opt_sets.append(dict(indent=rng.choice(INDENTS), indent_braces=rng.random() < 0.5, start_indent=rng.choice(START_INDENTS)))
    opt_sets.append(dict(indent=rng.choice(INDENTS), indent_braces=rng.random() < 0.5, start_indent=rng.choice(START_INDENTS)))
    texts: List[Tuple[str, str]] = []
    for i, opts in enumerate(opt_sets):
        try:
            if i == 2:
                # anything with a write() method is a file for serialise(): StringIO, a real text file, a bare collector
                # (a list subclass, which is falsy while it is empty), an object that has write() and nothing else
                sink_kind = (case_id if isinstance(case_id, int) else len(texts)) % 4
                if sink_kind == 0:
                    buf: Any = io.StringIO()
                elif sink_kind == 1:
                    buf = _ListSink()
                elif sink_kind == 2:
                    buf = tempfile.TemporaryFile('w+', encoding='utf8', errors='surrogatepass', newline='')
                else:
                    buf = _WriteOnly()
                res = kv.serialise(buf, **opts)
                if sink_kind == 0:
                    text = buf.getvalue()
                elif sink_kind == 1:
                    text = ''.join(buf)
                elif sink_kind == 2:
                    buf.seek(0)
                    text = buf.read()
                    buf.close()
                else:
                    text = ''.join(buf.parts)
                run.count('serialise_into_sinks')
                if res is not None:
                    run.violation(f'serialise(file) returned a value (sink kind {sink_kind})', case=case, engine=engine, key='serialise-return')
            else:
                text = kv.serialise(**opts)
        except Exception as exc:
            run.violation(f'serialise raised {exc!r}', case=case, engine=engine, key='serialise-raises')
            return
        if not isinstance(text, str):
            run.violation(f'serialise({opts}) produced {type(text).__name__} instead of the text', case=case, engine=engine,
                          key='serialise-return')
            return
        texts.append((f'serialise{opts}', text))
        run.count('serialise_calls')
    with warnings.catch_warnings():
        warnings.simplefilter('ignore')
        try:
            texts.append(('export()', ''.join(kv.export())))
        except Exception as exc:
            run.violation(f'export() raised {exc!r}', case=case, engine=engine, key='export-raises')
    after = snapshot(kv)
    if after != before:
        run.violation('serialising changed the tree', witness={'diff': first_diff(before, after)}, case=case,
                      engine=engine, key='serialise-mutates')
    ref_stream = tok_stream(texts[0][1])
    for label, text in texts[1:]:
        if tok_stream(text) != ref_stream:
            run.violation(f'output of {label} differs from the default output by more than whitespace',
                          witness={'default': texts[0][1], 'other': text}, case=case, engine=engine,
                          key='option-dependent-output' if label != 'export()' else 'export-differs')
    # --- parse each text under one delivery each (rotating), plus the default text under all three
    deliveries = ['str', 'chunks', 'file', 'realfile', 'tokenizer']
    for ti, (label, text) in enumerate(texts):
        for di, how in enumerate(deliveries):
            if ti != 0 and di != (ti + case_id if isinstance(case_id, int) else ti) % 5:
                continue
            closer = None
            fname: Any = ''
            if how == 'str':
                src: Any = text
            elif how == 'tokenizer':
                # "file_contents may be an already created tokenizer": the one parse() itself would build; the file
                # name (used for messages only) is given as str or as a path object
                from srctools.tokenizer import Tokenizer
                src = Tokenizer(random_chunks(rng, text, 6) if rng.random() < 0.5 else text, string_bracket=True, allow_escapes=True)
                fname = rng.choice(('', 'dir/some file.txt', pathlib.PurePosixPath('dir/some file.txt')))
                run.count('prebuilt_tokenizer_deliveries')
            elif how == 'chunks':
                src = random_chunks(rng, text, 10)
            elif how == 'file':
                if rng.random() < 0.4:
                    # a file object the caller has already read a first part of (a header line, an earlier document):
                    # parsing starts where the file object stands
                    before = rng.choice(('// header\n', '"EarlierKey" "earlier value"\n', '"Earlier"\n{\n"a" "b"\n}\n', '{\n', '"\n'))
                    src = io.StringIO(before + text, newline='')
                    if rng.random() < 0.5 and before.count('\n') == 1:
                        src.readline()
                    else:
                        src.seek(len(before)) if rng.random() < 0.5 else src.read(len(before))
                    run.count('deliveries_from_a_partly_read_file_object')
                    how = 'file/partly-read'
                else:
                    src = io.StringIO(text, newline='')
            else:
                # file objects as the operating system hands them out: an anonymous temporary file and a file opened
                # from a descriptor have an int as .name, a file opened by path has the path
                kind = (case_id if isinstance(case_id, int) else 0) % 5
                if kind >= 3:
                    # the text written through a file object that translates line ends (what a text file gets on Windows,
                    # or on an old Mac), then read with the line ends as they are on disk
                    fd, path = tempfile.mkstemp(prefix='rv-c01-', suffix='.txt')
                    with os.fdopen(fd, 'w', encoding='utf8', errors='surrogatepass', newline='\r\n' if kind == 3 else '\r') as wf:
                        wf.write(text)
                    src = open(path, encoding='utf8', errors='surrogatepass', newline='')
                    os.unlink(path)
                    run.count('deliveries_with_translated_line_ends')
                elif kind == 0:
                    src = tempfile.TemporaryFile('w+', encoding='utf8', errors='surrogatepass', newline='')
                    src.write(text)
                    src.seek(0)
                else:
                    fd, path = tempfile.mkstemp(prefix='rv-c01-', suffix='.txt')
                    with os.fdopen(fd, 'w', encoding='utf8', errors='surrogatepass', newline='') as wf:
                        wf.write(text)
                    if kind == 1:
                        src = open(path, encoding='utf8', errors='surrogatepass', newline='')
                    else:
                        src = open(os.open(path, os.O_RDONLY), encoding='utf8', errors='surrogatepass', newline='')
                    os.unlink(path)
                closer = src
                how = f'realfile/{("TemporaryFile", "open(path)", "open(fd)", "CR LF line ends", "CR line ends")[kind]}'
                run.count('real_file_deliveries')
            diff = err = None
            try:
                parsed = Keyvalues.parse(src, fname) if how == 'tokenizer' else Keyvalues.parse(src)
                run.count('parse_calls')
            except KeyValError as exc:
                err = f'{exc.mess} (line {exc.line_num})'
            except Exception as exc:
                err = f'non-KeyValError {exc!r}'
            if err is None:
                got = snapshot(parsed)
                if tree[0] is None:
                    diff = first_diff(want, got)
                else:
                    diff = first_diff((None, [want]), got)
            if closer is not None:
                closer.close()
            if err is not None or diff is not None:
                run.violation(f'{label} -> parse({how}) did not reproduce the tree: {err or diff}',
                              witness={'text': text, 'diff': diff, 'error': err}, case=case, engine=engine,
                              key=classify(tree, diff, err))
    # history: the tree parsed from the text is edited in place and dropped, then the same text is parsed again: the second
    # tree is what the text says (nothing handed out by the first parse is shared with the next)
    if isinstance(case_id, int) and case_id % 3 == 0:
        try:
            first = Keyvalues.parse(texts[0][1])
            for node in list(first.iter_tree(blocks=True)) if first.has_children() else []:
                if node is first:
                    continue
                node.name = (node.real_name or '') + '~edited'
                if node.has_children():
                    node.append(Keyvalues('added', 'x'))
                else:
                    node.value = node.value + '~'
            second = snapshot(Keyvalues.parse(texts[0][1]))
            d_second = first_diff(want if tree[0] is None else (None, [want]), second)
            run.count('texts_parsed_again_after_the_first_tree_was_edited')
            if d_second is not None:
                run.violation(f'parsing the same text again, after the first parsed tree was edited, gives another tree: {d_second}', case=case, engine=engine,
                              key='parse-depends-on-earlier-parse')
        except Exception as exc:
            run.violation(f'parsing the same text a second time raised {exc!r}', case=case, engine=engine, key='parse-depends-on-earlier-parse')
    # history: the tree is edited in place after it has been serialised (every renaming / re-valuing method), then
    # serialised and parsed again - the text must describe the tree as it is NOW
    nodes = [n for n in kv.iter_tree(blocks=True)] if kv.has_children() else []
    edited = 0
    for node in rng.sample(nodes, min(len(nodes), 3)):
        new_name = rand_text(rng, 8, allow_newlines=False, hostile=0.5)
        how = rng.randrange(4)
        try:
            if how == 0:
                node.edit(name=new_name)
            elif how == 1:
                node.real_name = new_name
            elif how == 2:
                node.name = new_name
            elif not node.has_children():
                node.edit(value=rand_text(rng, 8, hostile=0.5))
            else:
                node.edit(name=new_name)
            edited += 1
            if how < 3 or node.has_children():
                if node.real_name != new_name or node.name != new_name.casefold():
                    run.violation(f'after renaming (way {how}) the node reports real_name={node.real_name!r} name={node.name!r}, not {new_name!r}',
                                  case=case, engine=engine, key='accessors-differ-from-construction')
                    return
        except Exception as exc:
            run.violation(f'editing a node of a serialised tree raised {exc!r}', case=case, engine=engine, key='edit-raises')
            return
    if edited:
        now = snapshot(kv)
        try:
            text2 = kv.serialise()
            back = snapshot(Keyvalues.parse(text2))
        except Exception as exc:
            run.violation(f'serialise/parse after in-place edits raised {exc!r}', case=case, engine=engine, key='roundtrip-after-edit')
            return
        want2 = now if tree[0] is None else (None, [now])
        d2 = first_diff(want2, back)
        run.count('roundtrips_after_edit')
        if d2 is not None:
            run.violation(f'after in-place edits of an already serialised tree the text does not describe the tree: {d2}',
                          witness={'text': text2, 'diff': d2}, case=case, engine=engine, key='roundtrip-after-edit')
    blk, esc = stats(tree)
    if has_block_with_escape(tree):
        run.count('trees_with_escape_char_in_block_name')
    run.case(tree, blk and esc, sample={'tree': tree, 'text': texts[0][1]} if (isinstance(case_id, int) and case_id < 2) else None, tag=engine)


def main(run, shard=(0, 1)) -> None:
    import srctools.keyvalues as kvm
    import srctools.tokenizer as tk
    probe = ReachProbe({
        'Keyvalues._serialise': (kvm, 'Keyvalues._serialise'),
        'Keyvalues.parse': (kvm, 'Keyvalues.parse'),
        'Tokenizer._handle_string': (tk, 'Tokenizer._handle_string'),
        'escape_text': (tk, 'escape_text'),
    })
    probe.start()
    n = 500000 if run.tier == "thorough" else 2500
    for i in range(n):
        if not mine(i, shard):
            continue
        rng = sub_rng(run.seed, 'tree', i)
        tree = gen_tree(rng, rng.randint(1, 5), root=rng.random() < 0.6)
        check_tree(run, rng, tree, 'tree', i)
    # a few fixed hostile shapes every run
    fixed = [
        ('a"b\\c', [('k', 'v')]),
        (None, [('blk{', []), ('blk}', [('x', '1')]), ('', ''), ('', [])]),
        ('tail\\', [('tail\\', 'tail\\')]),
        (None, [('[flag]', [('[x]', '[y]')]), ('//c', '/*c*/')]),
    ]
    # unusual sizes: thousands of siblings, a very long name and value, deep nesting
    deep: Any = ('leaf', 'v')
    for d in range(150):
        deep = (f'lvl{d}', [deep, (f'sib{d}', str(d))])
    fixed += [
        (None, [(f'k{n % 7}', f'v{n}') for n in range(4000)]),
        ('wide', [(f'Blk{n}', [('x', 'y')] if n % 3 else []) for n in range(1500)]),
        (None, [('n' * 30000 + '"\\', 'v' * 100000 + '\n"{'), ('after', 'long')]),
        deep,
    ]
    for j, tree in enumerate(fixed):
        if mine(j, shard):
            check_tree(run, sub_rng(run.seed, 'fixed', j), tree, 'fixed', f'fixed{j}')
    probe.report(run)
    probe.check_reached(run)
    run.require('serialise_calls', 'parse_calls', 'real_file_deliveries', 'roundtrips_after_edit', 'trees_with_escape_char_in_block_name',
                'trees_with_one_object_in_two_places', 'prebuilt_tokenizer_deliveries', 'serialise_into_sinks', 'parses_after_an_abandoned_tokenizer', 'deliveries_with_translated_line_ends', 'texts_parsed_again_after_the_first_tree_was_edited')


def replay(run, data) -> None:
    case = data['case']

    def tup(t):
        return (t[0], t[1] if isinstance(t[1], str) else [tup(c) for c in t[1]])
    tree = tup(case['tree'])
    for k in range(6):
        check_tree(run, sub_rng(run.seed, 'replay', k), tree, 'replay', k, share=bool(case.get('share')))
    run.case('pad', True)


# (kept at the end of the file so that the text above stays the description the check was first built to)
RULE += ' ' + 'Later additions: equal sub-descriptions become ONE shared object in a third of the trees; parse deliveries also through a pre-built Tokenizer with a file name (str / path object); serialise(file) into StringIO / a list-subclass collector (falsy while empty) / a real text file / an object with write() only; the reference is compared with the description the tree was built from, and renamed nodes must report the new name. File objects that the caller has already read a first part of (readline / read / seek): parsing starts where the file object stands.'
