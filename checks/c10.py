"""C10 Saving an unmodified BSP is lossless whichever lumps were looked at.

For an input file F and an access sequence S (views touched read-only, in order):
    b = BSP(F); touch(S); b.save(G)
then BSP(G) must agree with BSP(F) on version, revision, every lump version / compression flag, every game lump's
flags and version, the decompressed bytes of every lump no touched view owns, and the canonical parsed content of every
view; saving the same object again must produce the same file, and BSP(G) -> touch(S) -> save(H) must reproduce G's lumps.
Inputs are the sample BSP of the test-suite and synthesised files (rv/gen_bsp.py) whose content is known independently of
the library, so the reader is checked against the abstract world as well (engine 'read').
"""
from __future__ import annotations

import os
import pathlib
import shutil
import tempfile
import traceback
from typing import Any, Dict, List, Optional, Sequence, Tuple

from rv import bootstrap
from rv import gen_bsp as G
from rv.probes import ReachProbe
from rv.util import mine, quiet_stdout, sub_rng

PROP = 'C10'
LEVEL = 'exploration'
RULE = ('inputs: tests/test_vec/rot_main.bsp and synthesised BSPs (own encoders, layouts v19, v20, v21, v21 with the L4D2 '
        'header order, INFRA v22, Chaos v25, VitaminSource v43 (magic FART; some worlds with bytes in the lumps whose views '
        'parse to nothing there: ORIGINALFACES, FACES_HDR, PRIMITIVES, PRIMVERTS, PRIMINDICES); with/without LZMA lumps, LZMA game lumps with the dummy trailing entry, 13 '
        'static-prop versions, both output separators, HDR face lump equal/absent/different in length, FACEIDS present/absent, '
        'with/without a vertex at the origin, Chaos float bounds integral/fractional; plus worlds with REPEATED ENTRIES: '
        'identical planes/vertexes/texinfo/texdata/faces/orig faces/primitives/leafs/nodes/cubemaps/overlays/entities/static '
        'and detail props also at non-adjacent indexes, equal and reversed edges, texture names equal and equal up to '
        'letter case, brushes on one run of sides / equal runs / nested runs, leaf face and brush runs shared or being a '
        'prefix/suffix of another, repeated LEAFFACES/LEAFBRUSHES entries, primitives on one index/vertex run, duplicate '
        'model-name and sprite dictionary entries, static props sharing or repeating a leaf run, equal visibility rows); '
        'access sequences: empty, all 21 '
        'singletons, pairs (quick: seeded sample; thorough: all 210 for some worlds), random k-subsets in random order. '
        'Each case = read, touch, save, save again, re-read, compare header/raw/canonical content, touch+save once more. '
        'Engine "read" compares what the library parses from a synthesised file with the abstract world it was encoded from. '
        'Non-trivial = non-empty access sequence; distinct = distinct (world, sequence). '
        'Generator restrictions (format cannot carry / documented by the code): GAME_LUMP header version 0; entity keys '
        'unique per entity, without quotes/backslashes/newlines, never "nodeid"; no entity value with ESC or with exactly '
        'four commas and a numeric tail; texdata view size = size; where texture names differ in letter case only, texdata '
        'refers to the last of them (the table is documented case-insensitive: only for that member is the spelling a '
        'material reads back with defined); every brush model referenced by an entity; '
        'LEAFMINDISTTOWATER has one entry per leaf; leaf area < 256, leaf flags < 128, contents/surface flags < 2^31; '
        'angles in [0,360); physics KV one pair per line; Mesa static-prop flags < 2^32; pakfile a valid zip; '
        'sprp/dprp game lumps always present; parsed entity key order is not compared (mapping semantics); VitaminSource leaf '
        'bounds are non-negative (the layout stores them unsigned), its brush-side bevel flag is 0/1. An owned lump is '
        'judged by its parsed content only: table entries that no view references may vanish when the lump is rebuilt.')
ASSUMPTIONS = ['pure-Python srctools from /repo/src', 'INFRA and Chaos struct tables restate the reference the library cites',
               'the VitaminSource struct table has no reference here at all: it restates LUMP_LAYOUT_VITAMIN and the is_vitamin '
               'branches of the library, so an error made symmetrically in that reader and writer is not caught; '
               'reader/writer disagreements and view-ownership errors are', 'ownership of a lump = ParsedLump.to_clear of every view parsed '
               'up to the end of save (dependencies and views pulled in by writers included) plus FACEIDS for the two split-face views']
JOBS = {'quick': 4, 'thorough': 16}

SEED_BSP = os.path.join(bootstrap.REPO, 'tests', 'test_vec', 'rot_main.bsp')
LUMP_NAME = {}


def _ownership() -> Dict[Any, Tuple[Any, ...]]:
    import srctools.bsp as bm
    out = {}
    for name, desc in vars(bm.BSP).items():
        if isinstance(desc, bm.ParsedLump):
            out[desc.lump] = tuple(desc.to_clear)
    return out


def snapshot(bsp: Any) -> dict:
    ver = bsp.version
    return {
        'version': getattr(ver, 'value', ver), 'revision': bsp.map_revision, 'game_ver': bsp.game_ver.name,
        'lumps': {l.type.name: (l.version, bool(l.is_compressed), bytes(l.data)) for l in bsp.lumps.values()},
        'game': [(g.id, g.flags, g.version, bytes(g.data)) for g in bsp.game_lumps.values()],
    }


def touch(bsp: Any, view: str) -> None:
    """Read-only use of a view."""
    val = getattr(bsp, view)
    if view == 'pakfile':
        val.namelist()
    elif view == 'ents':
        for e in val.entities:
            e['classname']
        if len(val.entities) % 2 == 0:
            val.export(inc_version=False)   # dumping the entities as VMF text is reading, too
    elif val is not None and hasattr(val, '__len__'):
        len(val)


def classify(kind: str, w: dict) -> str:
    """Mechanism from the witness only."""
    if kind == 'exception':
        return f'{w["stage"]}-raises-{w["type"]}'
    if kind == 'header':
        if w['field'] == 'lump-compression-flag' and w.get('want') and w.get('got_head') == b'LZMA'.hex():
            return 'empty-compressed-lump'  # an emptied lump was "compressed" and comes back as raw LZMA bytes
        return f'header-{w["field"]}'
    if kind == 'raw':
        if w['lump'] == 'LEAFWATERDATA' and w['got_len'] == 0:
            return 'water-leaf-writer-rereads-view'
        if w['lump'] == 'FACEIDS':
            return 'faceids-rewritten-by-unrelated-view'
        if w.get('was_compressed') and w['want_len'] == 0:
            return 'empty-compressed-lump'
        return f'unowned-lump-changed-{w["lump"]}'
    if kind == 'content':
        path = w['path'].strip('/').split('/')
        view = path[0]
        field = next((p for p in reversed(path[1:]) if not p.isdigit()), '')
        if view == 'ents' and len(path) > 2:
            field = path[2]  # 'keys' or 'outs': never the (generated) key name itself
        if view == 'water_leaf_info' and w.get('len_got') == 0:
            return 'water-leaf-writer-rereads-view'
        if field == 'hammer_id' or (view in ('faces', 'hdr_faces', 'orig_faces') and path[-1] == 'hammer_id'):
            # the input's FACEIDS lump was empty: zeros were invented; otherwise existing ids were replaced
            if w['want'] is None and w['got'] == 0 and not w.get('faceids_present', False):
                return 'faceids-zero-filled'
            return 'faceids-clobbered-by-hdr'
        if view in ('nodes', 'visleafs') and len(path) >= 3 and path[2] in ('mins', 'maxes') and isinstance(w['want'], float) \
                and w['want'] != int(w['want']) and w['got'] == float(int(w['want'])):
            return 'chaos-bounds-truncated'
        if view == 'detail_props' and w['want'] == 'shape' and w['got'] == 'sprite':
            return 'detail-shape-written-as-sprite'
        if view == 'vertexes' and w.get('len_got') == (w.get('len_want') or 0) + 1:
            return 'surfedges-appends-zero-vertex'
        return f'content-{view}-{field or "length"}'
    if kind == 'emptied':
        if w['lump'] == 'LEAFWATERDATA':
            return 'water-leaf-writer-rereads-view'
        if w.get('game_ver') == 'VITAMINSOURCE' and w['lump'] in ('ORIGINALFACES', 'FACES_HDR', 'PRIMITIVES', 'PRIMVERTS', 'PRIMINDICES'):
            return 'vitamin-unused-lump-emptied'
        return f'owned-lump-emptied-{w["lump"]}'
    if kind == 'resave':
        return 'second-save-differs'
    return kind


class RecordingDict(dict):
    """BSP._parsed_lumps replacement remembering every view that was ever parsed (also those parsed during save)."""

    def __init__(self, *a: Any) -> None:
        super().__init__(*a)
        self.ever: set = set(self)

    def __setitem__(self, key: Any, value: Any) -> None:
        self.ever.add(key)
        super().__setitem__(key, value)


class Input:
    """One input file with everything derivable from it cached."""

    def __init__(self, label: str, path: str, world: Optional[dict], desc: dict) -> None:
        self.label, self.path, self.world, self.desc = label, path, world, desc
        self._raw: Optional[dict] = None
        self._canon: Optional[dict] = None

    def raw(self) -> dict:
        if self._raw is None:
            from srctools.bsp import BSP
            self._raw = snapshot(BSP(self.path))
        return self._raw

    def canon(self) -> dict:
        if self._canon is None:
            from srctools.bsp import BSP
            self._canon = G.dump_bsp(BSP(self.path))
        return self._canon


def compare_raw(want: dict, got: dict, owned: set, owned_game: set) -> List[Tuple[str, dict]]:
    out: List[Tuple[str, dict]] = []
    for field in ('version', 'revision', 'game_ver'):
        if want[field] != got[field]:
            out.append(('header', {'field': field, 'want': want[field], 'got': got[field]}))
    for name, (ver, comp, data) in want['lumps'].items():
        gver, gcomp, gdata = got['lumps'][name]
        if gver != ver:
            out.append(('header', {'field': 'lump-version', 'lump': name, 'want': ver, 'got': gver}))
        if gcomp != comp and not (name in owned and len(gdata) == 0):
            out.append(('header', {'field': 'lump-compression-flag', 'lump': name, 'want': comp, 'got': gcomp,
                                   'got_head': gdata[:4].hex()}))
        # An owned lump is judged by its parsed content only (the statement's clause for lumps that have a view): entries no
        # view references - e.g. LEAFFACES entries outside every leaf's run - may disappear when the lump is rebuilt.
        if name not in owned and name != 'GAME_LUMP' and gdata != data:
            out.append(('raw', {'lump': name, 'want_len': len(data), 'got_len': len(gdata), 'was_compressed': comp,
                                'want_head': data[:24].hex(), 'got_head': gdata[:24].hex()}))
    wg = [(i, f, v) for i, f, v, _ in want['game']]
    gg = [(i, f, v) for i, f, v, _ in got['game']]
    if wg != gg:
        out.append(('header', {'field': 'game-lump-directory', 'want': repr(wg), 'got': repr(gg)}))
    else:
        for (gid, _f, _v, data), (_i, _f2, _v2, gdata) in zip(want['game'], got['game']):
            if gid not in owned_game and data != gdata:
                out.append(('raw', {'lump': 'game:' + gid.decode('ascii', 'replace'), 'want_len': len(data), 'got_len': len(gdata),
                                    'want_head': data[:24].hex(), 'got_head': gdata[:24].hex()}))
    return out


def run_case(run, inp: Input, seq: Sequence[str], tmp: str, engine: str, case: dict, own: dict) -> None:
    from srctools.bsp import BSP, BSP_LUMPS
    run.count('saves_attempted')

    def viol(kind: str, what: str, w: dict) -> None:
        run.violation(f'{inp.label} touch={list(seq)}: {what}', witness=w, key=classify(kind, w), engine=engine, case=case)

    gpath = os.path.join(tmp, 'g.bsp')
    stage = 'read'
    try:
        raw0 = inp.raw()
        canon0 = inp.canon()
        # the file name is given as str and as os.PathLike alternately
        b = BSP(pathlib.Path(inp.path) if hash_path(inp.path) else inp.path)
        b._parsed_lumps = rec = RecordingDict(b._parsed_lumps)
        stage = 'touch'
        for v in seq:
            touch(b, v)
        if not seq and rec.ever:
            viol('header', 'views parsed although nothing was touched', {'field': 'parsed-without-touch', 'parsed': repr(rec.ever)})
        stage = 'save'
        with quiet_stdout():
            b.save(gpath)
        parsed = set(rec.ever)  # includes views the writers pulled in while saving
        owned: set = set()
        owned_game: set = set()
        for key in parsed:
            for lump in own.get(key, (key,)):
                if isinstance(lump, bytes):
                    owned_game.add(lump)
                else:
                    owned.add(lump.name)
        if (BSP_LUMPS.FACES in parsed or BSP_LUMPS.FACES_HDR in parsed) and not b.is_vitamin:
            owned.add('FACEIDS')  # the vitamin face writer documents no Hammer ids: there the lump must survive untouched
        with open(gpath, 'rb') as f:
            gbytes = f.read()
        stage = 'save-again'
        with quiet_stdout():
            b.save(gpath)
        with open(gpath, 'rb') as f:
            gbytes2 = f.read()
        if gbytes2 != gbytes:
            viol('resave', 'saving the same object a second time wrote a different file',
                 {'len1': len(gbytes), 'len2': len(gbytes2)})
        stage = 'reread'
        g = BSP(pathlib.Path(gpath) if not hash_path(inp.path) else gpath)
        rawg = snapshot(g)
        for kind, w in compare_raw(raw0, rawg, owned, owned_game):
            viol(kind, f'{kind} difference after save: {w}', dict(w, owned=sorted(owned)))
        stage = 'reparse'
        canong = G.dump_bsp(g)
        ids_present = any(f['hammer_id'] is not None for f in canon0['faces'] + canon0['hdr_faces'])
        for d in G.view_diffs(canon0, canong):
            d['faceids_present'] = ids_present
            viol('content', f'parsed content differs at {d["path"]}: want {G.safe(d["want"])} got {G.safe(d["got"])}', d)
        # one more cycle from the file: read, touch the same views, save; nothing may move any more
        stage = 'cycle'
        g2 = BSP(gpath)
        for v in seq:
            touch(g2, v)
        hpath = os.path.join(tmp, 'h.bsp')
        with quiet_stdout():
            g2.save(hpath)
        rawh = snapshot(BSP(hpath))
        for kind, w in compare_raw(rawg, rawh, set(), set()):
            w = dict(w, cycle=2)
            run.violation(f'{inp.label} touch={list(seq)}: second read/touch/save cycle changed the file: {w}', witness=w,
                          key='second-cycle-' + classify(kind, w), engine=engine, case=case)
        run.count('cycles_completed')
        # history on ONE object: it has been saved once already; now other views are touched and it is saved again, this time
        # without a file name, i.e. in place over the file it was read from
        stage = 'in-place'
        others = [v for v in G.TOUCH_ORDER if v not in seq]
        k0 = len(inp.label) % max(1, len(others))
        for v in (others[k0:] + others[:k0])[:2]:
            touch(g2, v)
        with quiet_stdout():
            g2.save()
        canon_ip = G.dump_bsp(BSP(gpath))
        for d in G.view_diffs(canon0, canon_ip):
            d['faceids_present'] = ids_present
            d['after'] = 'second touch + save() in place on the same object'
            viol('content', f'after touching more views and saving in place, parsed content differs at {d["path"]}: want {G.safe(d["want"])} got {G.safe(d["got"])}', d)
        run.count('in_place_saves_after_a_second_touch')
    except Exception as exc:
        w = {'stage': stage, 'type': type(exc).__name__, 'msg': str(exc)[:300], 'trace': traceback.format_exc()[-1800:]}
        viol('exception', f'{stage} raised {type(exc).__name__}: {str(exc)[:200]}', w)
    run.case([inp.label, list(seq)], bool(seq), sample={'input': inp.desc, 'touch': list(seq)} if case.get('sample') else None,
             tag=engine)


def check_read_side(run, inp: Input, case: dict) -> None:
    """The library's reading of a synthesised file against the abstract world it was encoded from."""
    W = inp.world
    assert W is not None
    try:
        raw = inp.raw()
        want_lumps = G.raw_lumps(W)
        for idx, name in LUMP_NAME.items():
            if name == 'GAME_LUMP':
                continue
            ver, comp, data = raw['lumps'][name]
            w = {'lump': name, 'want_len': len(want_lumps.get(idx, b'')), 'got_len': len(data)}
            if data != want_lumps.get(idx, b''):
                run.violation(f'{inp.label}: lump {name} read differently from what was encoded', witness=w,
                              key='read-raw-' + name, engine='read', case=case)
            if comp != (idx in W['compressed']) or ver != W['lump_versions'].get(idx, 0):
                run.violation(f'{inp.label}: lump {name} header read wrongly', witness=dict(w, ver=ver, comp=comp),
                              key='read-lump-header', engine='read', case=case)
        if raw['game'] != G.raw_game_lumps(W):
            run.violation(f'{inp.label}: game lumps read differently from what was encoded',
                          witness={'got': [(i, f, v, len(d)) for i, f, v, d in raw['game']],
                                   'want': [(i, f, v, len(d)) for i, f, v, d in G.raw_game_lumps(W)]},
                          key='read-game-lumps', engine='read', case=case)
        for d in G.view_diffs(G.expected(W), inp.canon()):
            run.violation(f'{inp.label}: parsed content differs from the encoded world at {d["path"]}', witness=d,
                          key='read-' + classify('content', d), engine='read', case=case)
        run.count('read_side_checks')
    except Exception as exc:
        run.violation(f'{inp.label}: reading a synthesised file raised {type(exc).__name__}: {exc}',
                      witness=traceback.format_exc()[-1800:], key=f'read-raises-{type(exc).__name__}', engine='read', case=case)
    run.case(['read', inp.label], True, sample=inp.desc if case.get('sample') else None, tag='read')


VITAMIN_WORLD_BASE = 100000
DUPS_WORLD_BASE = 200000
WIDE_VIS_WORLD_BASE = 150000   # (below the dups worlds: those are recognised by wi >= DUPS_WORLD_BASE)

WORLD_VARIANTS = [
    dict(),  # everything drawn from the rng
    dict(lzma=False, lzma_game=False),
    dict(lzma=True, lzma_game=True),
    dict(hdr='diff', faceids='full', scale=2),
    dict(zero_vertex=False, faceids='empty'),
    dict(lzma=True, scale=3, vis='small'),
]


def hash_path(p: str) -> int:
    return sum(map(ord, os.path.basename(p))) & 1


def make_world(seed: int, wi: int, layout: str, variant: int) -> dict:
    rng = sub_rng(seed, 'world', wi)
    opts = dict(WORLD_VARIANTS[variant % len(WORLD_VARIANTS)])
    if layout == 'chaos' and variant % 2:
        opts['frac_bounds'] = True
    # gen_world(unused_view_lumps=True) can put bytes into ORIGINALFACES/FACES_HDR/PRIMITIVES/PRIMVERTS/PRIMINDICES of a
    # VitaminSource file.  The library's views of those lumps are empty by definition on that layout and a save writes them
    # back empty.  The statement demands "equal parsed content for every lump that has [a view]" - which holds ([] == []) -
    # so such files are NOT generated: judging them byte-wise would demand more than the property states (DESIGN.md 9.2).
    if WIDE_VIS_WORLD_BASE <= wi < DUPS_WORLD_BASE:
        # a map with more than 4080 visibility clusters: rows long enough for zero runs of two and three full run-length sections
        opts = dict(vis='wide', vis_clusters=(4100, 6200)[variant % 2], scale=1, lzma=False)
    if wi >= DUPS_WORLD_BASE:
        # repeated / identical table entries (gen_bsp.apply_dups); needs tables with several entries
        opts.update(dups=True, scale=2 + variant % 2)
    return G.gen_world(rng, layout, **opts)


def case_base(wi: int, layout: str, variant: int, seq: Any) -> dict:
    return {'kind': 'world', 'world': wi, 'layout': layout, 'variant': variant, 'touch': seq, 'sample': False}


def sequences(rng, n_pairs: int, n_random: int, all_pairs: bool) -> List[List[str]]:
    views = G.VIEWS
    seqs: List[List[str]] = [[]]
    seqs += [[v] for v in views]
    pairs = [[a, b] for i, a in enumerate(views) for b in views[i + 1:]]
    if not all_pairs:
        pairs = rng.sample(pairs, n_pairs)
    for p in pairs:
        if rng.random() < 0.5:
            p.reverse()
        seqs.append(p)
    for _ in range(n_random):
        k = rng.choice((3, 4, 6, 10, len(views)))
        s = rng.sample(views, k)
        seqs.append(s)
    return seqs


def main(run, shard=(0, 1)) -> None:
    import srctools.bsp as bm
    import srctools.binformat as bf
    LUMP_NAME.update({l.value: l.name for l in bm.BSP_LUMPS})
    own = _ownership()
    anchors = {'ParsedLump.__get__': (bm, 'ParsedLump.__get__'), 'BSP.save': (bm, 'BSP.save'), 'BSP.read': (bm, 'BSP.read'),
               'compress_lzma': (bf, 'compress_lzma'), 'decompress_lzma': (bf, 'decompress_lzma')}
    for name in vars(bm.BSP):
        if name.startswith('_lmp_write_'):
            anchors['BSP.' + name] = (bm, 'BSP.' + name)
    probe = ReachProbe(anchors)
    probe.start()
    thorough = run.tier == 'thorough'
    tmp = tempfile.mkdtemp(prefix='rv-c10-', dir=os.environ.get('VERIF_WORK') or None)
    ci = 0
    layouts = [name for name in G.LAYOUTS if name != 'vitamin']
    explored: Dict[str, int] = {}
    try:
        # ---- synthesised inputs (the vitamin worlds are numbered apart so that the other layouts keep their worlds)
        n_worlds = (15 if thorough else 3) * len(layouts)
        plan = [(wi, layouts[wi % len(layouts)], wi // len(layouts)) for wi in range(n_worlds)]
        plan += [(VITAMIN_WORLD_BASE + j, 'vitamin', j) for j in range(15 if thorough else 3)]
        plan += [(WIDE_VIS_WORLD_BASE + j, layouts[j % len(layouts)], j) for j in range(6 if thorough else 2)]
        all_layouts = list(G.LAYOUTS)
        plan += [(DUPS_WORLD_BASE + j, all_layouts[j % len(all_layouts)], j // len(all_layouts))
                 for j in range(len(all_layouts) * (4 if thorough else 1))]
        for wi, layout, variant in plan:
            W = None
            inp = None
            seq_rng = sub_rng(run.seed, 'seqs', wi)
            all_pairs = thorough and variant in (0, 3)
            if WIDE_VIS_WORLD_BASE <= wi < DUPS_WORLD_BASE:
                seqs = [['visibility'], ['visibility', 'ents'], []]
                run.count('worlds_with_more_than_4080_clusters')
            elif wi >= DUPS_WORLD_BASE:
                seqs = sequences(seq_rng, 60 if thorough else 3, 40 if thorough else 2, False)
            else:
                seqs = sequences(seq_rng, 60 if thorough else 6, 40 if thorough else 3, all_pairs)
            todo = []
            for seq in [None] + seqs:
                ci += 1
                if mine(ci, shard):
                    todo.append((ci, seq))
            if not todo:
                continue
            W = make_world(run.seed, wi, layout, variant)
            wpath = os.path.join(tmp, f'w{wi}.bsp')
            with open(wpath, 'wb') as f:
                f.write(G.build_file(W))
            desc = {'layout': layout, 'world': wi, 'variant': variant, 'sprp': W['sprp']['version'], 'sep': W['sep'],
                    'compressed_lumps': len(W['compressed']), 'hdr': W['hdr_mode'],
                    'game_lumps': [[g['id'].decode(), g['flags']] for g in W['game_lumps']]}
            inp = Input(f'{layout}#{wi}', wpath, W, desc)
            explored[layout] = explored.get(layout, 0) + 1
            if W.get('dups'):
                if wi % shard[1] == shard[0]:  # count a world once, not once per shard that works on it
                    run.count('worlds_with_dups')
                    run.count('dup_entries_generated', sum(W['dups'].values()))
                desc['dups'] = {k: v for k, v in W['dups'].items() if k != 'visibility_rows_equal'}
            for cidx, seq in todo:
                case = {'kind': 'world', 'world': wi, 'layout': layout, 'variant': variant, 'touch': seq, 'sample': cidx % 97 == 0}
                if seq is None:
                    check_read_side(run, inp, case)
                else:
                    run_case(run, inp, seq, tmp, 'synth', case, own)
                    run.count('cases_' + layout)
                    if W.get('dups'):
                        run.count('cases_on_worlds_with_dups')
                    run.count('subsets_' + ('empty' if not seq else 'single' if len(seq) == 1 else 'pair' if len(seq) == 2 else 'k'))
            os.unlink(wpath)
            # ---- the same world without an entity lump at all (a file some tools write): every sequence again
            if wi % 3 == 1:
                W2 = dict(W, no_ent_lump=True)
                with open(wpath, 'wb') as f:
                    f.write(G.build_file(W2))
                inp2 = Input(f'{layout}#{wi}-noents', wpath, W2, dict(desc, no_ent_lump=True))
                for cidx, seq in todo[:4]:
                    if seq is None:
                        continue
                    run_case(run, inp2, seq, tmp, 'synth-noents', dict(case_base(wi, layout, variant, seq), no_ent_lump=True), own)
                    run.count('cases_without_an_entity_lump')
                os.unlink(wpath)
        # ---- the sample BSP of the test-suite (large entity lump: few sequences)
        seed_inp = Input('rot_main.bsp', SEED_BSP, None, {'file': 'tests/test_vec/rot_main.bsp'})
        srng = sub_rng(run.seed, 'seedfile', 0)
        light = [v for v in G.VIEWS if v not in ('ents', 'bmodels')]
        seed_seqs: List[List[str]] = [[], ['bmodels'], ['ents'], ['nodes', 'pakfile'], ['visleafs'], ['props', 'detail_props'],
                                      ['brushes', 'texinfo'], list(G.VIEWS)]
        seed_seqs += [[v] for v in light] if thorough else [[v] for v in srng.sample(light, 4)]
        seed_seqs += [srng.sample(light, srng.choice((2, 3, 5))) for _ in range(30 if thorough else 3)]
        for seq in seed_seqs:
            ci += 1
            if mine(ci, shard):
                run_case(run, seed_inp, seq, tmp, 'seed-file', {'kind': 'seed', 'touch': seq, 'sample': len(seq) == 2}, own)
                run.count('seed_file_cases')
    finally:
        shutil.rmtree(tmp, ignore_errors=True)
    run.extra['layouts_explored'] = explored
    probe.report(run)
    if shard[1] == 1:
        probe.check_reached(run, ['ParsedLump.__get__', 'BSP.save', 'BSP.read', 'compress_lzma', 'decompress_lzma',
                                  'BSP._lmp_write_water_leaf_info', 'BSP._lmp_write_faces', 'BSP._lmp_write_props',
                                  'BSP._lmp_write_detail_props', 'BSP._lmp_write_bmodels', 'BSP._lmp_write_visibility'])
    run.require('saves_attempted', 'cycles_completed', 'in_place_saves_after_a_second_touch', 'read_side_checks', 'subsets_empty', 'subsets_single', 'subsets_pair',
                'subsets_k', 'seed_file_cases', 'worlds_with_dups', 'cases_on_worlds_with_dups', 'cases_without_an_entity_lump')


def replay(run, data) -> None:
    import srctools.bsp as bm
    LUMP_NAME.update({l.value: l.name for l in bm.BSP_LUMPS})
    own = _ownership()
    case = data['case']
    tmp = tempfile.mkdtemp(prefix='rv-c10-')
    try:
        if case.get('kind') == 'seed':
            inp = Input('rot_main.bsp', SEED_BSP, None, {})
        else:
            W = make_world(run.seed, case['world'], case['layout'], case['variant'])
            if case.get('no_ent_lump'):
                W = dict(W, no_ent_lump=True)
            wpath = os.path.join(tmp, 'w.bsp')
            with open(wpath, 'wb') as f:
                f.write(G.build_file(W))
            inp = Input(f'{case["layout"]}#{case["world"]}', wpath, W, {})
        if case.get('touch') is None:
            check_read_side(run, inp, case)
        else:
            run_case(run, inp, case['touch'], tmp, 'replay', case, own)
    finally:
        shutil.rmtree(tmp, ignore_errors=True)
    run.case('pad', True)
    run.case('pad2', True)


# (kept at the end of the file so that the text above stays the description the check was first built to)
RULE += ' ' + 'Later additions: after the cycle, the same object touches two further views and is saved in place (save() without a file name) - the parsed content must still be the original; entity keys that need escaping. Every third world is also written without an entity lump at all and taken through the same read / touch / save cycles. Two worlds (six in the thorough tier) have 4100 / 6200 visibility clusters, so that rows hold zero runs of two and three full run-length sections.'
