"""C09 Copies of map objects are complete and independent of their source.

Oracle: export-text snapshots.  (1) export(copy) == export(original) with ID lines blanked; (2) after mutating every
mutable thing reachable from one side (found by a generic object walker: Vecs, axes, vertices, arrays, lists, sets,
keyvalues, fixups, outputs), the other side's export text is unchanged; both directions; within and across maps.
(3) operators documented as producing a new value leave their operands unchanged.
"""
from __future__ import annotations

import array
import io
import re
import traceback
import warnings
from typing import Any, Callable, Dict, List, Optional, Tuple

from rv.util import mine, sub_rng, rand_text
from rv.probes import ReachProbe
from rv import gen_vmf

PROP = 'C09'
LEVEL = 'exploration'
RULE = ('objects from the C06 generator (entities with keys/outputs/fixups, brush entities, brushes and faces incl. '
        'displacements with allowed-verts, multiblend and Strata point data, outputs, visgroup trees, cameras, cordons, '
        'groups) and random Keyvalues trees; each is copied within its map and into a second map. Laws: '
        'export(copy) == export(original) apart from id lines; after mutating every mutable reachable from one side '
        '(in-place arithmetic on every Vec, axis offsets, vertex fields, allowed-vert arrays, key edits, fixup edits, '
        'output edits, translate/localise, list/set insertions) the other side exports exactly as before, in both '
        'directions; Keyvalues +, Vec/Angle/Matrix arithmetic leave their operands unchanged. '
        'Non-trivial = at least one mutation was applied after the copy; distinct = distinct object export text.')
ASSUMPTIONS = ['"exports exactly like the original apart from freshly assigned IDs": lines "id"/"visgroupid" are blanked before comparing',
               'VisGroup.copy across maps and group copies compare all fields except IDs']
JOBS = {'quick': 2, 'thorough': 16}

ID_LINE = re.compile(r'"(id|visgroupid|nodeid)" "\d+"')


def blank(text: str) -> str:
    return ID_LINE.sub(r'"\1" "#"', text)


def export_of(obj) -> str:
    from srctools.vmf import Entity, Solid, Side, Output, VisGroup, Camera, Cordon, EntityGroup
    from srctools.keyvalues import Keyvalues
    buf = io.StringIO()
    if isinstance(obj, Output):
        return obj.as_keyvalue()
    if isinstance(obj, Keyvalues):
        return obj.serialise()
    if isinstance(obj, EntityGroup):
        obj.export(buf, '')
        return buf.getvalue()
    obj.export(buf)
    return buf.getvalue()


def reachable(obj, skip_types: tuple) -> List[Any]:
    """All objects reachable through slots/attrs/dicts/lists/sets, without following references to the VMF."""
    seen: Dict[int, Any] = {}
    out: List[Any] = []
    stack = [obj]
    while stack:
        o = stack.pop()
        if id(o) in seen or isinstance(o, skip_types) or isinstance(o, (str, int, float, bool, type(None), bytes)):
            continue
        seen[id(o)] = o
        out.append(o)
        if isinstance(o, dict):
            stack.extend(o.values())
            continue
        if isinstance(o, (list, tuple, set, frozenset)):
            stack.extend(o)
            continue
        if isinstance(o, array.array):
            continue
        names: List[str] = []
        for cls in type(o).__mro__:
            sl = cls.__dict__.get('__slots__', ())
            names.extend([sl] if isinstance(sl, str) else sl)
        names.extend(getattr(o, '__dict__', {}).keys())
        for n in names:
            try:
                stack.append(getattr(o, n))
            except AttributeError:
                pass
    return out


def mutate_everything(obj, rng) -> int:
    """Mutate, in place, every mutable thing reachable from obj.  Returns the number of mutations applied."""
    from srctools.vmf import VMF, Entity, Solid, Side, Output, VisGroup, UVAxis, DispVertex, FixupValue, EntityFixup, Camera, Cordon, EntityGroup, Vec4
    from srctools.math import Vec, Angle, Matrix
    from srctools.keyvalues import Keyvalues
    n = 0
    objs = reachable(obj, (VMF,))
    for o in objs:
        if isinstance(o, Vec):
            o += (1.5, -2.25, 0.125)
            n += 1
        elif isinstance(o, UVAxis):
            o.offset += 3.0
            o.x += 0.5
            n += 1
        elif isinstance(o, DispVertex):
            o.alpha += 1.0
            o.distance += 2.0
            o.multi_blend = Vec4(o.multi_blend.x + 0.5, o.multi_blend.y, o.multi_blend.z, o.multi_blend.w)
            if o.multi_colors is not None:
                o.multi_colors[0] = Vec(0.25, 0.5, 0.75)
            n += 1
        elif isinstance(o, array.array) and len(o):
            o[0] = (o[0] ^ 5) if -2 ** 31 <= (o[0] ^ 5) < 2 ** 31 else 0
            n += 1
        elif isinstance(o, Output):
            o.target += '_changed'
            o.delay += 1.0
            o.params = 'p'
            n += 1
        elif isinstance(o, Keyvalues):
            if o.has_children():
                o.append(Keyvalues('added', 'x'))
            else:
                o.value = o.value + '!'
            if o.real_name is not None:
                o.name = (o.real_name or '') + '_n'
            n += 1
    # structural edits through the public API of the top-level object
    if isinstance(obj, Entity):
        obj['brand_new_key'] = 'v'
        obj['classname'] = obj['classname'] + '_x'
        for var in list(obj.fixup):
            obj.fixup[var] = 'changed'
        obj.fixup['brand_new_var'] = '1'
        obj.outputs.append(Output('OnX', 't', 'In'))
        obj.visgroup_ids.add(4242)
        obj.groups.add(4343)
        obj.comments += ' c'
        obj.hidden = not obj.hidden
        for s in obj.solids:
            s.translate((8, 0, 0))
        n += 6
    elif isinstance(obj, Solid):
        obj.translate((8, 16, 0))
        obj.localise((1, 2, 3), Angle(0, 90, 0))
        obj.visgroup_ids.add(777)
        obj.vis_shown = not obj.vis_shown
        if obj.sides:
            obj.sides[0].mat = 'changed/mat'
        n += 4
    elif isinstance(obj, Side):
        obj.translate((8, 16, 0))
        obj.localise((1, 2, 3), Angle(0, 90, 0))
        obj.mat = 'changed/mat'
        obj.lightmap += 1
        if obj.strata_points is not None:
            obj.strata_points.append(Vec(1, 2, 3))
        n += 4
    elif isinstance(obj, VisGroup):
        obj.name += '_x'
        obj.child_groups.append(VisGroup(obj.vmf, 'extra'))
        n += 2
    elif isinstance(obj, (Camera, Cordon, EntityGroup)):
        n += 0
    return n


def ids_of(obj) -> Dict[str, set]:
    """The IDs an object and everything below it carry, by kind."""
    from srctools.vmf import Entity, Solid, Side, VisGroup, EntityGroup
    out: Dict[str, set] = {}
    if isinstance(obj, Entity):
        out['entity'] = {obj.id}
        out['solid'] = {s.id for s in obj.solids}
        out['face'] = {f.id for s in obj.solids for f in s.sides}
    elif isinstance(obj, Solid):
        out['solid'] = {obj.id}
        out['face'] = {f.id for f in obj.sides}
    elif isinstance(obj, Side):
        out['face'] = {obj.id}
    elif isinstance(obj, VisGroup):
        out['visgroup'] = {g.id for g in _vis_walk(obj)}
    elif isinstance(obj, EntityGroup):
        out['group'] = {obj.id}
    return out


def owner_of(obj) -> Any:
    return getattr(obj, 'map', None) or getattr(obj, 'vmf', None)


def check_fresh_ids(run, orig, cp, label: str, engine: str, case: Any) -> None:
    """A copy that lives in the same map as its source has IDs of its own ("freshly assigned"), whatever ID policy the map uses."""
    if owner_of(orig) is None or owner_of(cp) is not owner_of(orig):
        return
    a, b = ids_of(orig), ids_of(cp)
    for kind in a:
        shared = a[kind] & b.get(kind, set())
        run.count('same_map_copies_checked_for_fresh_ids')
        if shared:
            run.violation(f'{label}: the copy shares the {kind} ID(s) {sorted(shared)[:5]} with its source, both in the same map',
                          witness={'source_ids': {k: sorted(v)[:12] for k, v in a.items()}, 'copy_ids': {k: sorted(v)[:12] for k, v in b.items()},
                                   'preserve_ids_map': bool(case.get('preserve_ids')) if isinstance(case, dict) else None},
                          case=case, engine=engine, key=f'copy-keeps-source-id:{kind}')
            return


def check_copy(run, rng, orig, make_copy: Callable[[], Any], label: str, engine: str, case: Any, complete: bool = True) -> int:
    """Completeness (unless the copy is documented to leave something out) + independence for one object and one way of copying it."""
    ex0 = export_of(orig)
    try:
        cp = make_copy()
    except Exception as exc:
        run.violation(f'{label}: copy raised {exc!r}', witness=traceback.format_exc()[-900:], case=case, engine=engine, key=f'copy-raises:{label}')
        return 0
    run.count('copies')
    check_fresh_ids(run, orig, cp, label, engine, case)
    ex_c = export_of(cp)
    if export_of(orig) != ex0:
        run.violation(f'{label}: copying changed the original', case=case, engine=engine, key=f'copy-mutates-source:{label}')
        return 0
    if complete and blank(ex_c) != blank(ex0):
        l1, l2 = blank(ex0).splitlines(), blank(ex_c).splitlines()
        k = next((i for i, (x, y) in enumerate(zip(l1, l2)) if x != y), min(len(l1), len(l2)))
        field = (l1[k] if k < len(l1) else l2[k] if k < len(l2) else '').strip().split('"')
        fname = field[1] if len(field) > 1 else (field[0] if field else '?')
        # name the block the first difference is in (e.g. allowed_verts, multiblend)
        block = next((l1[j].strip() for j in range(min(k, len(l1) - 1), -1, -1) if l1[j].strip() and '"' not in l1[j] and l1[j].strip() not in '{}'), '?')
        run.violation(f'{label}: the copy does not export like the original (first difference at line {k + 1}, block {block})',
                      witness={'original': l1[max(0, k - 2):k + 2], 'copy': l2[max(0, k - 2):k + 2]}, case=case, engine=engine,
                      key=f'copy-incomplete:{label}:{block if block != "?" else fname}')
    # independence, direction 1: mutate the copy, the original must not move
    n = mutate_everything(cp, rng)
    if export_of(orig) != ex0:
        a, b = ex0.splitlines(), export_of(orig).splitlines()
        k = next((i for i, (x, y) in enumerate(zip(a, b)) if x != y), min(len(a), len(b)))
        run.violation(f'{label}: mutating the copy changed the original (line {k + 1}: {a[k].strip() if k < len(a) else ""!r} -> {b[k].strip() if k < len(b) else ""!r})',
                      witness={'before': a[max(0, k - 2):k + 2], 'after': b[max(0, k - 2):k + 2]}, case=case, engine=engine,
                      key=f'copy-aliases:{label}:{_field_of(a, k)}')
    # direction 2: fresh copy, mutate the original
    try:
        cp2 = make_copy()
    except Exception:
        return n
    ex_c2 = export_of(cp2)
    n += mutate_everything(orig, rng)
    if export_of(cp2) != ex_c2:
        a, b = ex_c2.splitlines(), export_of(cp2).splitlines()
        k = next((i for i, (x, y) in enumerate(zip(a, b)) if x != y), min(len(a), len(b)))
        run.violation(f'{label}: mutating the original changed the copy (line {k + 1}: {a[k].strip() if k < len(a) else ""!r} -> {b[k].strip() if k < len(b) else ""!r})',
                      witness={'before': a[max(0, k - 2):k + 2], 'after': b[max(0, k - 2):k + 2]}, case=case, engine=engine,
                      key=f'copy-aliases:{label}:{_field_of(a, k)}')
    return n


def _vis_walk(group) -> List[Any]:
    out = [group]
    for child in group.child_groups:
        out.extend(_vis_walk(child))
    return out


def visgroup_tree_ownership(run, group, vmf, other, engine: str, case: Any) -> None:
    """A visgroup tree copied within its map and into another one: every group of the copy (children included) belongs to
    the map the copy was made for, has an ID that is reserved there and collides with nothing, the source map's ID set does
    not change, and the mapping names every group of the tree."""
    src_nodes = _vis_walk(group)
    for dest, label in ((None, 'VisGroup.copy()'), (other, 'VisGroup.copy(other map)')):
        target = vmf if dest is None else other
        src_ids_before = set(vmf.vis_id)
        taken = {g.id for top in target.vis_tree for g in _vis_walk(top)}
        mapping: Dict[int, int] = {}
        try:
            cp = group.copy(dest, mapping)
        except Exception as exc:
            run.violation(f'{label} raised {type(exc).__name__}: {exc}', case=case, engine=engine, key='visgroup-copy-raises')
            return
        nodes = _vis_walk(cp)
        run.count('visgroup_trees_copied_for_ownership')
        if len(src_nodes) > 1:
            run.count('nested_visgroup_trees_copied')
        if len(nodes) != len(src_nodes) or [g.name for g in nodes] != [g.name for g in src_nodes]:
            run.violation(f'{label}: the copy has groups {[g.name for g in nodes]}, the source {[g.name for g in src_nodes]}',
                          case=case, engine=engine, key='visgroup-copy-shape')
            return
        wrong = [g.name for g in nodes if g.vmf is not target]
        if wrong:
            run.violation(f'{label}: groups {wrong} of the copy do not belong to the map the copy was made for',
                          witness={'tree': [g.name for g in nodes], 'wrong': wrong}, case=case, engine=engine,
                          key='visgroup-copy-wrong-owner')
            return
        ids = [g.id for g in nodes]
        if len(set(ids)) != len(ids) or set(ids) & taken:
            run.violation(f'{label}: the copied groups have IDs {ids}; the destination already uses {sorted(set(ids) & taken)}',
                          witness={'ids': ids, 'taken': sorted(taken)}, case=case, engine=engine, key='visgroup-copy-id-collision')
            return
        unreserved = [i for i in ids if i not in target.vis_id]
        if unreserved:
            run.violation(f'{label}: IDs {unreserved} of the copied groups are not reserved in the destination map',
                          case=case, engine=engine, key='visgroup-copy-id-unreserved')
            return
        if dest is not None and set(vmf.vis_id) != src_ids_before:
            run.violation(f'{label}: copying into another map changed the set of visgroup IDs reserved in the source map: '
                          f'{sorted(set(vmf.vis_id) ^ src_ids_before)}', case=case, engine=engine,
                          key='visgroup-copy-touches-source-ids')
            return
        want_map = {s_.id: c_.id for s_, c_ in zip(src_nodes, nodes)}
        if mapping != want_map:
            run.violation(f'{label}: the mapping handed back is {mapping}, the tree says {want_map}', case=case, engine=engine,
                          key='visgroup-copy-mapping')
            return


def _field_of(lines: List[str], k: int) -> str:
    if k >= len(lines):
        return 'eof'
    parts = lines[k].strip().split('"')
    name = parts[1] if len(parts) > 1 else parts[0]
    return re.sub(r'\d+', 'N', name)[:24]


def gen_kv(rng, depth=3):
    from srctools.keyvalues import Keyvalues
    def node(d):
        if d <= 0 or rng.random() < 0.5:
            return Keyvalues(rand_text(rng, 6, allow_newlines=False, hostile=0.3) or 'k', rand_text(rng, 8, hostile=0.3))
        return Keyvalues(rand_text(rng, 6, allow_newlines=False, hostile=0.3) or 'b', [node(d - 1) for _ in range(rng.randint(0, 4))])
    if rng.random() < 0.5:
        return Keyvalues.root(*[node(depth) for _ in range(rng.randint(0, 4))])
    return Keyvalues('blk', [node(depth) for _ in range(rng.randint(0, 4))])


def kv_snapshot(kv):
    return (kv.real_name, [kv_snapshot(c) for c in kv] if kv.has_children() else kv.value)


def check_operators(run, rng, engine: str, case: Any) -> None:
    from srctools.keyvalues import Keyvalues
    from srctools.math import Vec, Angle, Matrix
    a, b = gen_kv(rng), gen_kv(rng)
    if not b.is_root():
        b = Keyvalues.root(*[c for c in b])
    sa, sb = kv_snapshot(a), kv_snapshot(b)
    with warnings.catch_warnings():
        warnings.simplefilter('ignore')
        c = a + b
    run.count('operator_checks')
    if kv_snapshot(a) != sa or kv_snapshot(b) != sb:
        run.violation('Keyvalues a + b changed an operand', witness={'a_before': sa, 'a_after': kv_snapshot(a)}, case=case,
                      engine=engine, key='kv-add-mutates-self')
    want = (sa[0], list(sa[1]) + list(sb[1]))
    if kv_snapshot(c) != want:
        run.violation('Keyvalues a + b is not a followed by the children of b', witness={'got': kv_snapshot(c), 'want': want}, case=case,
                      engine=engine, key='kv-add-wrong-result')
    # result independent of operands
    if c.has_children() and len(c):
        for ch in list(c.iter_tree(blocks=True)):
            if ch is c:
                continue
            if ch.has_children():
                ch.append(Keyvalues('zz', '1'))
            else:
                ch.value = 'mutated'
        if kv_snapshot(a) != sa or kv_snapshot(b) != sb:
            run.violation('mutating the result of a + b changed an operand', case=case, engine=engine, key='kv-add-aliases')
    # the single-keyvalue form (deprecated but supported): block + one non-root Keyvalues appends a COPY of it
    blk = Keyvalues('left', [Keyvalues('k', 'v')])
    single = gen_kv(rng)
    if single.is_root():
        single = Keyvalues('single', [c for c in single])
    s_left, s_single = kv_snapshot(blk), kv_snapshot(single)
    with warnings.catch_warnings():
        warnings.simplefilter('ignore')
        res = blk + single
        blk2 = Keyvalues('left2', [])
        blk2 += single
    run.count('operator_checks')
    if kv_snapshot(res) != (s_left[0], list(s_left[1]) + [s_single]):
        run.violation('block + single keyvalue is not the block followed by that keyvalue', witness={'got': kv_snapshot(res)}, case=case,
                      engine=engine, key='kv-add-wrong-result')
    for holder in (res, blk2):
        for ch in list(holder.iter_tree(blocks=True)):
            if ch is holder:
                continue
            if ch.has_children():
                ch.append(Keyvalues('mut', '1'))
            else:
                ch.value = ch.value + '~'
            ch.name = (ch.real_name or '') + '_r'
    if kv_snapshot(single) != s_single or kv_snapshot(blk) != s_left:
        run.violation('mutating the result of block + single keyvalue (or block += single) changed an operand',
                      witness={'operand_before': s_single, 'operand_after': kv_snapshot(single)}, case=case, engine=engine, key='kv-add-aliases')
    # += changes only the left operand; extend likewise
    a2, b2 = gen_kv(rng), gen_kv(rng)
    if not b2.is_root():
        b2 = Keyvalues.root(*[c for c in b2])
    sb2 = kv_snapshot(b2)
    with warnings.catch_warnings():
        warnings.simplefilter('ignore')
        a2 += b2
        a2.extend(b2)
    for ch in list(a2.iter_tree(blocks=True)):   # at every depth: what was taken over from b is a copy all the way down
        if ch is a2:
            continue
        if ch.has_children():
            ch.append(Keyvalues('deep_mut', '1'))
            ch.name = (ch.real_name or '') + '_x'
        else:
            ch.value = 'm'
    if kv_snapshot(b2) != sb2:
        run.violation('a += b / a.extend(b) changed or aliased b', case=case, engine=engine, key='kv-iadd-aliases')
    # the right operand in every form an iterable of keyvalues can take: a list, a tuple, a block, and the one-shot forms (an
    # iterator, a generator, the library's own find_all() result) - the outcome is the same
    items_src = gen_kv(rng)
    if not items_src.has_children():
        items_src = Keyvalues('holder', [Keyvalues('only', 'one')])
    kids = list(items_src)
    s_kids = [kv_snapshot(k) for k in kids]
    suppliers = [('list', lambda: list(kids)), ('tuple', lambda: tuple(kids)), ('iter', lambda: iter(kids)),
                 ('generator', lambda: (k for k in kids)), ('map', lambda: map(lambda k: k, kids))]
    names = {k.name for k in kids}
    if len(names) == 1 and None not in names:
        suppliers.append(('find_all', lambda: items_src.find_all(kids[0].real_name)))
    for sup_name, sup in suppliers:
        for form in ('+', '+=', 'extend'):
            left = Keyvalues('left', [Keyvalues('k', 'v')])
            try:
                with warnings.catch_warnings():
                    warnings.simplefilter('ignore')
                    if form == '+':
                        out = left + sup()
                    elif form == '+=':
                        out = left
                        out += sup()
                    else:
                        out = left
                        out.extend(sup())
            except TypeError:
                continue   # an operand form this operator does not take at all
            run.count('operator_checks')
            run.count('kv_operands_in_one_shot_form' if sup_name in ('iter', 'generator', 'map', 'find_all') else 'kv_operands_in_sequence_form')
            got = kv_snapshot(out)
            want_snap = (got[0], [kv_snapshot(Keyvalues('k', 'v'))] + s_kids)
            if got != want_snap:
                run.violation(f'Keyvalues block {form} <{sup_name} of {len(kids)} keyvalues> does not hold the block followed by those keyvalues',
                              witness={'got': got, 'want': want_snap}, case=case, engine=engine, key='kv-add-wrong-result')
                break
            if [kv_snapshot(k) for k in kids] != s_kids or any(o is k for o in out for k in kids):
                run.violation(f'Keyvalues block {form} <{sup_name}> changed or took over the operand\'s keyvalues', case=case, engine=engine,
                              key='kv-add-aliases')
                break
    # copy() of a tree
    t = gen_kv(rng)
    st = kv_snapshot(t)
    cp = t.copy()
    if kv_snapshot(cp) != st:
        run.violation('Keyvalues.copy() is not equal to its source', case=case, engine=engine, key='kv-copy-incomplete')
    for ch in cp.iter_tree(blocks=True):
        if ch.has_children():
            ch.append(Keyvalues('q', 'q'))
        else:
            ch.value += '?'
    if kv_snapshot(t) != st:
        run.violation('mutating a Keyvalues copy changed the source', case=case, engine=engine, key='kv-copy-aliases')
    # vector arithmetic leaves operands alone: every binary operator over every pair of operand kinds (mutable, frozen,
    # tuple, scalar), both orders, with random and special values; then the unary operators and the value-returning methods
    import operator as _op
    from srctools.math import FrozenVec, FrozenAngle, FrozenMatrix

    def rvals():
        return [rng.choice((0.0, -0.0, 1.0, -1.0, 90.0, rng.uniform(-500, 500), float(rng.randint(-9, 9)))) for _ in range(3)]

    def msnap(o):
        if isinstance(o, (Vec, FrozenVec)):
            return ('V', o.x, o.y, o.z)
        if isinstance(o, (Angle, FrozenAngle)):
            return ('A', o.pitch, o.yaw, o.roll)
        if isinstance(o, (Matrix, FrozenMatrix)):
            return ('M', [o[i, j] for i in range(3) for j in range(3)])
        return ('T', o)

    def operands():
        a3, b3, c3 = rvals(), rvals(), rvals()
        return [Vec(*a3), FrozenVec(*a3), Angle(*b3), FrozenAngle(*b3), Matrix.from_angle(*c3), FrozenMatrix.from_angle(*c3),
                tuple(a3), rng.choice((2, 2.5, -1, 0, 0.0, 1))]

    binops = [('+', _op.add), ('-', _op.sub), ('*', _op.mul), ('/', _op.truediv), ('//', _op.floordiv), ('%', _op.mod), ('divmod', divmod),
              ('@', _op.matmul), ('==', _op.eq), ('!=', _op.ne), ('<', _op.lt)]
    lefts, rights = operands(), operands()
    for lo in lefts:
        for ro in rights:
            for name, fn in binops:
                sl, sr = msnap(lo), msnap(ro)
                try:
                    res = fn(lo, ro)
                except Exception:   # the pair does not support this operator (or divides by zero): nothing to judge
                    continue
                run.count('math_operator_applications')
                if msnap(lo) != sl or msnap(ro) != sr:
                    run.violation(f'{type(lo).__name__} {name} {type(ro).__name__} changed an operand',
                                  witness={'left': [sl, msnap(lo)], 'right': [sr, msnap(ro)]}, case=case, engine=engine, key='math-operator-mutates')
                    return
                # a mutable result is a value of its own: working on it in place leaves the operands as they were
                for r1 in (res if isinstance(res, tuple) else (res,)):
                    if isinstance(r1, Vec):
                        r1 += Vec(1, 2, 3)
                        r1 @= Matrix.from_yaw(30)
                    elif isinstance(r1, Angle):
                        r1 *= 3
                        r1.yaw += 10
                    elif isinstance(r1, Matrix):
                        r1 @= Matrix.from_pitch(40)
                        r1[0, 0] = 5.0
                if msnap(lo) != sl or msnap(ro) != sr:
                    run.violation(f'editing the result of {type(lo).__name__} {name} {type(ro).__name__} in place changed an operand',
                                  case=case, engine=engine, key='math-operator-aliases')
                    return
    unary = [('-x', _op.neg), ('+x', _op.pos), ('abs', abs), ('round', round), ('round2', lambda x: round(x, 2)), ('bool', bool), ('hash', hash),
             ('iter', lambda x: list(x)), ('copy', lambda x: x.copy()), ('freeze', lambda x: x.freeze()), ('thaw', lambda x: x.thaw()),
             ('norm', lambda x: x.norm()), ('mag', lambda x: x.mag()), ('cross', lambda x: x.cross(Vec(1, 0, 0))), ('dot', lambda x: x.dot(Vec(1, 2, 3))),
             ('to_angle', lambda x: x.to_angle()), ('transpose', lambda x: x.transpose()), ('inverse', lambda x: x.inverse()),
             ('forward', lambda x: x.forward()), ('left', lambda x: x.left()), ('up', lambda x: x.up()), ('str', str), ('repr', repr),
             ('join', lambda x: x.join(' ')), ('as_tuple', lambda x: x.as_tuple()), ('len_sq', lambda x: x.mag_sq()),
             ('axis', lambda x: x.axis()), ('other_axes', lambda x: x.other_axes('x')), ('with_axes', lambda x: x.with_axes('x', 5.0)),
             ('clamped', lambda x: x.clamped(Vec(-1e9, -1e9, -1e9), Vec(1e9, 1e9, 1e9))), ('clamped2', lambda x: x.clamped(maxs=Vec(1, 1, 1))),
             ('lerp', lambda x: x.lerp(0.5, 0.0, 1.0, Vec(0, 0, 0), Vec(1, 1, 1))), ('norm_mask', lambda x: x.norm_mask(Vec(0, 0, 1))),
             ('bbox', lambda x: Vec.bbox(x, Vec(1, 1, 1))), ('iter_line', lambda x: list(x.iter_line(Vec(3, 0, 0), 1))[:3])]
    for o in lefts[:6]:
        for name, fn in unary:
            so = msnap(o)
            with warnings.catch_warnings():
                warnings.simplefilter('ignore')
                try:
                    res = fn(o)
                except Exception:   # not applicable to this kind of object / these arguments: nothing to judge
                    continue
            run.count('math_operator_applications')
            if res is o and isinstance(o, (Vec, Angle, Matrix)):
                run.violation(f'{name} of a mutable {type(o).__name__} handed back the object itself instead of a new value', case=case, engine=engine,
                              key='math-operator-aliases')
                return
            if isinstance(res, (Vec, Angle, Matrix)) and res is not o:
                if isinstance(res, Vec):
                    res += Vec(7, 7, 7)
                elif isinstance(res, Angle):
                    res.pitch += 33
                else:
                    res[1, 1] = 9.0
            if msnap(o) != so:
                run.violation(f'{name} of a {type(o).__name__} changed it (or its result shares state with it)', witness={'before': so, 'after': msnap(o)},
                              case=case, engine=engine, key='math-operator-mutates')
                return


def one_case(run, seed: int, i: int, engine: str = 'copy') -> None:
    from srctools.vmf import VMF, Camera, Cordon
    rng = sub_rng(seed, engine, i)
    vmf, features = gen_vmf.gen_map(rng, size='normal')
    other = VMF()
    case = {'id': i}
    if i % 4 == 1:
        # the same map as a tool that keeps the IDs of the file has it: read back with preserve_ids=True (that map hands out
        # a requested ID unchanged, so only copies that ask for a new one get one)
        from srctools.keyvalues import Keyvalues as _KV
        vmf = VMF.parse(_KV.parse(vmf.export()), preserve_ids=True)
        case['preserve_ids'] = True
        run.count('maps_in_preserve_ids_mode')
    muts = 0
    ents = list(vmf.entities)
    key_text = []
    for e in ents[:4]:
        key_text.append(export_of(e))
        muts += check_copy(run, rng, e, lambda e=e: e.copy(), 'Entity.copy', engine, case)
    for e in list(vmf.entities)[:3]:
        muts += check_copy(run, rng, e, lambda e=e: e.copy(vmf_file=other), 'Entity.copy(other map)', engine, case)
    # copies of node entities: the copy has a node ID of its own, and taking that key away from the copy (or re-numbering
    # it) leaves the original's ID reserved - a node created afterwards that asks for it gets another one
    from srctools.vmf import Entity as _Ent
    node_src = [x for x in ents if 'nodeid' in x][:2]
    if not node_src and i % 3 == 0:
        node_src = [vmf.create_ent('info_node', nodeid=str(rng.randrange(1, 9)))]
    if case.get('preserve_ids'):
        # a preserve_ids map documents that a requested ID "will be passed through unchanged"; the nodeid keyvalue of a copy
        # and of a new node is such a request, so the node-ID laws below are stated for ordinary maps only
        node_src = []
    for e in node_src:
        want_id = e['nodeid']
        cp = e.copy() if i % 2 else e.copy(vmf_file=vmf)
        run.count('node_entity_copies')
        if cp['nodeid'] == want_id:
            run.violation(f'the copy of a node entity carries the node ID {want_id!r} of its source (same map)', case=case, engine=engine,
                          key='copy-shares-node-id')
            continue
        if rng.random() < 0.5:
            del cp['nodeid']
        else:
            cp['nodeid'] = '77'
        later = vmf.create_ent('info_node', nodeid=want_id)
        if later['nodeid'] == e['nodeid'] or e['nodeid'] != want_id:
            run.violation(f'after the copy gave up its node ID, a new node asking for {want_id!r} got {later["nodeid"]!r} while the source still holds {e["nodeid"]!r}',
                          case=case, engine=engine, key='copy-shares-node-id')
        later.remove()
    # the copy options: an ID mapping to fill in, visibility state left behind, and the map every part of the copy belongs to
    for e in [x for x in ents if x.solids][:2] + ents[:1]:
        mapping: Dict[int, int] = {}
        try:
            cp = e.copy(side_mapping=mapping, vmf_file=other if i % 2 else None)
        except Exception as exc:
            run.violation(f'Entity.copy(side_mapping=...) raised {exc!r}', case=case, engine=engine, key='copy-raises:Entity.copy(options)')
            continue
        old_ids = [f.id for sol in e.solids for f in sol.sides]
        new_ids = [f.id for sol in cp.solids for f in sol.sides]
        run.count('copy_option_checks')
        if len(old_ids) != len(new_ids) or any(mapping.get(o) != n for o, n in zip(old_ids, new_ids)) or len(mapping) != len(set(old_ids)):
            run.violation('Entity.copy(side_mapping=m): m does not map every old face ID to the ID of its copy',
                          witness={'old': old_ids[:12], 'new': new_ids[:12], 'mapping': dict(list(mapping.items())[:12])}, case=case, engine=engine,
                          key='copy-side-mapping-wrong')
        want_map = other if i % 2 else vmf
        owners = [('entity', cp.map)] + [('solid', sol.map) for sol in cp.solids] + [('face', f.map) for sol in cp.solids for f in sol.sides]
        wrong = [k for k, m_ in owners if m_ is not want_map]
        if wrong:
            run.violation(f'Entity.copy({"vmf_file=other" if i % 2 else ""}): parts of the copy belong to another map than the copy: {sorted(set(wrong))}',
                          case=case, engine=engine, key='copy-belongs-to-wrong-map')
        muts += check_copy(run, rng, e, lambda e=e: e.copy(keep_vis=False), 'Entity.copy(keep_vis=False)', engine, case, complete=False)
    # a copy of worldspawn (whose solids list IS the map's brush list) is an ordinary entity of its own
    try:
        w0 = export_of(vmf.spawn)
        wcp = vmf.spawn.copy()
        n_brushes = len(vmf.brushes)
        muts += mutate_everything(wcp, rng)
        wcp.solids.clear()
        if export_of(vmf.spawn) != w0 or len(vmf.brushes) != n_brushes:
            run.violation('mutating a copy of worldspawn changed the world of the map', case=case, engine=engine, key='copy-aliases:Entity.copy(worldspawn)')
    except Exception as exc:
        run.violation(f'copying worldspawn raised {exc!r}', witness=traceback.format_exc()[-900:], case=case, engine=engine,
                      key='copy-raises:Entity.copy(worldspawn)')
    solids = list(vmf.brushes) + [s for e in vmf.entities for s in e.solids]
    rng.shuffle(solids)
    for sol in solids[:2]:
        muts += check_copy(run, rng, sol, lambda sol=sol: sol.copy(keep_vis=False), 'Solid.copy(keep_vis=False)', engine, case, complete=False)
        cp_s = sol.copy(vmf_file=other)
        if cp_s.map is not other or any(f.map is not other for f in cp_s.sides):
            run.violation('Solid.copy(vmf_file=other): the copy or its faces belong to the source map', case=case, engine=engine,
                          key='copy-belongs-to-wrong-map')
        for f in sol.sides[:1]:
            muts += check_copy(run, rng, f, lambda f=f: f.copy(vmf_file=other), 'Side.copy(other map)', engine, case)
    for s in solids[:4]:
        key_text.append(export_of(s))
        muts += check_copy(run, rng, s, lambda s=s: s.copy(), 'Solid.copy', engine, case)
    for s in solids[4:6]:
        muts += check_copy(run, rng, s, lambda s=s: s.copy(vmf_file=other), 'Solid.copy(other map)', engine, case)
    sides = [f for s in solids for f in s.sides]
    disp = [f for f in sides if f.is_disp]
    plain = [f for f in sides if not f.is_disp]
    for f in disp[:3] + plain[:2]:
        muts += check_copy(run, rng, f, lambda f=f: f.copy(), 'Side.copy(disp)' if f.is_disp else 'Side.copy', engine, case)
        if f.is_disp:
            run.count('displacement_copies')
    for e in vmf.entities:
        for o in e.outputs[:2]:
            muts += check_copy(run, rng, o, lambda o=o: o.copy(), 'Output.copy', engine, case)
    for v in vmf.vis_tree[:2]:
        muts += check_copy(run, rng, v, lambda v=v: v.copy(), 'VisGroup.copy', engine, case)
        muts += check_copy(run, rng, v, lambda v=v: v.copy(other, {}), 'VisGroup.copy(other map)', engine, case)
    for v in vmf.vis_tree[:3]:
        visgroup_tree_ownership(run, v, vmf, other, engine, case)
    for c in list(vmf.cameras)[:1] + list(vmf.cordons)[:1]:
        muts += check_copy(run, rng, c, lambda c=c: c.copy(), type(c).__name__ + '.copy', engine, case)
    for g in list(vmf.groups.values())[:1]:
        muts += check_copy(run, rng, g, lambda g=g: g.copy(), 'EntityGroup.copy', engine, case)
        muts += check_copy(run, rng, g, lambda g=g: g.copy(other), 'EntityGroup.copy(other map)', engine, case)
    check_operators(run, rng, engine, case)
    run.count('mutations_applied', muts)
    run.case(key_text or ['empty', i], muts > 0, sample={'id': i, 'features': features, 'mutations': muts} if i < 2 else None, tag=engine)


def main(run, shard=(0, 1)) -> None:
    import srctools.vmf as vm
    import srctools.keyvalues as kvm
    probe = ReachProbe({
        'Entity.copy': (vm, 'Entity.copy'), 'Solid.copy': (vm, 'Solid.copy'), 'Side.copy': (vm, 'Side.copy'),
        'Output.copy': (vm, 'Output.copy'), 'VisGroup.copy': (vm, 'VisGroup.copy'), 'Keyvalues.copy': (kvm, 'Keyvalues.copy'),
        'Keyvalues.__add__': (kvm, 'Keyvalues.__add__'), 'Keyvalues.__iadd__': (kvm, 'Keyvalues.__iadd__'),
        'EntityFixup.copy_values': (vm, 'EntityFixup.copy_values'),
    })
    probe.start()
    n = 40000 if run.tier == "thorough" else 200
    for i in range(n):
        if mine(i, shard):
            one_case(run, run.seed, i)
    probe.report(run)
    probe.check_reached(run)
    run.require('copies', 'mutations_applied', 'operator_checks', 'displacement_copies', 'math_operator_applications', 'copy_option_checks', 'node_entity_copies')


def replay(run, data) -> None:
    one_case(run, run.seed, int(data['case']['id']))
    run.case('pad', True)
    run.case('pad2', True)


# (kept at the end of the file so that the text above stays the description the check was first built to)
RULE += ' ' + 'Later additions: every binary operator over every pair of operand kinds (mutable, frozen, tuple, scalar) in both orders plus the unary operators and value-returning methods, results edited in place; copy options (side_mapping law, keep_vis=False, other map), the map every part of a copy belongs to, copies of worldspawn, cross-map Side / EntityGroup copies. Visgroup trees copied within the map and into another one: every group of the copy belongs to the destination map, its ID is reserved there and collides with nothing, the reserved IDs of the source map are untouched, and the mapping names every group. Every copy that lives in the same map as its source is checked for IDs of its own (entity, brush, face, visgroup, group); a quarter of the maps are read back with preserve_ids=True first. The right operand of Keyvalues +, += and extend() is supplied as list, tuple, iterator, generator, map object and find_all() result: the same outcome each time.'
