"""C16 FGD definitions survive text export, the binary database and lazy loading.

Engines
  text      generated FGD -> FGD.export(custom_syntax, label_spawnflags) -> FGD.parse_file(VirtualFileSystem)
            -> harness snapshot compared field by field with the documented model -> export again == first text
  dbase     the complete bundled database (FGD.engine_dbase()) through the same text round trip
  binary    _engine_db.serialise -> unserialise -> get_fgd() of generated engine-format FGDs and of the bundled one
  lazy      fresh EngineDB instances from fgd.lzma queried one entity at a time in random orders
            (EngineDB.get_ent and the public EntityDef.engine_def) against a fully loaded reference
"""
from __future__ import annotations

import contextlib
import io
import os
import re
import warnings
from typing import Any, Dict, List, Optional, Tuple

from rv import gen_fgd as G
from rv.monitor import canon_hash
from rv.probes import ReachProbe
from rv.util import mine, quiet_stdout, sub_rng

PROP = 'C16'
LEVEL = 'exploration'
RULE = (
    'text engine: FGDs of 1-6 entities built with FGD/EntityDef/KVDef/IODef/Resource/helper constructors; the value, '
    'entity and helper type are rotated with the case index so every ValueTypes/EntityTypes/HelperTypes member occurs '
    '(plus unknown helpers and custom value-type names); empty display names/defaults/descriptions, 900-3000 character '
    'strings (words, no spaces, escapes at every density, lengths 998-1002/1999-2001, newline placements) in display '
    'names, descriptions, entity/IO descriptions, choice and spawnflag names; defaults and choice values that need '
    'escaping (quotes, backslash paths, line breaks; custom_syntax=True only); tagged duplicates of a key, aliases, '
    'bases (earlier entities only: no loops), kv_order permutations and orderby(), @resources; all four '
    '(custom_syntax, label_spawnflags) combinations; text delivered as str or cp1252 bytes; a fixed list of corner '
    'definitions (empty display name alone/last/with default, empty choice name, cut positions of the string '
    'splitter). Restrictions (what the text format can carry): names are bare identifiers and keyvalues are not '
    'called input/output; BOOL defaults are 0/1 (export documents forcing one); SPAWNFLAGS keyvalues have no display '
    'name/default/description ("Spawnflags never use names"); choice and spawnflag names have no newline (export '
    'documents replacing them), spawnflag names no leading blank or own [N] label (the reader strips the label); '
    'choice names no newline; quotes/backslashes in them only under custom_syntax; a CHOICES/SPAWNFLAGS list of None equals an empty list '
    '(choices_list/flags_list and KVDef.copy document it); helper arguments are in the canonical shape of their '
    'parser (no commas/parens, numbers that print exactly, key names that are not numbers) and autovis() is not '
    'generated as a helper (parse-only); resource types are those with an @resources keyword; with '
    'custom_syntax=False no quote/backslash/CR anywhere, one variant per key, and tags, @resources, extension '
    'helpers and the alias marker are expected to be dropped; I/O types are compared after VALUE_TO_IO_DECAY. '
    'dbase engine: FGD.engine_dbase() whole (4 option combinations) and entity by entity with its bases (240 sampled '
    'in quick, all in thorough); under custom_syntax=False a string leaf holding a quote, backslash or CR is excused '
    '(counted as classic_syntax_uncarried_strings). binary engine: engine-format FGDs (_CBaseEntity_ + 60-110 '
    'entities based on it or aliasing one another, untagged except resources, no CHOICES, no reportable, >= 512 '
    'strings as serialise() asserts) and the bundled database; compared without descriptions/helpers (documented as '
    'not stored) and with explicit-empty @resources equal to none; the first 40 entities are also fetched lazily from '
    'the same bytes. lazy engine: fresh EngineDB instances from fgd.lzma queried by get_ent or (cache reset) '
    'EntityDef.engine_def in random orders: full permutations, random subsets, repeats, aliases first, mixed-case '
    'names; bases are compared recursively as attached objects; then get_fgd() after a partial history and '
    'FGD.engine_dbase() against the cold full load. Non-trivial = at least one keyvalue with a default, description '
    'or value list; distinct = distinct export text / definition set / query order.')
ASSUMPTIONS = [
    'pure-Python tokenizer; srctools imported from the tree under test',
    'VALUE_TO_IO_DECAY is taken as the documentation of the I/O type decay (checked to be idempotent and IO-valid)',
    'the binary format is documented to drop descriptions and helpers; reportable, key order lists and the '
    'explicit-empty @resources marker are not stored (dictionary order of keyvalues is)',
    'export() may turn a None value list of a CHOICES/SPAWNFLAGS keyvalue into [] (documented by choices_list/flags_list)',
    'PYTHONHASHSEED pinned to VERIF_SEED (set iteration order of tags is sorted by the writer anyway)',
]
JOBS = {'quick': 4, 'thorough': 16}

N_TEXT = {'quick': 1400, 'thorough': 48000}
N_BIN = {'quick': 10, 'thorough': 160}
N_LAZY = {'quick': 16, 'thorough': 320}

# ------------------------------------------------------------------------------------------ witnesses in text
# a keyvalue line that ends in a dangling colon: `name(type) [readonly ][report ]: ` (choices: `:  =`)
RE_DANGLING_KV = re.compile(r'^\t[^\t\n"]*\([^)\n]*\) (?:readonly )?(?:report )?: (?: =)?$', re.M)
# a choices line `value: ` with nothing (or only tags) after the colon
RE_DANGLING_CHOICE = re.compile(r'^\t\t(?:"[^"\n]*"|[^\s":]+): (?: \[[^\]\n]*\])?$', re.M)
# a '+'-continued section whose closing quote is preceded by an odd number of backslashes
RE_SPLIT_ESCAPE = re.compile(r'(?<!\\)(?:\\\\)*\\" \+$', re.M)
NEEDS_ESCAPE = '"\\\n\r'
WITNESS_RE = (('empty-display-name', RE_DANGLING_KV), ('empty-choice-name', RE_DANGLING_CHOICE),
              ('longstring-splits-escape', RE_SPLIT_ESCAPE))


def find_witnesses(text: str, snaps: Optional[Dict[str, dict]]) -> List[Tuple[int, str]]:
    """Writer-side witnesses visible in the exported text: (offset, mechanism)."""
    out: List[Tuple[int, str]] = []
    for key, pat in WITNESS_RE:
        for m in pat.finditer(text):
            out.append((m.start(), key))
    if snaps is not None:
        for snap in snaps.values():
            for _, variants in snap['kv']:
                for _, kv in variants:
                    d = kv['default']
                    if d and any(c in d for c in NEEDS_ESCAPE):
                        # the raw value, verbatim between quotes, as a complete field of a keyvalue line
                        m = re.search(re.escape(f' : "{d}"') + r'(?= : | =$|$)', text, re.M)
                        if m:
                            out.append((m.start(), 'value-written-unescaped'))
                    if kv['type'] == 'CHOICES':
                        for item in kv['val_list'] or []:
                            v = item[0]
                            if any(c in v for c in NEEDS_ESCAPE):
                                i = text.find(f'\t\t"{v}": ')
                                if i >= 0:
                                    out.append((i, 'value-written-unescaped'))
    out.sort()
    return out


def entity_block(text: str, classname: str) -> Tuple[int, int]:
    m = re.search(r'= ' + re.escape(classname) + r'(?::|\n)', text)
    if not m:
        return (0, len(text))
    start = text.rfind('\n@', 0, m.start())
    end = text.find('\n@', m.end())
    return (max(0, start), len(text) if end < 0 else end)


def classify_text(text: str, snaps: Optional[Dict[str, dict]], diff: Optional[Tuple[str, Any, Any]],
                  err_line: Optional[int], classname: Optional[str]) -> Tuple[str, int]:
    """Mechanism from the witness: what the writer visibly did wrong near the failure, else which field differs.

    Returns (key, offset of the witness in the text or -1)."""
    wit = find_witnesses(text, snaps)
    if err_line is not None:
        # the closest witness at or before the line the reader gave up on
        limit = _line_offset(text, err_line + 1)
        near = [(p, k) for p, k in wit if p < limit]
        if near:
            return near[-1][1], near[-1][0]
        return 'export-unparseable', -1
    if diff is not None:
        path, want, got = diff
        if classname is not None:
            lo, hi = entity_block(text, classname)
            inside = [(p, k) for p, k in wit if lo <= p < hi]
            if inside:
                return inside[0][1], inside[0][0]
        field = re.sub(r'\[.*$', '', path.rsplit('.', 1)[-1])
        if field == 'is_alias':
            return 'alias-exported-as-base', -1
        if field == 'default' and isinstance(want, str) and any(c in want for c in NEEDS_ESCAPE + '\t\v\b\f\a'):
            return 'value-written-unescaped', -1
        return 'text-field-lost:' + (field or 'entity'), -1
    return 'second-export-differs', -1


def _line_offset(text: str, line: int) -> int:
    """Offset of the start of 1-based `line` (len(text) if beyond)."""
    pos = 0
    for _ in range(max(0, line - 1)):
        nxt = text.find('\n', pos)
        if nxt < 0:
            return len(text)
        pos = nxt + 1
    return pos


def around(text: str, pos: int, width: int = 200) -> str:
    if pos < 0:
        return text[:2 * width]
    return text[max(0, pos - width):pos + width]


# ------------------------------------------------------------------------------------------ text round trip
def parse_text(text: str, as_bytes: bool, **kw: Any) -> Any:
    from srctools.fgd import FGD
    from srctools.filesys import VirtualFileSystem
    data: Any = text.encode('cp1252') if as_bytes else text
    fsys = VirtualFileSystem({'gen.fgd': data})
    fgd = FGD()
    fgd.parse_file(fsys, fsys['gen.fgd'], ignore_unknown_valuetype=True, **kw)   # custom type names are kept as str
    return fgd


def text_roundtrip(run, fgd: Any, custom: bool, label: bool, as_bytes: bool, engine: str, case: Any,
                   only: Optional[set] = None) -> Tuple[Optional[str], bool]:
    """Export, re-parse, compare every entity with the model, export again.  Returns (text, ok)."""
    before = G.snap_fgd(fgd)
    level_before = G.fgd_level(fgd)
    try:
        text = fgd.export(custom_syntax=custom, label_spawnflags=label)
        run.count('exports')
    except Exception as exc:
        run.violation(f'export raised {type(exc).__name__}: {exc}', case=case, engine=engine, key='export-raises')
        return None, False
    # the same object exported again into a file object: identical text, nothing returned
    try:
        fbuf = io.StringIO()
        ret = fgd.export(fbuf, custom_syntax=custom, label_spawnflags=label)
        if ret is not None or fbuf.getvalue() != text:
            k = next((i for i, (a, b) in enumerate(zip(text, fbuf.getvalue())) if a != b), min(len(text), len(fbuf.getvalue())))
            run.violation('export into a file object differs from the text export() returned just before',
                          witness={'returned_text': text[max(0, k - 150):k + 150], 'file_text': fbuf.getvalue()[max(0, k - 150):k + 150]},
                          case=case, engine=engine, key='export-file-form-differs')
        run.count('file_form_exports')
    except Exception as exc:
        run.violation(f'export(file) raised {type(exc).__name__}: {exc}', case=case, engine=engine, key='export-raises')
    # export() completes the visgroup tree in place (it adds the groups that are only named as parents, 'Auto' included),
    # so the reference for the FGD-level sections is the object as it stands after the export
    level_given = level_before
    level_before = G.fgd_level(fgd)
    # ... but completing is all it may do: every group that was there before is still there with its name, parent and entities
    given = {row[0]: row for row in level_given['auto_visgroups']}
    now = {row[0]: row for row in level_before['auto_visgroups']}
    for key_cf, row in given.items():
        if now.get(key_cf) != row:
            run.violation(f'export changed the auto-visgroup {row[1]!r} of the FGD it was given: {row!r} -> {now.get(key_cf)!r}',
                          witness={'before': row, 'after': now.get(key_cf)}, case=case, engine=engine, key='export-rewrites-visgroup-tree')
            return text, False
    if given:
        run.count('visgroup_trees_checked_against_export')
    after = G.snap_fgd(fgd)
    if after != before:
        d = G.first_diff(before, after)
        run.violation(f'export changed the definitions at {d[0]}', witness={'diff': _clip(d, 600)}, case=case,
                      engine=engine, key='export-mutates')
    ok = True
    try:
        parsed = parse_text(text, as_bytes)
        run.count('parses')
    except Exception as exc:
        err = f'{type(exc).__name__}: {exc}'
        line = getattr(exc, 'line_num', None)
        if not isinstance(line, int):
            line = text.count('\n') + 1
        key, pos = classify_text(text, before, None, line, None)
        near = around(text, pos) if pos >= 0 else '\n'.join(text.split('\n')[max(0, line - 4):line + 1])[-600:]
        run.violation(f'exported text does not re-parse: {err[:300]}',
                      witness={'text_excerpt': near, 'error': err[:500]}, case=case, engine=engine, key=key)
        return text, False
    got = G.snap_fgd(parsed)
    # -------- the sections in front of the entities (@mapsize, @MaterialExclusion, @AutoVisgroup)
    if only is None:
        level_after = G.fgd_level(parsed)
        if level_before['map_size'][0] == level_before['map_size'][1]:
            level_after['map_size'] = level_before['map_size']  # export() documents writing @mapsize only for a real range
        if any(level_before[k] for k in ('mat_exclusions', 'tagged_mat_exclusions', 'auto_visgroups')) or level_before['map_size'] != level_after['map_size']:
            run.count('fgd_level_sections_compared')
        dl = G.first_diff(level_before, level_after)
        if dl is not None:
            ok = False
            run.violation(f'FGD-level section{dl[0]}: expected {_clip(dl[1])!r}, parsed back {_clip(dl[2])!r}',
                          witness={'path': dl[0], 'expected': _clip(dl[1], 500), 'got': _clip(dl[2], 500), 'text_excerpt': text[:700]},
                          case=case, engine=engine, key='fgd-level-section-mismatch')
    # -------- field by field
    n_cmp = 0
    excused: Dict[str, int] = {}
    for key_cf, snap in before.items():
        if not ok:
            break
        if only is not None and key_cf not in only:
            continue
        want = G.model_text(snap, custom)
        have = got.get(key_cf)
        n_cmp += 1
        if have is None:
            d: Optional[Tuple[str, Any, Any]] = ('', snap['classname'], '<entity missing after parse>')
        else:
            d = G.first_diff(want, have, skip=None if custom else G.classic_skip(excused))
        if d is not None:
            ok = False
            mkey, pos = classify_text(text, before, d, None, snap['classname'])
            run.violation(f'{snap["classname"]}{d[0]}: expected {_clip(d[1])!r}, parsed back {_clip(d[2])!r}',
                          witness={'entity': snap['classname'], 'path': d[0], 'expected': _clip(d[1], 700),
                                   'got': _clip(d[2], 700),
                                   'text_excerpt': around(text, pos) if pos >= 0 else _ent_excerpt(text, snap['classname'])},
                          case=case, engine=engine, key=mkey)
            break  # one witness per case is enough; later entities often only echo the first
    if only is None and ok:
        extra = set(got) - set(before)
        if extra:
            ok = False
            run.violation(f'entities appeared from nowhere: {sorted(extra)[:5]}', case=case, engine=engine,
                          key='text-extra-entity')
    run.count('entities_compared', n_cmp)
    if excused.get('n'):
        run.count('classic_syntax_uncarried_strings', excused['n'])
    # -------- fixed point
    if ok:
        try:
            text2 = parsed.export(custom_syntax=custom, label_spawnflags=label)
        except Exception as exc:
            run.violation(f'second export raised {type(exc).__name__}: {exc}', case=case, engine=engine,
                          key='export-raises')
            return text, False
        run.count('second_exports')
        if text2 != text:
            ok = False
            k = next((i for i, (a, b) in enumerate(zip(text, text2)) if a != b), min(len(text), len(text2)))
            # the only difference is the line break the writer puts after a helper list it did not write
            squash = (lambda t: t.replace(' \n= ', ' = '))
            mkey = 'header-newline-for-skipped-helpers' if squash(text) == squash(text2) else 'second-export-differs'
            run.violation(f'second export differs from the first at offset {k}',
                          witness={'first': text[max(0, k - 200):k + 200], 'second': text2[max(0, k - 200):k + 200]},
                          case=case, engine=engine, key=mkey)
    # -------- the reduced way of reading (eval_bases=False: bases stay names until apply_bases()): once the bases are applied,
    #          the same export and the same definitions (before that the order of the entities in an export is not promised)
    if ok and only is None:
        try:
            lazy = parse_text(text, as_bytes, eval_bases=False)
            lazy.apply_bases()
            text3 = lazy.export(custom_syntax=custom, label_spawnflags=label)
            snap3 = G.snap_fgd(lazy)
        except Exception as exc:
            tb = traceback.extract_tb(exc.__traceback__)
            if tb and (os.sep + 'srctools' + os.sep) in tb[-1].filename:
                ok = False
                run.violation(f'reading with eval_bases=False, exporting and apply_bases() raised {type(exc).__name__}: {exc}',
                              case=case, engine=engine, key='deferred-bases-raise')
            else:
                raise
        else:
            run.count('texts_read_with_deferred_bases')
            d3 = G.first_diff(got, snap3)
            if text3 != text:
                ok = False
                k = next((i for i, (a, b) in enumerate(zip(text, text3)) if a != b), min(len(text), len(text3)))
                run.violation(f'the text read with eval_bases=False and completed with apply_bases() exports differently (offset {k})',
                              witness={'full': text[max(0, k - 200):k + 200], 'deferred': text3[max(0, k - 200):k + 200]},
                              case=case, engine=engine, key='deferred-bases-export-differs')
            elif d3 is not None:
                ok = False
                run.violation(f'eval_bases=False followed by apply_bases() gives other definitions than a plain read at {d3[0]}: '
                              f'{_clip(d3[1])!r} / {_clip(d3[2])!r}', witness={'path': d3[0]}, case=case, engine=engine,
                              key='deferred-bases-differ')
    # -------- the same text read again after the caller edited everything the first read returned
    if ok:
        try:
            for ent in list(parsed.entities.values()):
                vandalise(ent)
            parsed.entities.pop(next(iter(parsed.entities), ''), None)
        except Exception:
            return text, ok  # the editing is the harness's own; it decides nothing
        try:
            again = G.snap_fgd(parse_text(text, as_bytes))
        except Exception as exc:
            run.violation(f'the text that parsed a moment ago no longer parses after the first result was edited: '
                          f'{type(exc).__name__}: {exc}', case=case, engine=engine, key='second-read-depends-on-first-result')
            return text, False
        run.count('texts_read_again_after_first_result_edited')
        d2 = G.first_diff(got, again)
        if d2 is not None:
            ok = False
            run.violation(f'the same text read a second time gives different definitions at {d2[0]} once the first result '
                          f'was edited: {_clip(d2[1])!r} -> {_clip(d2[2])!r}',
                          witness={'path': d2[0], 'first_read': _clip(d2[1], 500), 'second_read': _clip(d2[2], 500)},
                          case=case, engine=engine, key='second-read-depends-on-first-result')
    return text, ok


def _clip(v: Any, n: int = 120) -> Any:
    if isinstance(v, str) and len(v) > n:
        return v[:n // 2] + f'...<{len(v)} chars>...' + v[-n // 2:]
    if isinstance(v, (list, dict)):
        s = repr(v)
        return s if len(s) <= n else s[:n] + '...'
    return v


def _ent_excerpt(text: str, classname: str, width: int = 900) -> str:
    i = text.find(f'= {classname}')
    if i < 0:
        return text[:width]
    start = text.rfind('\n@', 0, i)
    return text[max(0, start):max(0, start) + width]


def text_case(run, index: int, engine: str = 'text', opts: Optional[Dict[str, Any]] = None) -> None:
    rng = sub_rng(run.seed, engine, index)
    custom = bool(index & 1)
    label = bool(index & 2)
    as_bytes = bool(index & 4)
    fgd = G.gen_text_fgd(rng, custom, index, opts)
    if not label:
        # without the generated "[N]" labels nothing is stripped from a flag's display name, so (unlike in the labelled
        # form, where the generator has to avoid it) a name may begin with blanks - indented sub-options do
        from srctools.fgd import ValueTypes as _VT
        for ent in fgd.entities.values():
            for variants in ent.keyvalues.values():
                for kv in variants.values():
                    if kv.type is _VT.SPAWNFLAGS and kv.val_list:
                        kv.val_list = [(val, ('  ' + name) if (val.bit_length() % 2 and name) else name, default, tags)
                                       for val, name, default, tags in kv.val_list]
                        run.count('spawnflag_names_with_leading_blanks')
    case = {'engine': engine, 'index': index, 'custom_syntax': custom, 'label_spawnflags': label,
            'as_bytes': as_bytes, 'opts': opts or {}}
    snaps = G.snap_fgd(fgd)
    text, ok = text_roundtrip(run, fgd, custom, label, as_bytes, engine, case)
    _feature_counts(run, snaps, text)
    nt = any(G.is_nontrivial(s) for s in snaps.values())
    run.case(canon_hash([engine, custom, label, text]), nt,
             sample={'case': case, 'text': (text or '')[:400]} if index < 2 else None, tag=engine)


def _feature_counts(run, snaps: Dict[str, dict], text: Optional[str]) -> None:
    for s in snaps.values():
        run.extra.setdefault('entity_types_seen', {})
        run.extra['entity_types_seen'][s['type']] = run.extra['entity_types_seen'].get(s['type'], 0) + 1
        if s['is_alias']:
            run.count('aliases')
        if s['bases']:
            run.count('entities_with_bases')
        for h in s['helpers']:
            hs = run.extra.setdefault('helper_types_seen', {})
            hs[h[1] or 'unknown'] = hs.get(h[1] or 'unknown', 0) + 1
        for _, variants in s['kv']:
            if len(variants) > 1:
                run.count('tagged_duplicate_keys')
            for _, kv in variants:
                vs = run.extra.setdefault('value_types_seen', {})
                t = 'custom-name' if kv['type'].startswith('custom:') else kv['type']
                vs[t] = vs.get(t, 0) + 1
                if not kv['disp_name']:
                    run.count('empty_display_names')
                    if not kv['default'] and not kv['desc'] and kv['type'] != 'SPAWNFLAGS':
                        run.count('empty_display_name_alone')
                if max(len(kv['disp_name']), len(kv['desc'])) >= 900:
                    run.count('long_strings')
    if text and ' +\n' in text:
        run.count('texts_with_plus_split')


# ------------------------------------------------------------------------------------------ bundled database
def dbase_case(run, custom: bool, label: bool, only: Optional[set] = None) -> None:
    from srctools.fgd import FGD
    engine = 'dbase'
    fgd = FGD.engine_dbase()
    case = {'engine': engine, 'custom_syntax': custom, 'label_spawnflags': label}
    run.count('dbase_entities', len(fgd.entities))
    text, ok = text_roundtrip(run, fgd, custom, label, False, engine, case, only=only)
    run.count('dbase_roundtrips')
    run.case(canon_hash([engine, custom, label, len(text or '')]), True,
             sample={'case': case, 'entities': len(fgd.entities), 'text_chars': len(text or '')}, tag=engine)


def dbase_per_entity(run, shard, n: int) -> None:
    """The database again, one entity (plus its bases) per file: a defect in one entity cannot mask the others."""
    from srctools.fgd import FGD
    base = FGD.engine_dbase()
    names = sorted(base.entities)
    rng = sub_rng(run.seed, 'dbase-ent', 0)
    picks = names if n >= len(names) else rng.sample(names, n)
    for j, key_cf in enumerate(picks):
        if not mine(j, shard):
            continue
        ent = base.entities[key_cf]
        sub = FGD()
        todo = [ent]
        while todo:
            e = todo.pop()
            if e.classname.casefold() in sub.entities:
                continue
            sub.entities[e.classname.casefold()] = e
            todo.extend(b for b in e.bases if not isinstance(b, str))
        custom = bool(j & 1)
        case = {'engine': 'dbase-ent', 'classname': ent.classname, 'custom_syntax': custom, 'label_spawnflags': True}
        text, ok = text_roundtrip(run, sub, custom, True, False, 'dbase-ent', case, only={key_cf})
        run.count('dbase_single_entities')
        run.case(canon_hash(['dbase-ent', key_cf, custom]), G.is_nontrivial(G.snap_ent(ent)), tag='dbase-ent',
                 sample={'case': case, 'text': (text or '')[-300:]} if j < 1 else None)


# ------------------------------------------------------------------------------------------ binary database
def binary_roundtrip(run, fgd: Any, engine: str, case: Any) -> bool:
    from srctools import _engine_db as E
    before = G.snap_fgd(fgd)
    buf = io.BytesIO()
    log = ''
    try:
        with quiet_stdout() as out, warnings.catch_warnings():
            warnings.simplefilter('ignore')
            E.serialise(fgd, buf)
        log = out.getvalue()
        run.count('serialise_calls')
    except Exception as exc:
        run.violation(f'serialise raised {type(exc).__name__}: {exc}', case=case, engine=engine, key='serialise-raises')
        return False
    # serialise() is a writer: the FGD it was given is unchanged afterwards, and writing it again gives the same bytes
    d_in = G.first_diff(before, G.snap_fgd(fgd))
    if d_in is not None or set(G.snap_fgd(fgd)) != set(before):
        run.violation(f'serialise() changed the FGD it was given ({sorted(set(before) ^ set(G.snap_fgd(fgd)))[:4] or d_in[0]})', case=case, engine=engine,
                      key='serialise-mutates-input')
        return False
    try:
        buf_again = io.BytesIO()
        with quiet_stdout(), warnings.catch_warnings():
            warnings.simplefilter('ignore')
            E.serialise(fgd, buf_again)
        if buf_again.getvalue() != buf.getvalue():
            run.violation('serialising the same FGD twice gives different bytes', case=case, engine=engine, key='serialise-mutates-input')
    except Exception as exc:
        run.violation(f'the second serialise() of the same FGD raised {type(exc).__name__}: {exc}', case=case, engine=engine, key='serialise-mutates-input')
        return False
    run.count('serialise_twice')
    # a definition the format cannot carry - a member whose only variant is tagged - is refused, or (should the format ever
    # learn tags) comes back with its tags: it is never written as if it were untagged
    for ent in fgd:
        members = [(coll, nm) for coll in (ent.keyvalues, ent.inputs, ent.outputs) for nm, tm in coll.items() if list(tm) == [frozenset()]]
        if ent.classname.casefold() == '_cbaseentity_' or not members:
            continue
        coll, nm = members[len(before) % len(members)]
        plain = coll[nm]
        coll[nm] = {frozenset({'HL2'}): plain[frozenset()]}
        try:
            tb = io.BytesIO()
            with quiet_stdout(), warnings.catch_warnings():
                warnings.simplefilter('ignore')
                E.serialise(fgd, tb)
        except ValueError:
            run.count('tagged_member_refused')
        except Exception as exc:
            run.violation(f'serialise() of a tagged member raised {type(exc).__name__}: {exc} (expected ValueError)', case=case, engine=engine,
                          key='binary-tagged-member')
        else:
            try:
                back_t = E.unserialise(io.BytesIO(tb.getvalue())).get_fgd()
                got_tags = [sorted(t) for t in getattr(back_t[ent.classname], 'keyvalues' if coll is ent.keyvalues else 'inputs' if coll is ent.inputs else 'outputs')[nm]]
            except Exception as exc:
                got_tags = [f'<{type(exc).__name__}>']
            if got_tags != [['HL2']]:
                run.violation(f'serialise() accepted {ent.classname}.{nm} whose only variant is tagged [HL2]; it reads back with tags {got_tags}',
                              case=case, engine=engine, key='binary-tagged-member')
        finally:
            coll[nm] = plain
        break
    try:
        db = E.unserialise(io.BytesIO(buf.getvalue()))
        back = db.get_fgd()
        run.count('unserialise_calls')
    except Exception as exc:
        run.violation(f'unserialise/get_fgd raised {type(exc).__name__}: {exc}', case=case, engine=engine,
                      key='unserialise-raises')
        return False
    got = G.snap_fgd(back)
    ok = True
    if len(before) < 400:
        # the same database written behind other bytes in a stream and read from where it starts there (looked up entity by
        # entity, which is what reads the blocks lazily)
        lead = b'\x00' * 32 if len(before) % 2 else b'container header\n'
        try:
            sbuf = io.BytesIO()
            sbuf.write(lead)
            with quiet_stdout(), warnings.catch_warnings():
                warnings.simplefilter('ignore')
                E.serialise(fgd, sbuf)
            sbuf.seek(len(lead))
            db_off = E.unserialise(sbuf)
            got_off = {k: G.snap_ent(db_off.get_ent(k)) for k in sorted(before)}
        except Exception as exc:
            run.violation(f'a database written at offset {len(lead)} of a stream and read from there raised {type(exc).__name__}: {exc}',
                          case=case, engine=engine, key='binary-stream-offset')
            return False
        run.count('databases_read_from_a_stream_offset')
        d_off = G.first_diff({k: got.get(k) for k in sorted(before)}, got_off)
        if d_off is not None:
            run.violation(f'a database written at offset {len(lead)} of a stream reads back differently at {d_off[0]}',
                          witness={'diff': _clip(d_off, 600)}, case=case, engine=engine, key='binary-stream-offset')
            return False
    if set(got) != set(before):
        ok = False
        missing = sorted(set(before) - set(got))
        # serialise reports how many entities it put into "overflow blocks" and how many blocks it wrote
        m = re.search(r'^(\d+) ents in overflow blocks', log, re.M)
        overflow = int(m.group(1)) if m else 0
        mkey = 'binary-overflow-block-dropped' if missing and overflow >= len(missing) and not (set(got) - set(before)) \
            else 'binary-entity-set'
        run.violation(f'entity set changed: missing {missing[:4]}, extra {sorted(set(got) - set(before))[:4]}',
                      witness={'missing': missing[:20], 'serialise_log_tail': log[-400:]},
                      case=case, engine=engine, key=mkey)
        return False
    for key_cf, snap in before.items():
        if key_cf not in got:
            continue
        want = G.model_binary(snap)
        d = G.first_diff(want, got[key_cf])
        run.count('binary_entities_compared')
        if d is not None:
            ok = False
            field = re.sub(r'\[.*$', '', d[0].rsplit('.', 1)[-1])
            run.violation(f'{snap["classname"]}{d[0]}: stored {_clip(d[1])!r}, read back {_clip(d[2])!r}',
                          witness={'entity': snap['classname'], 'path': d[0], 'expected': _clip(d[1], 500),
                                   'got': _clip(d[2], 500)},
                          case=case, engine=engine, key='binary-field-lost:' + (field or 'entity'))
            break
    # the lazily parsed view of the same bytes must agree with the full view
    db2 = E.unserialise(io.BytesIO(buf.getvalue()))
    for key_cf in list(before)[:40]:
        try:
            ent = db2.get_ent(before[key_cf]['classname'])
        except Exception as exc:
            run.violation(f'get_ent({key_cf}) raised {type(exc).__name__}: {exc}', case=case, engine=engine,
                          key='lazy-get-ent-raises')
            ok = False
            break
        d = G.first_diff(got.get(key_cf), G.snap_ent(ent))
        if d is not None:
            ok = False
            run.violation(f'lazy get_ent({key_cf}) differs from get_fgd() at {d[0]}', witness={'diff': _clip(d, 600)},
                          case=case, engine=engine, key='lazy-order-dependent')
            break
    return ok


def binary_case(run, index: int) -> None:
    rng = sub_rng(run.seed, 'binary', index)
    fgd = G.gen_binary_fgd(rng, index)
    snaps = G.snap_fgd(fgd)
    case = {'engine': 'binary', 'index': index}
    binary_roundtrip(run, fgd, 'binary', case)
    nt = any(G.is_nontrivial(s) for s in snaps.values())
    run.case(canon_hash(['binary', snaps]), nt,
             sample={'case': case, 'entities': len(snaps), 'first': list(snaps)[:5]} if index < 1 else None, tag='binary')


def binary_dbase_case(run) -> None:
    from srctools.fgd import FGD
    fgd = FGD.engine_dbase()
    case = {'engine': 'binary-dbase'}
    binary_roundtrip(run, fgd, 'binary-dbase', case)
    run.count('binary_dbase_roundtrips')
    run.case('binary-dbase', True, sample={'case': case}, tag='binary-dbase')


# ------------------------------------------------------------------------------------------ lazy loading
_REF: Dict[str, Any] = {}


def _lzma_path() -> str:
    import srctools
    return os.path.join(os.path.dirname(srctools.__file__), 'fgd.lzma')


def fresh_db() -> Any:
    from srctools import _engine_db as E
    with open(_lzma_path(), 'rb') as f:
        return E.unserialise(f)


def lazy_reference() -> Dict[str, dict]:
    """Snapshots (with resolved bases, recursively) from a fully loaded database."""
    if 'snaps' not in _REF:
        full = fresh_db().get_fgd()
        memo: Dict[int, Any] = {}
        _REF['full'] = full   # keeps the objects (and so their id()s) alive while the memo is in use
        _REF['snaps'] = {k: deep_snap(e, memo) for k, e in full.entities.items()}
    return _REF['snaps']


def deep_snap(ent: Any, memo: Dict[int, Any]) -> dict:
    """snap_ent plus the snapshots of every base object actually attached (lazy loading must attach real ones)."""
    key = id(ent)
    if key in memo:
        return memo[key]
    s = G.snap_ent(ent)
    memo[key] = s
    s['base_defs'] = [deep_snap(b, memo) if not isinstance(b, str) else {'unresolved': b} for b in ent.bases]
    return s


def vandalise(ent: Any, depth: int = 0) -> None:
    """Edit everything mutable that is reachable from a definition handed out by the library."""
    from srctools import fgd as F
    ent.desc = ent.desc + ' (edited)'
    ent.kv_order = list(ent.kv_order) + ['zz_added']
    ent.helpers[:] = []
    if isinstance(ent.resources, list):
        ent.resources.append(F.Resource('edited/by/caller.mdl', F.FileType.MODEL))
        if len(ent.resources) > 1:
            del ent.resources[0]
    for attr in ('keyvalues', 'inputs', 'outputs'):
        coll = getattr(ent, attr)
        for key, tags_map in list(coll.items()):
            for tags, val in list(tags_map.items()):
                val.desc = 'edited'
                if attr == 'keyvalues':
                    val.default = 'edited'
                    val.disp_name = 'Edited'
                    if val.val_list:
                        val.val_list.append(val.val_list[0])
                        del val.val_list[0]
            if key.startswith(('a', 'm', 's')):
                del coll[key]
    ent.keyvalues['zz_added'] = {frozenset(): F.KVDef('zz_added', F.ValueTypes.STRING, 'Added')}
    if depth < 3:
        for base in list(ent.bases):
            if not isinstance(base, str):
                vandalise(base, depth + 1)
    ent.bases[:] = []


def lazy_case(run, index: int) -> None:
    from srctools import fgd as F
    rng = sub_rng(run.seed, 'lazy', index)
    ref = lazy_reference()
    names = sorted(ref)
    if index == 0:
        # documented shape of the engine database (serialise(): "_CBaseEntity_ is present, with all others based on it"):
        # an independent reference for what both loading routes attach as bases
        def reaches_root(snap: dict, seen: set) -> bool:
            if snap.get('classname', '').casefold() == '_cbaseentity_':
                return True
            if id(snap) in seen:
                return False
            seen.add(id(snap))
            return any(reaches_root(b, seen) for b in snap.get('base_defs', ()) if 'unresolved' not in b)
        run.count('engine_db_shape_checks')
        rootless = [k for k in names if k != '_cbaseentity_' and not reaches_root(ref[k], set())]
        if '_cbaseentity_' not in ref or rootless:
            run.violation(f'bundled database: {len(rootless)} entities are not based on _CBaseEntity_ after a full load, e.g. {rootless[:5]}',
                          witness={'rootless': rootless[:40]}, case={'engine': 'lazy', 'index': 0}, engine='lazy',
                          key='engine-db-entity-not-based-on-cbaseentity')
    mode = index % 4
    if mode == 0:
        order = list(names)
        rng.shuffle(order)
        order = order[:400] if run.tier != 'thorough' and index % 8 else order
    elif mode == 1:
        order = [rng.choice(names) for _ in range(rng.randint(1, 60))]       # with repeats
    elif mode == 2:
        order = rng.sample(names, rng.randint(1, 200))
    else:
        # aliases first: their bases live in other blocks
        aliases = [k for k in names if ref[k]['is_alias']]
        rng.shuffle(aliases)
        order = aliases[:rng.randint(1, max(1, len(aliases)))] + rng.sample(names, 50)
    via_public = bool(index & 4)
    case = {'engine': 'lazy', 'index': index, 'mode': mode, 'public_api': via_public, 'queries': len(order)}
    if rng.random() < 0.5:
        order = [rng.choice((n, n.upper(), ref[n]['classname'])) for n in order]
    if via_public:
        F._ENGINE_DB = None   # what a fresh process looks like to EntityDef.engine_def
        get = F.EntityDef.engine_def
    else:
        db = fresh_db()
        get = db.get_ent
        if index % 5 == 4:
            # history: the whole database is loaded first (and what get_fgd() hands out is edited), THEN single entities are asked for
            whole = db.get_fgd()
            for e_ in list(whole)[: 40]:
                vandalise(e_)
            whole.entities.clear()
            run.count('lazy_queries_after_a_full_load')
    memo: Dict[int, Any] = {}
    bad = False
    for qi, name in enumerate(order):
        try:
            ent = get(name)
        except Exception as exc:
            run.violation(f'query #{qi} {name!r} raised {type(exc).__name__}: {exc}', case=dict(case, order=order[:qi + 1][-30:]),
                          engine='lazy', key='lazy-get-ent-raises')
            bad = True
            break
        run.count('lazy_queries')
        got = deep_snap(ent, {} if via_public else memo)
        if via_public and qi % 3 == 0 and G.first_diff(ref[name.casefold()], got) is None:
            # what engine_def() hands out is the caller's own copy: whatever is done to it, the next lookup is unaffected
            vandalise(ent)   # (an exception in here is a harness error and ends the run as inconclusive)
            try:
                again = deep_snap(get(name), {})
            except Exception as exc:
                run.violation(f'editing the definition returned for {name!r} and asking again raised {type(exc).__name__}: {exc}',
                              case=dict(case, order=order[:qi + 1][-30:]), engine='lazy', key='lazy-returned-copy-not-isolated')
                bad = True
                break
            run.count('returned_definitions_edited')
            d2 = G.first_diff(ref[name.casefold()], again)
            if d2 is not None:
                run.violation(f'after editing the definition returned for {name!r}, the next lookup differs at {d2[0]}: {_clip(d2[1])!r} vs {_clip(d2[2])!r}',
                              witness={'path': d2[0]}, case=dict(case, order=order[:qi + 1][-30:]), engine='lazy',
                              key='lazy-returned-copy-not-isolated')
                bad = True
                break
        d = G.first_diff(ref[name.casefold()], got)
        if d is not None:
            run.violation(f'query #{qi} {name!r} differs from the fully loaded definition at {d[0]}: '
                          f'{_clip(d[1])!r} vs {_clip(d[2])!r}', witness={'path': d[0], 'full': _clip(d[1], 500),
                                                                        'lazy': _clip(d[2], 500)},
                          case=dict(case, order=order[:qi + 1][-30:]), engine='lazy', key='lazy-order-dependent')
            bad = True
            break
    if not bad and not via_public and index % 3 == 0:
        # finish loading after a partial history: same answer as the cold full load
        full = db.get_fgd()
        run.count('lazy_full_after_partial')
        for k, e in full.entities.items():
            d = G.first_diff(ref[k], deep_snap(e, memo))
            if d is not None:
                run.violation(f'get_fgd() after {len(order)} lazy queries differs for {k} at {d[0]}',
                              witness={'diff': _clip(d, 600)}, case=case, engine='lazy', key='lazy-order-dependent')
                break
        if set(full.entities) != set(ref):
            run.violation('get_fgd() after lazy queries has a different entity set', case=case, engine='lazy',
                          key='lazy-order-dependent')
    if via_public:
        F._ENGINE_DB = None
    run.case(canon_hash(['lazy', via_public, order]), True,
             sample={'case': case, 'first_queries': order[:6]} if index < 1 else None, tag='lazy')


def lazy_vs_dbase(run) -> None:
    """FGD.engine_dbase() (public full load) against the reference built through EngineDB directly."""
    from srctools import fgd as F
    F._ENGINE_DB = None
    full = F.FGD.engine_dbase()
    ref = lazy_reference()
    memo: Dict[int, Any] = {}
    for k, e in full.entities.items():
        d = G.first_diff(ref.get(k), deep_snap(e, memo))
        if d is not None:
            run.violation(f'engine_dbase() differs from get_fgd() for {k} at {d[0]}', witness={'diff': _clip(d, 600)},
                          case={'engine': 'lazy-dbase'}, engine='lazy', key='lazy-order-dependent')
            break
    run.count('engine_dbase_vs_get_fgd')
    F._ENGINE_DB = None


def extra_database(run) -> None:
    """An additional binary database registered on top of the bundled one (add_engine_database, "can override the existing
    entities"): looking classes up one at a time and loading everything at once still agree, for the overridden classes,
    for the classes only the bundled database has, and whatever the order of the look-ups."""
    import tempfile
    from pathlib import Path
    from srctools import fgd as F
    from srctools import _engine_db as E
    rng = sub_rng(run.seed, 'extra-db', 0)
    F._ENGINE_DB = None
    full = F.FGD.engine_dbase()
    small = F.FGD()
    names = sorted(k for k, e in full.entities.items() if k != '_cbaseentity_')
    chosen = rng.sample(names, 150)

    def take(ent: Any) -> None:
        if ent.classname.casefold() in small.entities:
            return
        small.entities[ent.classname.casefold()] = ent
        for b in ent.bases:
            if not isinstance(b, str):
                take(b)
    take(full['_CBaseEntity_'])
    for nm in chosen:
        take(full.entities[nm])
    changed = [nm for nm in chosen if not getattr(small.entities[nm], 'is_alias', False)][:12]
    for j, nm in enumerate(changed):
        ent = small.entities[nm]
        ent.keyvalues[f'rv_marker_{j}'] = {frozenset(): F.KVDef(f'rv_marker_{j}', F.ValueTypes.INT, 'Marker', str(40 + j))}
        if j % 3 == 0:
            for key in [k for k in ent.keyvalues if not k.startswith('rv_marker')][:1]:
                del ent.keyvalues[key]
    fd, fname = tempfile.mkstemp(prefix='rv-c16-', suffix='.lzma')
    try:
        with os.fdopen(fd, 'wb') as f, contextlib.redirect_stdout(io.StringIO()):
            E.serialise(small, f)
        F._ENGINE_DB = None
        F.add_engine_database(Path(fname))
    except Exception:
        os.unlink(fname)
        F._ENGINE_DB = None
        raise   # building the extra database is the harness's own business: inconclusive, not a verdict
    try:
        os.unlink(fname)
        classes = sorted(F.EntityDef.engine_classes())
        order = list(classes)
        rng.shuffle(order)
        if run.tier != 'thorough':
            order = sorted(set(order[:250]) | set(changed))
            rng.shuffle(order)
        singles = {}
        for nm in order[:len(order) // 2]:     # half of the single look-ups come before the full load ...
            singles[nm] = deep_snap(F.EntityDef.engine_def(nm), {})   # (no shared memo: it is keyed by id() of short-lived copies)
        whole = F.FGD.engine_dbase()
        for nm in order[len(order) // 2:]:     # ... and half after it
            singles[nm] = deep_snap(F.EntityDef.engine_def(nm), {})
        if {c.casefold() for c in classes} != set(whole.entities):
            odd = sorted({c.casefold() for c in classes} ^ set(whole.entities))
            run.violation(f'engine_classes() and engine_dbase() disagree on the classes once a second database is registered: {odd[:6]}',
                          case={'engine': 'extra-db'}, engine='lazy', key='extra-database-class-set')
        wmemo: Dict[int, Any] = {}
        for nm in order:
            ent = whole.entities.get(nm.casefold())
            if ent is None:
                continue
            d = G.first_diff(deep_snap(ent, wmemo), singles[nm])
            run.count('classes_compared_with_an_extra_database')
            if d is not None:
                run.violation(f'with a second database registered, engine_def({nm!r}) and engine_dbase()[{nm!r}] differ at {d[0]}: '
                              f'{_clip(d[1])!r} / {_clip(d[2])!r}', witness={'diff': _clip(d, 600), 'overridden': nm in changed},
                              case={'engine': 'extra-db'}, engine='lazy', key='extra-database-lookup-differs')
                break
        for j, nm in enumerate(changed):
            one = F.EntityDef.engine_def(nm)
            both = (f'rv_marker_{j}' in one.keyvalues, f'rv_marker_{j}' in whole.entities[nm].keyvalues)
            run.count('overriding_definitions_checked')
            if both != (True, True):
                run.violation(f'the definition of {nm!r} from the added database is not the one handed out: '
                              f'(engine_def, engine_dbase) see the override = {both}', case={'engine': 'extra-db'}, engine='lazy',
                              key='extra-database-override-ignored')
                break
    finally:
        F._ENGINE_DB = None


# ------------------------------------------------------------------------------------------ fixed corner cases
def fixed_fgds() -> List[Tuple[str, Any, bool]]:
    """Small deterministic definitions for the corners named in the property (run in every tier)."""
    from srctools import fgd as F
    VT = F.ValueTypes
    out = []

    def one(label: str, custom: bool, *kvs: Any, etype: Any = F.EntityTypes.POINT) -> None:
        fgd = F.FGD()
        ent = F.EntityDef(etype, 'fixed_' + label)
        for kv in kvs:
            ent.keyvalues[kv.name.casefold()] = {frozenset(): kv}
            ent.kv_order.append(kv.name.casefold())
        fgd.entities[ent.classname.casefold()] = ent
        out.append((label, fgd, custom))

    for custom in (True, False):
        c = 'c' if custom else 'p'
        one('empty_disp_' + c, custom, F.KVDef('model', VT.STRING, ''), F.KVDef('solid', VT.INT, 'Collisions', '6'))
        one('empty_disp_last_' + c, custom, F.KVDef('model', VT.STRING, ''))
        one('empty_disp_default_' + c, custom, F.KVDef('a', VT.STRING, '', 'x'), F.KVDef('b', VT.STRING, '', '', 'd'))
        one('empty_choice_name_' + c, custom,
            F.KVDef('ch', VT.CHOICES, 'Ch', '0', '', [('0', '', frozenset()), ('1', 'One', frozenset())]))
        one('nospace_1500_' + c, custom, F.KVDef('k', VT.STRING, 'K', '', 'x' * 1500))
        one('words_2500_' + c, custom, F.KVDef('k', VT.STRING, 'K', '', ' '.join(['word'] * 500)))
    one('quote_at_cut', True, F.KVDef('k', VT.STRING, 'K', '', 'a' * 999 + '"' + 'b' * 50))
    one('tabs_at_cut', True, F.KVDef('k', VT.STRING, 'K', '', 'a' + '\t' * 600 + 'b'))
    one('newline_at_cut_c', True, F.KVDef('k', VT.STRING, 'K', '', 'a' * 999 + '\n' + 'b' * 50))
    one('newline_at_cut_p', False, F.KVDef('k', VT.STRING, 'K', '', 'a' * 999 + '\n' + 'b' * 50))
    one('early_newline', True, F.KVDef('k', VT.STRING, 'K', '', 'ab\n' + 'c' * 1500))
    one('backslash_at_cut', True, F.KVDef('k', VT.STRING, 'a' * 999 + '\\' + 'tail', '', ''))
    one('all_value_types', True, *[F.KVDef('k_' + vt.name.lower(), vt, vt.name, '1' if vt is not VT.SPAWNFLAGS else '',
                                           '', [] if vt.has_list else None) for vt in VT])
    return out


def fixed_cases(run, shard) -> None:
    for j, (label, fgd, custom) in enumerate(fixed_fgds()):
        if not mine(j, shard):
            continue
        case = {'engine': 'fixed', 'label': label, 'custom_syntax': custom, 'label_spawnflags': True}
        snaps = G.snap_fgd(fgd)
        text, ok = text_roundtrip(run, fgd, custom, True, False, 'fixed', case)
        _feature_counts(run, snaps, text)
        run.case(canon_hash(['fixed', label]), True, sample={'case': case, 'text': (text or '')[:300]} if j == 0 else None,
                 tag='fixed')


def check_decay_table(run) -> None:
    from srctools.fgd import VALUE_TO_IO_DECAY, ValueTypes
    for vt in ValueTypes:
        tgt = VALUE_TO_IO_DECAY.get(vt)
        if tgt is None or not tgt.valid_for_io or VALUE_TO_IO_DECAY[tgt] is not tgt:
            run.violation(f'VALUE_TO_IO_DECAY[{vt.name}] = {tgt!r} is not a fixed point valid for I/O',
                          case={'engine': 'decay', 'type': vt.name}, engine='decay', key='io-decay-table')
    run.count('decay_entries_checked', len(ValueTypes))


# ------------------------------------------------------------------------------------------ driver
def guarded(run, engine: str, case: Any, fn: Any) -> None:
    """An exception that escapes from library code (innermost frame under srctools/) refutes the property;
    one raised by the harness itself stays a harness error (-> inconclusive)."""
    import traceback
    try:
        fn()
    except Exception as exc:
        tb = traceback.extract_tb(exc.__traceback__)
        inner = tb[-1].filename if tb else ''
        if (os.sep + 'srctools' + os.sep) not in inner:
            raise
        run.violation(f'{engine}: library raised {type(exc).__name__}: {exc}',
                      witness=''.join(traceback.format_exception(type(exc), exc, exc.__traceback__))[-1800:],
                      case=case, engine=engine, key='library-raises')


def make_probe() -> ReachProbe:
    from srctools import fgd as F
    from srctools import _engine_db as E
    return ReachProbe({
        'FGD.export': (F, 'FGD.export'), 'EntityDef.export': (F, 'EntityDef.export'),
        'KVDef.export': (F, 'KVDef.export'), 'IODef.export': (F, 'IODef.export'),
        'FGD.parse_file': (F, 'FGD.parse_file'), 'EntityDef.parse': (F, 'EntityDef.parse'),
        'KVDef._parse': (F, 'KVDef._parse'), 'IODef._parse': (F, 'IODef._parse'),
        '_write_longstring': (F, '_write_longstring'), '_read_colon_list': (F, '_read_colon_list'),
        'serialise': (E, 'serialise'), 'unserialise': (E, 'unserialise'),
        'ent_serialise': (E, 'ent_serialise'), 'ent_unserialise': (E, 'ent_unserialise'),
        'EngineDB.get_ent': (E, 'EngineDB.get_ent'), 'EngineDB._parse_block': (E, 'EngineDB._parse_block'),
        'EntityDef.engine_def': (F, 'EntityDef.engine_def'), 'FGD.engine_dbase': (F, 'FGD.engine_dbase'),
    })


JOB_ENGINES = [('dbase', {'custom_syntax': True, 'label_spawnflags': True}), ('binary-dbase', {}),
               ('dbase', {'custom_syntax': False, 'label_spawnflags': True}), ('lazy-dbase', {}),
               ('dbase', {'custom_syntax': True, 'label_spawnflags': False}),
               ('dbase', {'custom_syntax': False, 'label_spawnflags': False}), ('extra-db', {})]


def main(run, shard=(0, 1)) -> None:
    thorough = run.tier == 'thorough'
    tier = 'thorough' if thorough else 'quick'
    warnings.simplefilter('ignore')
    probe = make_probe()
    probe.start()
    n = shard[1]
    # whole-database jobs are spread over the shards by a fixed job number
    jobs = [
        lambda: dbase_case(run, True, True),
        lambda: binary_dbase_case(run),
        lambda: dbase_case(run, False, True),
        lambda: (lazy_vs_dbase(run), check_decay_table(run)),
        lambda: dbase_case(run, True, False),
        lambda: dbase_case(run, False, False),
        lambda: extra_database(run),
    ]
    for j, job in enumerate(jobs):
        if mine(j, shard):
            guarded(run, 'dbase', {'engine': JOB_ENGINES[j][0], **JOB_ENGINES[j][1]}, job)
    guarded(run, 'fixed', {'engine': 'fixed'}, lambda: fixed_cases(run, shard))
    for i in range(N_LAZY[tier]):
        if mine(i, shard):
            guarded(run, 'lazy', {'engine': 'lazy', 'index': i}, lambda: lazy_case(run, i))
    for i in range(N_BIN[tier]):
        if mine(i, shard):
            guarded(run, 'binary', {'engine': 'binary', 'index': i}, lambda: binary_case(run, i))
    guarded(run, 'dbase-ent', {'engine': 'dbase-ent'}, lambda: dbase_per_entity(run, shard, 1 << 30 if thorough else 240))
    for i in range(N_TEXT[tier]):
        if mine(i, shard):
            guarded(run, 'text', {'engine': 'text', 'index': i}, lambda: text_case(run, i))
    probe.report(run)
    # shards run different engines: reach is summed over the shards through counters, then required as a whole
    for label_, cnt in probe.counts.items():
        if cnt:
            run.count('reach:' + label_, cnt)
    run.require(*['reach:' + label_ for label_ in probe.counts])
    run.require('spawnflag_names_with_leading_blanks', 'exports', 'parses', 'file_form_exports', 'fgd_level_sections_compared', 'visgroup_trees_checked_against_export', 'engine_db_shape_checks', 'returned_definitions_edited', 'lazy_queries_after_a_full_load', 'serialise_twice', 'tagged_member_refused', 'entities_compared', 'second_exports', 'serialise_calls', 'unserialise_calls',
                'lazy_queries', 'dbase_roundtrips', 'binary_dbase_roundtrips', 'long_strings', 'empty_display_names',
                'tagged_duplicate_keys', 'aliases', 'texts_with_plus_split', 'binary_entities_compared', 'classes_compared_with_an_extra_database', 'databases_read_from_a_stream_offset',
                'overriding_definitions_checked')


def replay(run, data) -> None:
    warnings.simplefilter('ignore')
    case = data['case']
    engine = case.get('engine')
    if engine == 'text':
        text_case(run, int(case['index']), 'text', case.get('opts') or None)
    elif engine == 'fixed':
        for label, fgd, custom in fixed_fgds():
            if label == case['label']:
                text_roundtrip(run, fgd, custom, True, False, 'fixed', case)
                run.case(canon_hash(['fixed', label]), True, tag='fixed')
    elif engine == 'dbase':
        dbase_case(run, bool(case['custom_syntax']), bool(case['label_spawnflags']))
    elif engine == 'dbase-ent':
        from srctools.fgd import FGD
        base = FGD.engine_dbase()
        ent = base.entities[case['classname'].casefold()]
        sub = FGD()
        todo = [ent]
        while todo:
            e = todo.pop()
            if e.classname.casefold() not in sub.entities:
                sub.entities[e.classname.casefold()] = e
                todo.extend(b for b in e.bases if not isinstance(b, str))
        text_roundtrip(run, sub, bool(case['custom_syntax']), True, False, 'dbase-ent', case,
                       only={case['classname'].casefold()})
        run.case(canon_hash(['dbase-ent', case['classname']]), True, tag='dbase-ent')
    elif engine == 'binary':
        binary_case(run, int(case['index']))
    elif engine == 'binary-dbase':
        binary_dbase_case(run)
    elif engine == 'lazy':
        lazy_case(run, int(case['index']))
    elif engine == 'lazy-dbase':
        lazy_vs_dbase(run)
    elif engine == 'decay':
        check_decay_table(run)
    run.case('pad', True)
    run.case('pad2', True)


# (kept at the end of the file so that the text above stays the description the check was first built to)
RULE += ' ' + 'Later additions: the visgroup tree of the FGD given to export() is preserved by it; every entity of the bundled database reaches _CBaseEntity_; definitions returned by engine_def() are edited (everything mutable, bases included) and looked up again. The text of every round trip is read a second time after everything the first read returned was edited; both reads give the same definitions. A second binary database (150 sampled classes with their bases, twelve of them changed) is registered with add_engine_database: single look-ups made before and after a full load agree with the full load for overridden and bundled-only classes, and both hand out the overriding definition. Every round-trip text is also read with eval_bases=False and completed with apply_bases(): export and definitions equal those of the plain read. Every binary round trip of a generated FGD is repeated with the database written behind other bytes in a stream and read, entity by entity, from where it starts there.'
